#!/bin/bash
# Build the analysers from files on disk (offline) and warm the dependency cache.
set -e
cd "$(dirname "$0")"
export CARGO_NET_OFFLINE=true
(cd qfacts && cargo +nightly build --offline 2>&1 | tail -2)
if [ -d qsyn ] && [ -f qsyn/Cargo.toml ]; then
  (cd qsyn && cargo build --release --offline 2>&1 | tail -2)
fi
PY=python3-vt
command -v $PY >/dev/null 2>&1 || PY=/opt/veriftools/pyvenv/bin/python3
# generate facts once for the current tree (compiles dependencies' metadata into .cache/target)
$PY - <<'PY'
import sys
sys.path.insert(0, ".")
from qv import facts
print("facts:", facts.ensure_facts("default"))
PY
