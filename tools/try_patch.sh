#!/bin/bash
# tools/try_patch.sh <patch> <Cxx> [<Cxx>...]  : apply patch to /repo, run the checks, revert
P=$(realpath "$1"); shift
cd /repo || exit 2
git diff --quiet || { echo "repo dirty"; exit 2; }
git apply "$P" 2>/dev/null || git apply --3way "$P" 2>/dev/null || { git reset -q --hard HEAD; echo "PATCH DOES NOT APPLY"; exit 3; }
if git diff --name-only --diff-filter=U | grep -q .; then git reset -q --hard HEAD; echo "PATCH CONFLICTS"; exit 3; fi
cd /verif
for c in "$@"; do
  echo "=== $c on $(basename $P)"
  ./check $c 2>&1 | grep -E "^(VIOLATION|OK|KNOWN|INCONCLUSIVE|  quil)" | cut -c1-260
done
cd /repo && git reset -q --hard HEAD && git status --short | head -3
