#!/usr/bin/env python3
"""mutate.py <repo-relative file> <old> <new> Cxx [Cyy..]: replace exactly one occurrence of <old> in /repo/<file>,
run the checks, print their verdict lines, always restore the file.  For checker self-tests only."""
import subprocess, sys
f, old, new, props = sys.argv[1], sys.argv[2], sys.argv[3], sys.argv[4:]
p = "/repo/" + f
s = open(p).read()
if s.count(old) != 1:
    sys.exit("pattern occurs %d times" % s.count(old))
try:
    open(p, "w").write(s.replace(old, new))
    for c in props:
        r = subprocess.run(["/verif/check", c], capture_output=True, text=True)
        lines = [l for l in r.stdout.splitlines() if l.startswith(("OK", "VIOLATION", "INCONCLUSIVE", "  key=", "KNOWN", "BROKEN", "error"))]
        print("exit=%d" % r.returncode, *[l[:230] for l in lines[:8]], sep="\n  ")
        if r.returncode == 2:
            print(r.stdout[-1500:], r.stderr[-1500:])
finally:
    open(p, "w").write(s)
    subprocess.run(["git", "-C", "/repo", "status", "--short"])
