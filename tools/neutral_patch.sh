#!/bin/bash
# tools/neutral_patch.sh <name> <patch> : like neutral.sh, but the behaviour-preserving edit is given as a patch file
NAME=$1; P=$(realpath "$2")
export QV_EVIDENCE_DIR=/tmp/neutral_evidence
cd /repo || exit 2
git diff --quiet || { echo "repo dirty"; exit 2; }
git apply "$P" || { echo "patch does not apply"; exit 3; }
cd /verif
BAD=""
for c in $(python3 -c "import json;print(' '.join(x['property_id'] for x in json.load(open('/verif/MANIFEST.json'))['checks']))"); do
  out=$(./check $c 2>&1); rc=$?
  if [ $rc -ne 0 ]; then BAD="$BAD $c(rc=$rc)"; echo "--- $NAME: $c exit $rc"; echo "$out" | grep -E "key=|INCONCL|error" | head -4; fi
done
git -C /repo checkout -- .
echo "NEUTRAL $NAME: ${BAD:-all checks silent}"
