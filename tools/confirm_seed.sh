#!/bin/bash
# tools/confirm_seed.sh <seed-id> <property> <patch> <demo.rs> : confirm a seeded change in a scratch worktree
# (still compiles, existing suite passes, demo fails with / passes without), then store it under /verif/seeded/<seed-id>/
ID=$1; PROP=$2; PATCH=$3; DEMO=$4; NEEDS=${5:-"see NOTES"}
WT=/tmp/seedchk/wt
export CARGO_NET_OFFLINE=true CARGO_TARGET_DIR=/tmp/seedchk/target
mkdir -p /tmp/seedchk
if [ ! -d $WT ]; then git -C /repo worktree add -q --detach $WT HEAD || exit 2; fi
cd $WT && git checkout -q --detach $(git -C /repo rev-parse HEAD) && git reset -q --hard && git clean -qfd
OUT=/verif/seeded/$ID; mkdir -p $OUT
DN=demo_$(echo $ID | tr 'A-Z-' 'a-z_')
cp $DEMO quil-rs/tests/$DN.rs
# 1. demo passes without the change
cargo nextest run -p quil-rs --test $DN --offline > $OUT/.demo_without.log 2>&1; W=$?
# 2. apply
git apply --3way $PATCH > $OUT/.apply.log 2>&1 || git apply $PATCH >> $OUT/.apply.log 2>&1 || { echo "$ID: patch does not apply"; exit 3; }
git diff HEAD -- . ':!quil-rs/tests' > $OUT/patch.diff
# 3. demo fails with the change
cargo nextest run -p quil-rs --test $DN --offline > $OUT/.demo_with.log 2>&1; F=$?
# 4. existing suite passes with the change (demo excluded)
rm quil-rs/tests/$DN.rs
cargo nextest run --workspace --no-fail-fast --test-threads 8 --offline > $OUT/.suite.log 2>&1; S=$?
SUM=$(grep -E "^\s*Summary" $OUT/.suite.log | tail -1)
cp $DEMO $OUT/demo.rs
cat > $OUT/meta.json <<JSON
{"seed": "$ID", "property": "$PROP", "base_commit": "$(git -C /repo rev-parse --short HEAD)",
 "needs_to_manifest": "$(echo $NEEDS | tr -d '"' | tr '"' "'")",
 "confirmed": {"demo_passes_without_change": $([ $W -eq 0 ] && echo true || echo false), "demo_fails_with_change": $([ $F -ne 0 ] && echo true || echo false), "existing_suite_passes_with_change": $([ $S -eq 0 ] && echo true || echo false), "suite_summary": "$(echo $SUM | tr -d '"')"},
 "ran": ["cargo nextest run -p quil-rs --test $DN --offline (without change)", "git apply patch.diff", "cargo nextest run -p quil-rs --test $DN --offline (with change)", "cargo nextest run --workspace --no-fail-fast --test-threads 8 --offline (with change, demo removed)"]}
JSON
git reset -q --hard; git clean -qfd
echo "$ID: demo_without=$W demo_with=$F suite=$S $SUM"
