#!/bin/bash
# tools/neutral.sh <name> <repo-relative file> <old> <new> : apply a behaviour-preserving edit to /repo, run EVERY claimed
# check with evidence redirected, report any check that does not exit 0, restore the file.
NAME=$1; F=$2; OLD=$3; NEW=$4
export QV_EVIDENCE_DIR=/tmp/neutral_evidence
python3 - "$F" "$OLD" "$NEW" <<'PY' || exit 3
import sys
f,old,new=sys.argv[1:4]
p="/repo/"+f
s=open(p).read()
if s.count(old)!=1: sys.exit("pattern occurs %d times"%s.count(old))
open(p,"w").write(s.replace(old,new))
PY
cd /verif
BAD=""
for c in $(python3 -c "import json;print(' '.join(x['property_id'] for x in json.load(open('/verif/MANIFEST.json'))['checks']))"); do
  out=$(./check $c 2>&1); rc=$?
  if [ $rc -ne 0 ]; then BAD="$BAD $c(rc=$rc)"; echo "--- $NAME: $c exit $rc"; echo "$out" | grep -E "key=|INCONCL|error" | head -4; fi
done
git -C /repo checkout -- .
echo "NEUTRAL $NAME: ${BAD:-all checks silent}"
