use ndarray::{array, linalg::kron, Array2};
use num_complex::Complex64;
use quil_rs::expression::Expression;
use quil_rs::instruction::{Gate, Matrix, Qubit};

fn c(re: f64) -> Complex64 {
    Complex64::new(re, 0.0)
}

fn close(a: &Matrix, b: &Matrix) -> bool {
    a.shape() == b.shape() && a.iter().zip(b.iter()).all(|(x, y)| (x - y).norm() < 1e-9)
}

/// CONTROLLED applied on top of FORKED: the leading qubit is the control.
#[test]
fn controlled_on_top_of_forked() {
    let p0: Matrix = array![[c(1.0), c(0.0)], [c(0.0), c(0.0)]];
    let p1: Matrix = array![[c(0.0), c(0.0)], [c(0.0), c(1.0)]];
    let num = |x: f64| Expression::Number(Complex64::new(x, 0.0));
    // FORKED RX(0.3, 1.1) 1 0  on two qubits
    let forked = Gate::new("RX", vec![num(0.3)], vec![Qubit::Fixed(0)], vec![])
        .unwrap()
        .forked(Qubit::Fixed(1), vec![num(1.1)])
        .unwrap();
    let inner = forked.clone().to_unitary(2).unwrap();
    // CONTROLLED FORKED RX(0.3, 1.1) 2 1 0
    let mut controlled = forked.clone().controlled(Qubit::Fixed(2));
    let got = controlled.to_unitary(3).unwrap();
    let want = kron(&p0, &Array2::eye(4)) + kron(&p1, &inner);
    assert!(close(&got, &want), "CONTROLLED FORKED RX(0.3,1.1) 2 1 0 is not |0><0| x I + |1><1| x (FORKED RX(0.3,1.1) 1 0)\n got={got:.3}\nwant={want:.3}");
}

/// FORKED applied on top of CONTROLLED: the leading qubit selects the parameter half.
#[test]
fn forked_on_top_of_controlled() {
    let p0: Matrix = array![[c(1.0), c(0.0)], [c(0.0), c(0.0)]];
    let p1: Matrix = array![[c(0.0), c(0.0)], [c(0.0), c(1.0)]];
    let num = |x: f64| Expression::Number(Complex64::new(x, 0.0));
    let crx = |x: f64| {
        Gate::new("RX", vec![num(x)], vec![Qubit::Fixed(0)], vec![])
            .unwrap()
            .controlled(Qubit::Fixed(1))
            .to_unitary(2)
            .unwrap()
    };
    let mut g = Gate::new("RX", vec![num(0.3)], vec![Qubit::Fixed(0)], vec![])
        .unwrap()
        .controlled(Qubit::Fixed(1))
        .forked(Qubit::Fixed(2), vec![num(1.1)])
        .unwrap();
    let got = g.to_unitary(3).unwrap();
    let want = kron(&p0, &crx(0.3)) + kron(&p1, &crx(1.1));
    assert!(close(&got, &want), "FORKED CONTROLLED RX(0.3,1.1) 2 1 0 is not |0><0| x CRX(0.3) + |1><1| x CRX(1.1)\n got={got:.3}\nwant={want:.3}");
}
