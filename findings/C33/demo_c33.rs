use quil_rs::instruction::{Instruction, MemoryReference, Target};
use quil_rs::Program;
use std::str::FromStr;

/// With a counter reference whose index is not 0, the loop must still count down the cell it tests.
#[test]
fn counter_with_nonzero_index() {
    let program = Program::from_str("X 0\n").unwrap();
    let counter = MemoryReference { name: "count".to_string(), index: 2 };
    let looped = program.wrap_in_loop(counter.clone(), Target::Fixed("start".to_string()), 3);
    let body: Vec<_> = looped.body_instructions().cloned().collect();
    let moved = body.iter().find_map(|i| if let Instruction::Move(m) = i { Some(m.destination.clone()) } else { None }).unwrap();
    let decremented = body.iter().find_map(|i| if let Instruction::Arithmetic(a) = i { Some(a.destination.clone()) } else { None }).unwrap();
    let tested = body.iter().find_map(|i| if let Instruction::JumpWhen(j) = i { Some(j.condition.clone()) } else { None }).unwrap();
    assert_eq!(moved, counter);
    assert_eq!(tested, counter);
    assert_eq!(decremented, counter, "the loop decrements {decremented:?} but tests {tested:?}: it never terminates");
    let declared = looped.memory_regions.get("count").unwrap();
    assert!(declared.size.length > counter.index, "count is declared with length {} but index {} is used", declared.size.length, counter.index);
}
