use quil_rs::instruction::Qubit;
use quil_rs::Program;
use std::str::FromStr;

/// A DEFCAL that replaces an earlier one with the same signature must not leave the replaced
/// body's qubits in the used-qubit set.
#[test]
fn replaced_calibration_does_not_leave_stale_qubits() {
    let program = Program::from_str("DEFCAL X 0:\n    Y 1\nDEFCAL X 0:\n    Y 2\n").unwrap();
    let rebuilt = Program::from_instructions(program.to_instructions());
    assert!(!program.get_used_qubits().contains(&Qubit::Fixed(1)), "qubit 1 is mentioned nowhere in {:?}", program.to_instructions());
    assert_eq!(program, rebuilt);
}

#[test]
fn replaced_measure_calibration_does_not_leave_stale_qubits() {
    let program = Program::from_str("DEFCAL MEASURE 0 addr:\n    X 1\nDEFCAL MEASURE 0 addr:\n    X 2\n").unwrap();
    let rebuilt = Program::from_instructions(program.to_instructions());
    assert_eq!(program.get_used_qubits(), rebuilt.get_used_qubits());
    assert_eq!(program, rebuilt);
}
