use num_complex::Complex64;
use quil_rs::instruction::{Call, Instruction, UnresolvedCallArgument};
use quil_rs::quil::Quil;
use quil_rs::Program;
use std::str::FromStr;

fn round_trip(value: Complex64) {
    let call = Call::try_new("foo".to_string(), vec![UnresolvedCallArgument::Immediate(value)]).unwrap();
    let mut program = Program::new();
    program.add_instruction(Instruction::Call(call));
    let text = program.to_quil().unwrap();
    let parsed = Program::from_str(&text).unwrap_or_else(|e| panic!("`{}` does not parse: {e}", text.trim()));
    assert_eq!(parsed, program, "`{}`", text.trim());
}

#[test]
fn negative_real_immediate() {
    round_trip(Complex64::new(-1.5, 0.0));
}
#[test]
fn negative_imaginary_immediate() {
    round_trip(Complex64::new(0.0, -2.0));
}
#[test]
fn positive_immediates_still_round_trip() {
    round_trip(Complex64::new(2.0, 0.0));
    round_trip(Complex64::new(0.0, 3.0));
}
