use quil_rs::quil::Quil;
use quil_rs::Program;
use std::str::FromStr;

fn round_trips(text: &str) -> Result<(), String> {
    let program = Program::from_str(text).map_err(|e| format!("input does not parse: {e}"))?;
    let printed = program.to_quil().unwrap();
    let reparsed = Program::from_str(&printed).map_err(|e| format!("`{}` does not re-parse: {e}", printed.trim()))?;
    if reparsed == program { Ok(()) } else { Err(format!("`{}` re-parses to a different program", printed.trim())) }
}

#[test]
fn delay_with_compound_duration() {
    round_trips("DELAY 0 (1+2)\n").unwrap();
}
#[test]
fn delay_with_memory_reference_duration() {
    round_trips("DECLARE theta REAL[1]\nDELAY 0 (theta[0])\n").unwrap();
}
#[test]
fn delay_with_frame_names_is_fine() {
    round_trips("DELAY 0 \"rf\" 1+2\n").unwrap();
}
