//! C04: a DELAY without frame names whose duration starts with a token that the qubit parser accepts.
//! Before the fix (`fix: group a variable or plus-prefixed DELAY duration`): `DELAY 0 %theta` and
//! `DELAY 0 theta[1]` (from `+theta[1]`) were printed ungrouped and did not parse back.
//! Drop into quil-rs/tests/ to run.
use internment::ArcIntern;
use quil_rs::{
    expression::{Expression, PrefixExpression, PrefixOperator},
    instruction::{Delay, Instruction, Qubit},
    quil::Quil,
    Program,
};
use std::str::FromStr;

fn round_trip(duration: Expression) {
    let instruction = Instruction::Delay(Delay {
        qubits: vec![Qubit::Fixed(0)],
        frame_names: vec![],
        duration,
    });
    let text = instruction.to_quil().unwrap();
    let back = Program::from_str(&text).unwrap_or_else(|e| panic!("`{text}` does not parse: {e}"));
    match &back.to_instructions()[0] {
        Instruction::Delay(delay) => assert_eq!(delay.qubits, vec![Qubit::Fixed(0)], "`{text}`"),
        other => panic!("`{text}` parsed as {other:?}"),
    }
}

#[test]
fn variable_duration() {
    round_trip(Expression::Variable("theta".into()));
}

#[test]
fn plus_prefixed_duration() {
    round_trip(Expression::Prefix(PrefixExpression {
        operator: PrefixOperator::Plus,
        expression: ArcIntern::new(Expression::from_str("theta[1]").unwrap()),
    }));
}

#[test]
fn durations_that_were_already_fine() {
    for text in ["-1", "-%x", "2.5", "3", "2i"] {
        round_trip(Expression::from_str(text).unwrap());
    }
}
