use quil_rs::quil::Quil;
use quil_rs::Program;
use std::str::FromStr;

/// A string literal containing a line break inside a DEFCIRCUIT body survives printing and parsing.
#[test]
fn multi_line_string_inside_circuit_body() {
    let text = "DEFCIRCUIT FOO:\n    PRAGMA note \"a\nb\"\n    X 0\n";
    let program = Program::from_str(text).unwrap();
    let printed = program.to_quil().unwrap();
    let reparsed = Program::from_str(&printed).unwrap();
    assert_eq!(reparsed, program, "printed as:\n{printed}");
}

/// The same string at top level is fine.
#[test]
fn multi_line_string_at_top_level() {
    let program = Program::from_str("PRAGMA note \"a\nb\"\n").unwrap();
    let reparsed = Program::from_str(&program.to_quil().unwrap()).unwrap();
    assert_eq!(reparsed, program);
}
