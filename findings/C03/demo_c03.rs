use num_complex::Complex64;
use quil_rs::expression::{
    Expression, InfixExpression, InfixOperator, PrefixExpression, PrefixOperator,
};
use quil_rs::quil::Quil;
use std::collections::HashMap;
use std::str::FromStr;

fn num(re: f64, im: f64) -> Expression {
    Expression::Number(Complex64::new(re, im))
}
fn var(n: &str) -> Expression {
    Expression::Variable(n.to_string())
}
fn infix(l: Expression, op: InfixOperator, r: Expression) -> Expression {
    Expression::Infix(InfixExpression::new(l.into(), op, r.into()))
}
fn neg(e: Expression) -> Expression {
    Expression::Prefix(PrefixExpression::new(PrefixOperator::Minus, e.into()))
}

fn check(e: Expression) {
    let text = e.to_quil().unwrap();
    let parsed = Expression::from_str(&text).unwrap_or_else(|err| panic!("`{text}` does not parse back: {err}"));
    let vars: HashMap<String, Complex64> = [("x".to_string(), Complex64::new(0.7, -0.2))].into_iter().collect();
    let mem: HashMap<&str, Vec<f64>> = HashMap::new();
    let a = e.evaluate(&vars, &mem).unwrap();
    let b = parsed.evaluate(&vars, &mem).unwrap();
    assert!((a - b).norm() < 1e-9, "`{text}`: original evaluates to {a}, parsed to {b}");
}

#[test]
fn complex_literal_inside_product() {
    check(infix(num(1.0, 2.0), InfixOperator::Star, var("x")));
}
#[test]
fn complex_literal_as_right_operand_of_minus() {
    check(infix(var("x"), InfixOperator::Minus, num(1.0, 2.0)));
}
#[test]
fn negated_complex_literal() {
    check(neg(num(1.0, 2.0)));
}
#[test]
fn nested_negation() {
    check(neg(neg(var("x"))));
}
#[test]
fn negated_negative_literal() {
    check(neg(num(-3.0, 0.0)));
}
#[test]
fn negative_base_of_power() {
    check(infix(num(-2.0, 0.0), InfixOperator::Caret, num(2.0, 0.0)));
}
#[test]
fn negated_variable_base_of_power() {
    check(infix(neg(var("x")), InfixOperator::Caret, num(2.0, 0.0)));
}
#[test]
fn negative_exponent() {
    check(infix(num(2.0, 0.0), InfixOperator::Caret, num(-3.0, 0.0)));
}
#[test]
fn plus_prefix_nested() {
    check(Expression::Prefix(PrefixExpression::new(PrefixOperator::Plus, neg(var("x")).into())));
}
