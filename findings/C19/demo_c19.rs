use quil_rs::program::{CalibrationExpansion, ExpansionResult, Program};
use std::str::FromStr;

fn rewritten(e: &ExpansionResult<CalibrationExpansion>) -> &CalibrationExpansion {
    match e {
        ExpansionResult::Rewritten(r) => r,
        _ => panic!("expected rewritten"),
    }
}

/// the nested calibration's first instruction is hoisted (DECLARE): the nested range must keep its start
#[test]
fn hoisted_first_instruction_of_nested_expansion() {
    let p = Program::from_str(
        "DEFCAL X 0:\n    NOP\n    Y 0\nDEFCAL Y 0:\n    DECLARE m BIT\n    NOP\nX 0\n",
    )
    .unwrap();
    let (out, map) = p.expand_calibrations_with_source_map().unwrap();
    assert_eq!(out.body_instructions().count(), 2);
    let top = rewritten(map.entries()[0].target_location());
    assert_eq!((top.range().start.0, top.range().end.0), (0, 2));
    let y = rewritten(top.expansions().entries()[1].target_location());
    // Y produced exactly the second NOP: relative range 1..2
    assert_eq!((y.range().start.0, y.range().end.0), (1, 2));
}

/// an instruction hoisted immediately before a nested expansion must not shrink what that expansion itself contains
#[test]
fn hoisted_instruction_just_before_nested_expansion() {
    let p = Program::from_str(
        "DEFCAL X 0:\n    NOP\n    DECLARE m BIT\n    Y 0\nDEFCAL Y 0:\n    Z 0\nDEFCAL Z 0:\n    NOP\n    NOP\nX 0\n",
    )
    .unwrap();
    let (out, map) = p.expand_calibrations_with_source_map().unwrap();
    assert_eq!(out.body_instructions().count(), 3);
    let top = rewritten(map.entries()[0].target_location());
    let y = rewritten(top.expansions().entries()[2].target_location());
    assert_eq!((y.range().start.0, y.range().end.0), (1, 3));
    let z = rewritten(y.expansions().entries()[0].target_location());
    assert_eq!((z.range().start.0, z.range().end.0), (0, 2));
}
