use quil_rs::program::analysis::ControlFlowGraph;
use quil_rs::Program;
use std::str::FromStr;

/// Offsets locate a block's first element in the body, also after an INCLUDE.
#[test]
fn offsets_after_include() {
    let program = Program::from_str("X 0\nINCLUDE \"other.quil\"\nJUMP @a\nLABEL @a\nY 0\n").unwrap();
    let body: Vec<_> = program.body_instructions().cloned().collect();
    let graph = ControlFlowGraph::from(&program);
    let blocks = graph.into_blocks();
    let second = &blocks[1];
    // the second block starts with LABEL @a, which is body[3]
    assert_eq!(format!("{:?}", body[3]).contains("Label"), true);
    assert_eq!(second.instruction_index_offset(), 3, "the body has {} instructions: {:?}", body.len(), body);
}
