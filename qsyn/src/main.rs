// qsyn: dump the un-expanded syntax of every non-test function / static / const under
// the given source roots as JSON (expressions, patterns, macro invocations with their
// arguments re-parsed, format templates split into pieces and holes).
//
// usage: qsyn <out.json> <repo root> <src dir>...
use proc_macro2::TokenStream;
use quote::ToTokens;
use serde_json::{json, Value};
use std::path::{Path, PathBuf};
use syn::punctuated::Punctuated;
use syn::spanned::Spanned;

fn line<T: Spanned>(t: &T) -> usize {
    t.span().start().line
}
fn end_line<T: Spanned>(t: &T) -> usize {
    t.span().end().line
}
fn col<T: Spanned>(t: &T) -> usize {
    t.span().start().column + 1
}

fn toks<T: ToTokens>(t: &T) -> String {
    let s = t.to_token_stream().to_string();
    if s.len() > 400 {
        let mut i = 400;
        while !s.is_char_boundary(i) {
            i -= 1;
        }
        format!("{}...", &s[..i])
    } else {
        s
    }
}

fn path_str(p: &syn::Path) -> String {
    let mut s = String::new();
    if p.leading_colon.is_some() {
        s.push_str("::");
    }
    for (i, seg) in p.segments.iter().enumerate() {
        if i > 0 {
            s.push_str("::");
        }
        s.push_str(&seg.ident.to_string());
    }
    s
}

fn lit(l: &syn::Lit) -> Value {
    match l {
        syn::Lit::Str(s) => json!({"k":"lit","t":"str","v":s.value()}),
        syn::Lit::ByteStr(s) => json!({"k":"lit","t":"bytestr","v":String::from_utf8_lossy(&s.value()).to_string()}),
        syn::Lit::Byte(b) => json!({"k":"lit","t":"byte","v":b.value()}),
        syn::Lit::Char(c) => json!({"k":"lit","t":"char","v":c.value().to_string()}),
        syn::Lit::Int(i) => json!({"k":"lit","t":"int","v":i.base10_digits(),"suffix":i.suffix()}),
        syn::Lit::Float(f) => json!({"k":"lit","t":"float","v":f.base10_digits(),"suffix":f.suffix()}),
        syn::Lit::Bool(b) => json!({"k":"lit","t":"bool","v":b.value}),
        other => json!({"k":"lit","t":"other","v":toks(other)}),
    }
}

/// split a format template into literal pieces and holes
fn split_template(t: &str) -> Value {
    let mut pieces: Vec<Value> = vec![];
    let mut cur = String::new();
    let cs: Vec<char> = t.chars().collect();
    let mut i = 0;
    let mut next_pos = 0usize;
    while i < cs.len() {
        let c = cs[i];
        if c == '{' {
            if i + 1 < cs.len() && cs[i + 1] == '{' {
                cur.push('{');
                i += 2;
                continue;
            }
            if !cur.is_empty() {
                pieces.push(json!({"lit": cur.clone()}));
                cur.clear();
            }
            let mut j = i + 1;
            let mut inner = String::new();
            while j < cs.len() && cs[j] != '}' {
                inner.push(cs[j]);
                j += 1;
            }
            let (arg, spec) = match inner.find(':') {
                Some(p) => (inner[..p].to_string(), inner[p + 1..].to_string()),
                None => (inner.clone(), String::new()),
            };
            let argj = if arg.is_empty() {
                let v = json!({"pos": next_pos});
                next_pos += 1;
                v
            } else if let Ok(n) = arg.parse::<usize>() {
                json!({"pos": n})
            } else {
                json!({"name": arg})
            };
            let tr = if spec.ends_with('?') { "Debug" } else if spec.ends_with('e') { "LowerExp" } else if spec.ends_with('x') { "LowerHex" } else { "Display" };
            pieces.push(json!({"hole": argj, "spec": spec, "trait": tr}));
            i = j + 1;
            continue;
        }
        if c == '}' && i + 1 < cs.len() && cs[i + 1] == '}' {
            cur.push('}');
            i += 2;
            continue;
        }
        cur.push(c);
        i += 1;
    }
    if !cur.is_empty() {
        pieces.push(json!({"lit": cur}));
    }
    Value::Array(pieces)
}

fn mac(m: &syn::Macro) -> Value {
    let name = path_str(&m.path);
    let mut v = json!({"k":"macro","name":name,"ln":line(m),"col":col(m),"raw":toks(&m.tokens)});
    // try: comma-separated expressions
    let parser = Punctuated::<syn::Expr, syn::Token![,]>::parse_terminated;
    if let Ok(args) = syn::parse::Parser::parse2(parser, m.tokens.clone()) {
        let a: Vec<Value> = args.iter().map(expr).collect();
        // format template: first string literal among the first two args
        let short = name.rsplit("::").next().unwrap_or("").to_string();
        let fmt_idx = match short.as_str() {
            "write" | "writeln" => Some(1),
            "format" | "format_args" | "print" | "println" | "eprint" | "eprintln" | "panic" | "todo" | "unimplemented" | "unreachable" => Some(0),
            _ => None,
        };
        if let Some(ix) = fmt_idx {
            if let Some(syn::Expr::Lit(syn::ExprLit { lit: syn::Lit::Str(s), .. })) = args.iter().nth(ix) {
                v["template"] = split_template(&s.value());
                v["template_raw"] = json!(s.value());
                v["fmt_args_from"] = json!(ix + 1);
            }
        }
        v["args"] = Value::Array(a);
    } else if let Ok(arr) = syn::parse2::<NestedArrays>(m.tokens.clone()) {
        // array![[..],[..]] style tables
        v["args"] = json!([arr.0]);
    }
    v
}

struct NestedArrays(Value);
impl syn::parse::Parse for NestedArrays {
    fn parse(input: syn::parse::ParseStream) -> syn::Result<Self> {
        // a sequence of bracketed groups separated by commas, e.g. `[a, b], [c, d]`
        let mut rows = vec![];
        while !input.is_empty() {
            let content;
            syn::bracketed!(content in input);
            let es = Punctuated::<syn::Expr, syn::Token![,]>::parse_terminated(&content)?;
            rows.push(json!({"k":"array","es": es.iter().map(expr).collect::<Vec<_>>()}));
            if input.peek(syn::Token![,]) {
                let _: syn::Token![,] = input.parse()?;
            }
        }
        Ok(NestedArrays(json!({"k":"array","es": rows})))
    }
}

fn block(b: &syn::Block) -> Value {
    let stmts: Vec<Value> = b.stmts.iter().map(stmt).collect();
    json!({"k":"block","stmts":stmts,"ln":line(b)})
}

fn stmt(s: &syn::Stmt) -> Value {
    match s {
        syn::Stmt::Local(l) => {
            let (init, els) = match &l.init {
                Some(i) => (expr(&i.expr), i.diverge.as_ref().map(|(_, e)| expr(e))),
                None => (Value::Null, None),
            };
            json!({"k":"local","pat":pat(&l.pat),"init":init,"else":els,"ln":line(l)})
        }
        syn::Stmt::Item(i) => json!({"k":"item","ln":line(i)}),
        syn::Stmt::Expr(e, semi) => json!({"k":"expr","e":expr(e),"semi":semi.is_some(),"ln":line(e)}),
        syn::Stmt::Macro(m) => json!({"k":"expr","e":mac(&m.mac),"semi":m.semi_token.is_some(),"ln":line(m)}),
    }
}

fn binop(op: &syn::BinOp) -> String {
    toks(op)
}

fn expr(e: &syn::Expr) -> Value {
    let ln = line(e);
    let mut v = match e {
        syn::Expr::Match(m) => {
            let arms: Vec<Value> = m
                .arms
                .iter()
                .map(|a| {
                    json!({"pat":pat(&a.pat),"guard":a.guard.as_ref().map(|(_, g)| expr(g)),"body":expr(&a.body),"ln":line(a),"end_ln":end_line(a)})
                })
                .collect();
            json!({"k":"match","e":expr(&m.expr),"arms":arms})
        }
        syn::Expr::Call(c) => json!({"k":"call","f":expr(&c.func),"args":c.args.iter().map(expr).collect::<Vec<_>>()}),
        syn::Expr::MethodCall(c) => {
            json!({"k":"mcall","recv":expr(&c.receiver),"m":c.method.to_string(),"args":c.args.iter().map(expr).collect::<Vec<_>>(),"turbofish":c.turbofish.as_ref().map(toks)})
        }
        syn::Expr::Path(p) => json!({"k":"path","p":path_str(&p.path)}),
        syn::Expr::Lit(l) => lit(&l.lit),
        syn::Expr::Binary(b) => json!({"k":"bin","op":binop(&b.op),"l":expr(&b.left),"r":expr(&b.right)}),
        syn::Expr::Unary(u) => json!({"k":"un","op":toks(&u.op),"e":expr(&u.expr)}),
        syn::Expr::Paren(p) => json!({"k":"paren","e":expr(&p.expr)}),
        syn::Expr::Group(p) => expr(&p.expr),
        syn::Expr::Reference(r) => json!({"k":"ref","e":expr(&r.expr),"mut":r.mutability.is_some()}),
        syn::Expr::Field(f) => json!({"k":"field","e":expr(&f.base),"m":toks(&f.member)}),
        syn::Expr::If(i) => json!({"k":"if","c":expr(&i.cond),"t":block(&i.then_branch),"f":i.else_branch.as_ref().map(|(_, e)| expr(e))}),
        syn::Expr::Block(b) => block(&b.block),
        syn::Expr::Unsafe(b) => block(&b.block),
        syn::Expr::Const(b) => block(&b.block),
        syn::Expr::Macro(m) => mac(&m.mac),
        syn::Expr::Closure(c) => json!({"k":"closure","params":c.inputs.iter().map(pat).collect::<Vec<_>>(),"body":expr(&c.body),"move":c.capture.is_some()}),
        syn::Expr::Tuple(t) => json!({"k":"tuple","es":t.elems.iter().map(expr).collect::<Vec<_>>()}),
        syn::Expr::Struct(s) => {
            let fs: Vec<Value> = s.fields.iter().map(|f| json!({"n":toks(&f.member),"e":expr(&f.expr),"shorthand":f.colon_token.is_none()})).collect();
            json!({"k":"struct","path":path_str(&s.path),"fields":fs,"rest":s.rest.as_ref().map(|r| expr(r)),"dotdot":s.dot2_token.is_some()})
        }
        syn::Expr::Return(r) => json!({"k":"return","e":r.expr.as_ref().map(|e| expr(e))}),
        syn::Expr::Try(t) => json!({"k":"try","e":expr(&t.expr)}),
        syn::Expr::Let(l) => json!({"k":"let","pat":pat(&l.pat),"e":expr(&l.expr)}),
        syn::Expr::Index(i) => json!({"k":"index","e":expr(&i.expr),"i":expr(&i.index)}),
        syn::Expr::Array(a) => json!({"k":"array","es":a.elems.iter().map(expr).collect::<Vec<_>>()}),
        syn::Expr::Repeat(r) => json!({"k":"repeat","e":expr(&r.expr),"n":expr(&r.len)}),
        syn::Expr::Assign(a) => json!({"k":"assign","l":expr(&a.left),"r":expr(&a.right)}),
        syn::Expr::Range(r) => json!({"k":"range","lo":r.start.as_ref().map(|e| expr(e)),"hi":r.end.as_ref().map(|e| expr(e)),"incl":matches!(r.limits, syn::RangeLimits::Closed(_))}),
        syn::Expr::Cast(c) => json!({"k":"cast","e":expr(&c.expr),"ty":toks(&c.ty)}),
        syn::Expr::ForLoop(f) => json!({"k":"for","pat":pat(&f.pat),"iter":expr(&f.expr),"body":block(&f.body)}),
        syn::Expr::While(w) => json!({"k":"while","c":expr(&w.cond),"body":block(&w.body)}),
        syn::Expr::Loop(l) => json!({"k":"loop","body":block(&l.body)}),
        syn::Expr::Break(b) => json!({"k":"break","e":b.expr.as_ref().map(|e| expr(e))}),
        syn::Expr::Continue(_) => json!({"k":"continue"}),
        other => json!({"k":"other","src":toks(other)}),
    };
    if let Value::Object(m) = &mut v {
        if !m.contains_key("ln") {
            m.insert("ln".to_string(), json!(ln));
        }
    }
    v
}

fn pat(p: &syn::Pat) -> Value {
    let ln = line(p);
    let mut v = match p {
        syn::Pat::Ident(i) => json!({"k":"ident","name":i.ident.to_string(),"by_ref":i.by_ref.is_some(),"mut":i.mutability.is_some(),"sub":i.subpat.as_ref().map(|(_, s)| pat(s))}),
        syn::Pat::Wild(_) => json!({"k":"wild"}),
        syn::Pat::TupleStruct(t) => json!({"k":"tstruct","path":path_str(&t.path),"ps":t.elems.iter().map(pat).collect::<Vec<_>>()}),
        syn::Pat::Struct(s) => {
            let fs: Vec<Value> = s.fields.iter().map(|f| json!({"n":toks(&f.member),"p":pat(&f.pat)})).collect();
            json!({"k":"struct","path":path_str(&s.path),"fields":fs,"rest":s.rest.is_some()})
        }
        syn::Pat::Path(p) => json!({"k":"path","p":path_str(&p.path)}),
        syn::Pat::Tuple(t) => json!({"k":"tuple","ps":t.elems.iter().map(pat).collect::<Vec<_>>()}),
        syn::Pat::Or(o) => json!({"k":"or","ps":o.cases.iter().map(pat).collect::<Vec<_>>()}),
        syn::Pat::Reference(r) => json!({"k":"ref","p":pat(&r.pat)}),
        syn::Pat::Lit(l) => json!({"k":"lit","e":lit(&l.lit)}),
        syn::Pat::Rest(_) => json!({"k":"rest"}),
        syn::Pat::Paren(p) => json!({"k":"paren","p":pat(&p.pat)}),
        syn::Pat::Type(t) => {
            let mut inner = pat(&t.pat);
            inner["ty"] = json!(toks(&t.ty));
            inner
        }
        syn::Pat::Range(r) => json!({"k":"range","src":toks(r)}),
        syn::Pat::Slice(s) => json!({"k":"slice","ps":s.elems.iter().map(pat).collect::<Vec<_>>()}),
        syn::Pat::Macro(m) => mac(&m.mac),
        other => json!({"k":"other","src":toks(other)}),
    };
    if let Value::Object(m) = &mut v {
        m.insert("ln".to_string(), json!(ln));
    }
    v
}

fn is_test_attr(attrs: &[syn::Attribute]) -> bool {
    for a in attrs {
        let p = path_str(a.path());
        if p == "test" || p.ends_with("::test") || p == "rstest" || p == "bench" {
            return true;
        }
        if p == "cfg" {
            let t = a.meta.to_token_stream().to_string();
            if t.contains("test") && !t.contains("not (test") && !t.contains("not(test") {
                return true;
            }
        }
    }
    false
}

fn attr_list(attrs: &[syn::Attribute]) -> Vec<Value> {
    attrs
        .iter()
        .filter(|a| {
            let p = path_str(a.path());
            p != "doc"
        })
        .map(|a| json!(toks(&a.meta)))
        .collect()
}

struct Out {
    fns: Vec<Value>,
    statics: Vec<Value>,
    item_macros: Vec<Value>,
    enums: Vec<Value>,
}

fn sig_params(sig: &syn::Signature) -> Vec<Value> {
    sig.inputs
        .iter()
        .map(|a| match a {
            syn::FnArg::Receiver(r) => json!({"k":"self","ref":r.reference.is_some(),"mut":r.mutability.is_some()}),
            syn::FnArg::Typed(t) => {
                let mut p = pat(&t.pat);
                p["ty"] = json!(toks(&t.ty));
                p
            }
        })
        .collect()
}

fn walk_items(items: &[syn::Item], file: &str, module: &str, out: &mut Out) {
    for it in items {
        match it {
            syn::Item::Fn(f) => {
                if is_test_attr(&f.attrs) {
                    continue;
                }
                out.fns.push(json!({
                    "file": file, "module": module, "name": f.sig.ident.to_string(), "impl_self": Value::Null, "impl_trait": Value::Null,
                    "ln": line(&f.sig), "end_ln": end_line(f), "params": sig_params(&f.sig), "attrs": attr_list(&f.attrs),
                    "body": block(&f.block),
                }));
                nested_items_in_block(&f.block, file, &format!("{}::{}", module, f.sig.ident), out);
            }
            syn::Item::Impl(im) => {
                if is_test_attr(&im.attrs) {
                    continue;
                }
                let self_ty = toks(&im.self_ty);
                let tr = im.trait_.as_ref().map(|(_, p, _)| toks(p));
                for ii in &im.items {
                    match ii {
                        syn::ImplItem::Fn(f) => {
                            if is_test_attr(&f.attrs) {
                                continue;
                            }
                            out.fns.push(json!({
                                "file": file, "module": module, "name": f.sig.ident.to_string(), "impl_self": self_ty, "impl_trait": tr,
                                "ln": line(&f.sig), "end_ln": end_line(f), "params": sig_params(&f.sig), "attrs": attr_list(&f.attrs),
                                "body": block(&f.block),
                            }));
                            nested_items_in_block(&f.block, file, &format!("{}::{}", module, f.sig.ident), out);
                        }
                        syn::ImplItem::Const(c) => {
                            out.statics.push(json!({"file": file, "module": module, "name": c.ident.to_string(), "impl_self": self_ty, "kind":"const", "ty": toks(&c.ty), "ln": line(c), "init": expr(&c.expr)}));
                        }
                        _ => {}
                    }
                }
            }
            syn::Item::Static(s) => {
                if is_test_attr(&s.attrs) {
                    continue;
                }
                out.statics.push(json!({"file": file, "module": module, "name": s.ident.to_string(), "impl_self": Value::Null, "kind":"static", "ty": toks(&s.ty), "ln": line(s), "init": expr(&s.expr)}));
            }
            syn::Item::Const(c) => {
                if is_test_attr(&c.attrs) {
                    continue;
                }
                out.statics.push(json!({"file": file, "module": module, "name": c.ident.to_string(), "impl_self": Value::Null, "kind":"const", "ty": toks(&c.ty), "ln": line(c), "init": expr(&c.expr)}));
            }
            syn::Item::Mod(m) => {
                if is_test_attr(&m.attrs) {
                    continue;
                }
                if let Some((_, items)) = &m.content {
                    walk_items(items, file, &format!("{}::{}", module, m.ident), out);
                }
            }
            syn::Item::Macro(m) => {
                if is_test_attr(&m.attrs) {
                    continue;
                }
                let mut v = mac(&m.mac);
                v["file"] = json!(file);
                v["module"] = json!(module);
                out.item_macros.push(v);
            }
            syn::Item::Enum(e) => {
                if is_test_attr(&e.attrs) {
                    continue;
                }
                let vs: Vec<Value> = e
                    .variants
                    .iter()
                    .map(|v| json!({"name": v.ident.to_string(), "attrs": attr_list(&v.attrs), "ln": line(v), "fields": v.fields.iter().map(|f| json!({"n": f.ident.as_ref().map(|i| i.to_string()), "ty": toks(&f.ty)})).collect::<Vec<_>>()}))
                    .collect();
                out.enums.push(json!({"file": file, "module": module, "name": e.ident.to_string(), "attrs": attr_list(&e.attrs), "ln": line(e), "variants": vs}));
            }
            syn::Item::Trait(t) => {
                if is_test_attr(&t.attrs) {
                    continue;
                }
                for ti in &t.items {
                    if let syn::TraitItem::Fn(f) = ti {
                        if let Some(b) = &f.default {
                            out.fns.push(json!({
                                "file": file, "module": module, "name": f.sig.ident.to_string(), "impl_self": Value::Null, "impl_trait": t.ident.to_string(), "in_trait": true,
                                "ln": line(&f.sig), "end_ln": end_line(f), "params": sig_params(&f.sig), "attrs": attr_list(&f.attrs),
                                "body": block(b),
                            }));
                        }
                    }
                }
            }
            _ => {}
        }
    }
}

fn nested_items_in_block(b: &syn::Block, file: &str, module: &str, out: &mut Out) {
    let items: Vec<syn::Item> = b
        .stmts
        .iter()
        .filter_map(|s| if let syn::Stmt::Item(i) = s { Some(i.clone()) } else { None })
        .collect();
    if !items.is_empty() {
        walk_items(&items, file, module, out);
    }
}

fn module_of(root: &Path, file: &Path, crate_name: &str) -> String {
    let rel = file.strip_prefix(root).unwrap_or(file);
    let mut parts: Vec<String> = rel.iter().map(|c| c.to_string_lossy().to_string()).collect();
    if let Some(last) = parts.pop() {
        let stem = last.trim_end_matches(".rs").to_string();
        if stem != "mod" && stem != "lib" && stem != "main" {
            parts.push(stem);
        }
    }
    let mut s = crate_name.to_string();
    for p in parts {
        s.push_str("::");
        s.push_str(&p);
    }
    s
}

fn rs_files(dir: &Path, out: &mut Vec<PathBuf>) {
    if let Ok(rd) = std::fs::read_dir(dir) {
        let mut es: Vec<_> = rd.filter_map(|e| e.ok()).collect();
        es.sort_by_key(|e| e.path());
        for e in es {
            let p = e.path();
            if p.is_dir() {
                rs_files(&p, out);
            } else if p.extension().map(|x| x == "rs").unwrap_or(false) {
                out.push(p);
            }
        }
    }
}

fn main() {
    let args: Vec<String> = std::env::args().collect();
    if args.len() < 4 {
        eprintln!("usage: qsyn <out.json> <repo root> <src dir>...");
        std::process::exit(2);
    }
    let outp = &args[1];
    let repo = PathBuf::from(&args[2]);
    let mut out = Out { fns: vec![], statics: vec![], item_macros: vec![], enums: vec![] };
    let mut nfiles = 0;
    let mut errors: Vec<Value> = vec![];
    for root in &args[3..] {
        let rootp = PathBuf::from(root);
        // crate name from the directory above src: quil-rs -> quil_rs
        let crate_name = rootp
            .parent()
            .and_then(|p| p.file_name())
            .map(|n| n.to_string_lossy().replace('-', "_"))
            .unwrap_or_else(|| "crate".to_string());
        let mut files = vec![];
        rs_files(&rootp, &mut files);
        for f in files {
            let src = match std::fs::read_to_string(&f) {
                Ok(s) => s,
                Err(_) => continue,
            };
            let rel = f.strip_prefix(&repo).unwrap_or(&f).to_string_lossy().to_string();
            match syn::parse_file(&src) {
                Ok(ast) => {
                    nfiles += 1;
                    let module = module_of(&rootp, &f, &crate_name);
                    walk_items(&ast.items, &rel, &module, &mut out);
                }
                Err(e) => errors.push(json!({"file": rel, "error": e.to_string()})),
            }
        }
    }
    let _ = TokenStream::new();
    let top = json!({"files": nfiles, "errors": errors, "fns": out.fns, "statics": out.statics, "item_macros": out.item_macros, "enums": out.enums});
    std::fs::write(outp, serde_json::to_string(&top).unwrap()).expect("write");
}
