// qfacts: a rustc_private driver that dumps type-checked facts (ADTs, impls, MIR
// bodies with resolved callees, HIR match skeletons) of the crate being compiled as
// JSON.  Used as RUSTC_WORKSPACE_WRAPPER under `cargo +nightly check`.
//
// Nothing here executes code of the analysed crate; it only reads the compiler's
// tables after analysis.
#![feature(rustc_private)]
#![allow(clippy::all)]

extern crate rustc_abi;
extern crate rustc_driver;
extern crate rustc_hir;
extern crate rustc_interface;
extern crate rustc_middle;
extern crate rustc_session;
extern crate rustc_span;

mod json;
mod mono;
use json::J;

use rustc_driver::Compilation;
use rustc_hir as hir;
use rustc_hir::def::{DefKind, Res};
use rustc_hir::def_id::{DefId, LocalDefId, LOCAL_CRATE};
use rustc_middle::mir;
use rustc_middle::ty::print::{with_crate_prefix, with_no_trimmed_paths};
use rustc_middle::ty::{self, Ty, TyCtxt};
use rustc_span::Span;
use std::collections::HashMap;

struct Cb;

impl rustc_driver::Callbacks for Cb {
    fn after_analysis<'tcx>(
        &mut self,
        _c: &rustc_interface::interface::Compiler,
        tcx: TyCtxt<'tcx>,
    ) -> Compilation {
        if let Ok(dir) = std::env::var("QFACTS_OUT") {
            let name = tcx.crate_name(LOCAL_CRATE).to_string();
            if !name.starts_with("build_script") {
                dump(tcx, &dir);
            }
        }
        Compilation::Continue
    }
}

fn main() {
    let mut args: Vec<String> = std::env::args().collect();
    // RUSTC_WORKSPACE_WRAPPER mode: argv[1] is the real rustc path.
    if args.len() > 1 && (args[1].ends_with("rustc") || args[1].contains("/rustc")) {
        args.remove(1);
    }
    rustc_driver::install_ice_hook("https://example.invalid/qfacts", |_| ());
    let code = rustc_driver::catch_with_exit_code(|| {
        rustc_driver::run_compiler(&args, &mut Cb);
    });
    std::process::exit(if code == std::process::ExitCode::SUCCESS { 0 } else { 1 });
}

struct Cx<'tcx> {
    tcx: TyCtxt<'tcx>,
    types: Vec<J>,
    ty_ids: HashMap<Ty<'tcx>, usize>,
}

macro_rules! obj {
    ($($k:expr => $v:expr),* $(,)?) => { J::Obj(vec![$(($k, J::from($v))),*]) };
}

fn s<T: std::fmt::Debug>(t: &T) -> String {
    with_crate_prefix!(with_no_trimmed_paths!(format!("{:?}", t)))
}
fn d<T: std::fmt::Display>(t: &T) -> String {
    with_crate_prefix!(with_no_trimmed_paths!(format!("{}", t)))
}
fn trunc(mut x: String, n: usize) -> String {
    if x.len() > n {
        let mut i = n;
        while !x.is_char_boundary(i) {
            i -= 1;
        }
        x.truncate(i);
        x.push_str("...");
    }
    x
}

impl<'tcx> Cx<'tcx> {
    fn path(&self, did: DefId) -> String {
        with_crate_prefix!(with_no_trimmed_paths!(self.tcx.def_path_str(did)))
    }
    fn dp(&self, did: DefId) -> String {
        let krate = self.tcx.crate_name(did.krate).to_string();
        format!("{}{}", krate, self.tcx.def_path(did).to_string_no_crate_verbose())
    }

    fn span(&self, sp: Span) -> J {
        let cs = sp.source_callsite();
        let sm = self.tcx.sess.source_map();
        let lo = sm.lookup_char_pos(cs.lo());
        let hi = sm.lookup_char_pos(cs.hi());
        J::Arr(vec![
            J::from(lo.line),
            J::from(lo.col.0 + 1),
            J::from(hi.line),
            J::from(hi.col.0 + 1),
        ])
    }
    fn file(&self, sp: Span) -> String {
        let cs = sp.source_callsite();
        let sm = self.tcx.sess.source_map();
        let lo = sm.lookup_char_pos(cs.lo());
        format!("{}", lo.file.name.prefer_local_unconditionally())
    }
    fn macros(&self, sp: Span) -> J {
        let mut v = vec![];
        for e in sp.macro_backtrace() {
            if let rustc_span::ExpnKind::Macro(_, name) = e.kind {
                v.push(J::from(name.to_string()));
            } else {
                v.push(J::from(format!("{:?}", e.kind)));
            }
        }
        J::Arr(v)
    }

    fn ty(&mut self, t: Ty<'tcx>) -> usize {
        if let Some(&i) = self.ty_ids.get(&t) {
            return i;
        }
        // reserve the slot first (recursive types go through ADT paths, not inline)
        let id = self.types.len();
        self.types.push(J::Null);
        self.ty_ids.insert(t, id);
        let disp = trunc(d(&t), 300);
        let j = match t.kind() {
            ty::Bool | ty::Char | ty::Int(_) | ty::Uint(_) | ty::Float(_) | ty::Str | ty::Never => {
                obj! {"k" => "prim", "s" => disp}
            }
            ty::Adt(adt, args) => {
                let a: Vec<J> = args.types().map(|x| J::from(self.ty(x))).collect();
                obj! {"k" => "adt", "path" => self.path(adt.did()), "local" => adt.did().is_local(), "args" => J::Arr(a), "s" => disp}
            }
            ty::Ref(_, inner, m) => {
                let i = self.ty(*inner);
                obj! {"k" => "ref", "mut" => m.is_mut(), "t" => i, "s" => disp}
            }
            ty::RawPtr(inner, m) => {
                let i = self.ty(*inner);
                obj! {"k" => "ptr", "mut" => m.is_mut(), "t" => i, "s" => disp}
            }
            ty::Tuple(ts) => {
                let a: Vec<J> = ts.iter().map(|x| J::from(self.ty(x))).collect();
                obj! {"k" => "tuple", "ts" => J::Arr(a), "s" => disp}
            }
            ty::Slice(inner) => {
                let i = self.ty(*inner);
                obj! {"k" => "slice", "t" => i, "s" => disp}
            }
            ty::Array(inner, len) => {
                let i = self.ty(*inner);
                obj! {"k" => "array", "t" => i, "len" => d(len), "s" => disp}
            }
            ty::Param(p) => obj! {"k" => "param", "name" => p.name.to_string(), "s" => disp},
            ty::Closure(did, args) => {
                let a: Vec<J> = args.types().map(|x| J::from(self.ty(x))).collect();
                obj! {"k" => "closure", "path" => self.path(*did), "args" => J::Arr(a), "s" => disp}
            }
            ty::FnDef(did, args) => {
                let a: Vec<J> = args.types().map(|x| J::from(self.ty(x))).collect();
                obj! {"k" => "fndef", "path" => self.path(*did), "args" => J::Arr(a), "s" => disp}
            }
            ty::FnPtr(..) => obj! {"k" => "fnptr", "s" => disp},
            ty::Dynamic(..) => obj! {"k" => "dyn", "s" => disp},
            ty::Alias(..) => obj! {"k" => "alias", "s" => disp},
            _ => obj! {"k" => "other", "s" => disp},
        };
        self.types[id] = j;
        id
    }

    // ---------------------------------------------------------------- MIR

    fn place(&mut self, body: &mir::Body<'tcx>, p: &mir::Place<'tcx>) -> J {
        let tcx = self.tcx;
        let mut pr = vec![];
        let mut pty = mir::PlaceTy::from_ty(body.local_decls[p.local].ty);
        for elem in p.projection.iter() {
            let j = match elem {
                mir::ProjectionElem::Deref => J::from("*"),
                mir::ProjectionElem::Field(f, fty) => {
                    let (owner, vname, fname) = match pty.ty.kind() {
                        ty::Adt(adt, _) => {
                            let vi = pty.variant_index.unwrap_or(rustc_abi::FIRST_VARIANT);
                            let v = adt.variant(vi);
                            let fname = v.fields[f].name.to_string();
                            (self.path(adt.did()), Some(v.name.to_string()), fname)
                        }
                        ty::Tuple(_) => ("(tuple)".to_string(), None, f.index().to_string()),
                        ty::Closure(did, _) => {
                            // captured variable name, if known
                            let name = tcx
                                .closure_captures(did.expect_local())
                                .get(f.index())
                                .map(|c| c.to_string(tcx))
                                .unwrap_or_else(|| f.index().to_string());
                            (format!("(closure){}", self.path(*did)), None, name)
                        }
                        _ => ("(other)".to_string(), None, f.index().to_string()),
                    };
                    let t = self.ty(fty);
                    obj! {"f" => f.index(), "n" => fname, "o" => owner, "v" => vname, "t" => t}
                }
                mir::ProjectionElem::Downcast(name, vi) => {
                    let n = match (name, pty.ty.kind()) {
                        (Some(n), _) => n.to_string(),
                        (None, ty::Adt(adt, _)) => adt.variant(vi).name.to_string(),
                        _ => format!("{}", vi.index()),
                    };
                    obj! {"dc" => n, "i" => vi.index()}
                }
                mir::ProjectionElem::Index(l) => obj! {"ix" => l.index()},
                mir::ProjectionElem::ConstantIndex { offset, from_end, .. } => {
                    obj! {"ci" => offset as usize, "fe" => from_end}
                }
                mir::ProjectionElem::Subslice { from, to, from_end } => {
                    obj! {"ss" => J::Arr(vec![J::from(from as usize), J::from(to as usize), J::from(from_end)])}
                }
                other => obj! {"o" => s(&other)},
            };
            pr.push(j);
            pty = pty.projection_ty(tcx, elem);
        }
        obj! {"l" => p.local.index(), "pr" => J::Arr(pr)}
    }

    fn fn_const(&mut self, owner: LocalDefId, did: DefId, args: ty::GenericArgsRef<'tcx>) -> J {
        let tcx = self.tcx;
        let a: Vec<J> = args.types().map(|x| J::from(self.ty(x))).collect();
        let mut o = vec![
            ("path", J::from(self.path(did))),
            ("dp", J::from(self.dp(did))),
            ("local", J::from(did.is_local())),
            ("args", J::Arr(a)),
        ];
        if let Some(tr) = tcx.trait_of_assoc(did) {
            o.push(("trait", J::from(self.path(tr))));
            o.push(("name", J::from(tcx.item_name(did).to_string())));
        } else if let Some(name) = tcx.opt_item_name(did) {
            o.push(("name", J::from(name.to_string())));
        }
        if let Some(im) = tcx.impl_of_assoc(did) {
            let st = tcx.type_of(im).instantiate_identity().skip_norm_wip();
            let sti = self.ty(st);
            o.push(("impl_self", J::from(sti)));
        }
        // resolution
        let env = ty::TypingEnv::post_analysis(tcx, owner);
        let res = std::panic::catch_unwind(std::panic::AssertUnwindSafe(|| {
            ty::Instance::try_resolve(tcx, env, did, args)
        }));
        if let Ok(Ok(Some(inst))) = res {
            let rd = inst.def_id();
            let ra: Vec<J> = inst.args.types().map(|x| J::from(self.ty(x))).collect();
            let kind = match inst.def {
                ty::InstanceKind::Item(_) => "item".to_string(),
                other => {
                    let x = format!("{:?}", other);
                    x.split('(').next().unwrap_or("").to_string()
                }
            };
            o.push((
                "res",
                obj! {"path" => self.path(rd), "dp" => self.dp(rd), "local" => rd.is_local(), "args" => J::Arr(ra), "kind" => kind},
            ));
        }
        J::Obj(o)
    }

    fn operand(&mut self, owner: LocalDefId, body: &mir::Body<'tcx>, op: &mir::Operand<'tcx>) -> J {
        let tcx = self.tcx;
        match op {
            mir::Operand::Copy(p) => obj! {"c" => self.place(body, p)},
            mir::Operand::Move(p) => obj! {"m" => self.place(body, p)},
            mir::Operand::Constant(c) => {
                let cty = c.const_.ty();
                let t = self.ty(cty);
                let mut o = vec![("t", J::from(t)), ("s", J::from(trunc(d(&c.const_), 600)))];
                if let ty::FnDef(did, args) = cty.kind() {
                    o.push(("fn", self.fn_const(owner, *did, args)));
                } else {
                    let env = ty::TypingEnv::post_analysis(tcx, owner);
                    if matches!(
                        cty.kind(),
                        ty::Bool | ty::Char | ty::Int(_) | ty::Uint(_) | ty::Float(_)
                    ) {
                        let r = std::panic::catch_unwind(std::panic::AssertUnwindSafe(|| {
                            c.const_.try_eval_scalar_int(tcx, env)
                        }));
                        if let Ok(Some(si)) = r {
                            let bits = si.to_bits(si.size());
                            o.push(("bits", J::from(bits.to_string())));
                            if let ty::Int(_) = cty.kind() {
                                let v = si.to_int(si.size());
                                o.push(("int", J::from(v.to_string())));
                            } else if let ty::Float(_) = cty.kind() {
                                let f = if si.size().bytes() == 8 {
                                    f64::from_bits(bits as u64)
                                } else {
                                    f32::from_bits(bits as u32) as f64
                                };
                                o.push(("float", J::from(format!("{:?}", f))));
                            } else {
                                o.push(("int", J::from(bits.to_string())));
                            }
                        }
                    } else if let ty::Ref(_, inner, _) = cty.kind() {
                        // a reference to a static item: name the static
                        if let mir::Const::Val(mir::ConstValue::Scalar(mir::interpret::Scalar::Ptr(ptr, _)), _) = c.const_ {
                            if let Some(mir::interpret::GlobalAlloc::Static(did)) =
                                tcx.try_get_global_alloc(ptr.provenance.alloc_id())
                            {
                                o.push(("static", J::from(self.path(did))));
                            }
                        }
                        if inner.is_str() {
                            let r = std::panic::catch_unwind(std::panic::AssertUnwindSafe(|| {
                                match c.const_.eval(tcx, env, c.span) {
                                    Ok(v) => v
                                        .try_get_slice_bytes_for_diagnostics(tcx)
                                        .map(|b| String::from_utf8_lossy(b).to_string()),
                                    Err(_) => None,
                                }
                            }));
                            if let Ok(Some(st)) = r {
                                o.push(("str", J::from(st)));
                            }
                        }
                    }
                }
                obj! {"k" => J::Obj(o)}
            }
            #[allow(unreachable_patterns)]
            other => obj! {"x" => s(other)},
        }
    }

    fn rvalue(&mut self, owner: LocalDefId, body: &mir::Body<'tcx>, rv: &mir::Rvalue<'tcx>) -> J {
        let tcx = self.tcx;
        match rv {
            mir::Rvalue::Use(op, ..) => obj! {"k" => "use", "o" => self.operand(owner, body, op)},
            mir::Rvalue::Ref(_, bk, p) => {
                let m = match bk {
                    mir::BorrowKind::Shared => "shared",
                    mir::BorrowKind::Fake(_) => "fake",
                    mir::BorrowKind::Mut { .. } => "mut",
                };
                obj! {"k" => "ref", "m" => m, "p" => self.place(body, p)}
            }
            mir::Rvalue::RawPtr(k, p) => {
                obj! {"k" => "rawptr", "m" => s(k), "p" => self.place(body, p)}
            }
            mir::Rvalue::Aggregate(kind, ops) => {
                let a = match &**kind {
                    mir::AggregateKind::Adt(did, vi, _, _, _) => {
                        let adt = tcx.adt_def(*did);
                        let v = adt.variant(*vi);
                        let fields: Vec<J> =
                            v.fields.iter().map(|f| J::from(f.name.to_string())).collect();
                        obj! {"k" => "adt", "path" => self.path(*did), "variant" => v.name.to_string(), "vi" => vi.index(), "fields" => J::Arr(fields)}
                    }
                    mir::AggregateKind::Tuple => obj! {"k" => "tuple"},
                    mir::AggregateKind::Array(_) => obj! {"k" => "array"},
                    mir::AggregateKind::Closure(did, _) => {
                        obj! {"k" => "closure", "path" => self.path(*did)}
                    }
                    other => obj! {"k" => "other", "s" => trunc(s(other), 200)},
                };
                let o: Vec<J> = ops.iter().map(|x| self.operand(owner, body, x)).collect();
                obj! {"k" => "agg", "a" => a, "ops" => J::Arr(o)}
            }
            mir::Rvalue::Cast(ck, op, t) => {
                let ft = op.ty(&body.local_decls, tcx);
                let fti = self.ty(ft);
                let ti = self.ty(*t);
                obj! {"k" => "cast", "ck" => s(ck), "o" => self.operand(owner, body, op), "t" => ti, "ft" => fti}
            }
            mir::Rvalue::BinaryOp(op, ab) => {
                let (a, b) = &**ab;
                obj! {"k" => "bin", "op" => s(op), "a" => self.operand(owner, body, a), "b" => self.operand(owner, body, b)}
            }
            mir::Rvalue::UnaryOp(op, a) => {
                obj! {"k" => "un", "op" => s(op), "o" => self.operand(owner, body, a)}
            }
            mir::Rvalue::Discriminant(p) => obj! {"k" => "discr", "p" => self.place(body, p)},
            mir::Rvalue::CopyForDeref(p) => obj! {"k" => "copyderef", "p" => self.place(body, p)},
            mir::Rvalue::Repeat(op, n) => {
                obj! {"k" => "repeat", "o" => self.operand(owner, body, op), "n" => d(n)}
            }
            other => obj! {"k" => "other", "s" => trunc(s(other), 300)},
        }
    }

    fn body(&mut self, owner: LocalDefId, body: &mir::Body<'tcx>) -> J {
        let tcx = self.tcx;
        let mut names: HashMap<usize, String> = HashMap::new();
        let mut vdi = vec![];
        for v in &body.var_debug_info {
            if let mir::VarDebugInfoContents::Place(p) = &v.value {
                if p.projection.is_empty() {
                    names.insert(p.local.index(), v.name.to_string());
                }
                vdi.push(obj! {"name" => v.name.to_string(), "p" => self.place(body, p)});
            }
        }
        let locals: Vec<J> = body
            .local_decls
            .iter_enumerated()
            .map(|(l, decl)| {
                let t = self.ty(decl.ty);
                let n = names.get(&l.index()).cloned();
                obj! {"t" => t, "n" => n}
            })
            .collect();
        let mut blocks = vec![];
        for (_bb, data) in body.basic_blocks.iter_enumerated() {
            let mut stmts = vec![];
            for st in &data.statements {
                let sp = st.source_info.span;
                match &st.kind {
                    mir::StatementKind::Assign(b) => {
                        let (p, rv) = &**b;
                        stmts.push(obj! {
                            "k" => "assign",
                            "p" => self.place(body, p),
                            "rv" => self.rvalue(owner, body, rv),
                            "sp" => self.span(sp),
                            "exp" => sp.from_expansion(),
                            "mac" => self.macros(sp),
                        });
                    }
                    mir::StatementKind::SetDiscriminant { place, variant_index } => {
                        let pty = place.ty(&body.local_decls, tcx).ty;
                        let vn = match pty.kind() {
                            ty::Adt(adt, _) => adt.variant(*variant_index).name.to_string(),
                            _ => variant_index.index().to_string(),
                        };
                        stmts.push(obj! {"k" => "setdiscr", "p" => self.place(body, place), "variant" => vn, "sp" => self.span(sp)});
                    }
                    mir::StatementKind::StorageLive(_)
                    | mir::StatementKind::StorageDead(_)
                    | mir::StatementKind::Nop
                    | mir::StatementKind::FakeRead(..)
                    | mir::StatementKind::PlaceMention(..)
                    | mir::StatementKind::AscribeUserType(..)
                    | mir::StatementKind::Coverage(..)
                    | mir::StatementKind::ConstEvalCounter => {}
                    other => {
                        stmts.push(obj! {"k" => "other", "s" => trunc(s(other), 300), "sp" => self.span(sp)});
                    }
                }
            }
            let term = data.terminator();
            let sp = term.source_info.span;
            let bbj = |b: &mir::BasicBlock| J::from(b.index());
            let unw = |u: &mir::UnwindAction| match u {
                mir::UnwindAction::Cleanup(b) => J::from(b.index()),
                _ => J::Null,
            };
            let mut t = match &term.kind {
                mir::TerminatorKind::Goto { target } => obj! {"k" => "goto", "t" => bbj(target)},
                mir::TerminatorKind::SwitchInt { discr, targets } => {
                    let dty = discr.ty(&body.local_decls, tcx);
                    let dti = self.ty(dty);
                    let ts: Vec<J> = targets
                        .iter()
                        .map(|(v, b)| J::Arr(vec![J::from(v.to_string()), bbj(&b)]))
                        .collect();
                    obj! {"k" => "switch", "d" => self.operand(owner, body, discr), "dt" => dti, "ts" => J::Arr(ts), "else" => bbj(&targets.otherwise())}
                }
                mir::TerminatorKind::Return => obj! {"k" => "return"},
                mir::TerminatorKind::Unreachable => obj! {"k" => "unreachable"},
                mir::TerminatorKind::UnwindResume => obj! {"k" => "resume"},
                mir::TerminatorKind::UnwindTerminate(_) => obj! {"k" => "terminate"},
                mir::TerminatorKind::Drop { place, target, unwind, .. } => {
                    obj! {"k" => "drop", "p" => self.place(body, place), "t" => bbj(target), "u" => unw(unwind)}
                }
                mir::TerminatorKind::Call { func, args, destination, target, unwind, fn_span, .. } => {
                    let f = self.operand(owner, body, func);
                    let a: Vec<J> =
                        args.iter().map(|x| self.operand(owner, body, &x.node)).collect();
                    obj! {
                        "k" => "call",
                        "f" => f,
                        "args" => J::Arr(a),
                        "dest" => self.place(body, destination),
                        "t" => target.as_ref().map(|b| b.index()),
                        "u" => unw(unwind),
                        "fsp" => self.span(*fn_span),
                    }
                }
                mir::TerminatorKind::Assert { cond, expected, msg, target, unwind } => {
                    let m = match &**msg {
                        mir::AssertKind::BoundsCheck { .. } => "BoundsCheck".to_string(),
                        mir::AssertKind::Overflow(op, ..) => format!("Overflow({:?})", op),
                        mir::AssertKind::OverflowNeg(_) => "OverflowNeg".to_string(),
                        mir::AssertKind::DivisionByZero(_) => "DivisionByZero".to_string(),
                        mir::AssertKind::RemainderByZero(_) => "RemainderByZero".to_string(),
                        other => {
                            let x = format!("{:?}", other);
                            x.split(|c| c == '(' || c == ' ' || c == '{').next().unwrap_or("").to_string()
                        }
                    };
                    let ops: Vec<J> = match &**msg {
                        mir::AssertKind::Overflow(_, a, b) => {
                            vec![self.operand(owner, body, a), self.operand(owner, body, b)]
                        }
                        mir::AssertKind::BoundsCheck { len, index } => {
                            vec![self.operand(owner, body, len), self.operand(owner, body, index)]
                        }
                        mir::AssertKind::OverflowNeg(a)
                        | mir::AssertKind::DivisionByZero(a)
                        | mir::AssertKind::RemainderByZero(a) => vec![self.operand(owner, body, a)],
                        _ => vec![],
                    };
                    obj! {"k" => "assert", "c" => self.operand(owner, body, cond), "expected" => *expected, "msg" => m, "ops" => J::Arr(ops), "t" => bbj(target), "u" => unw(unwind)}
                }
                other => obj! {"k" => "other", "s" => trunc(s(other), 300)},
            };
            if let J::Obj(v) = &mut t {
                v.push(("sp", self.span(sp)));
                v.push(("exp", J::from(sp.from_expansion())));
                v.push(("mac", self.macros(sp)));
            }
            blocks.push(obj! {"s" => J::Arr(stmts), "t" => t, "cleanup" => data.is_cleanup});
        }
        obj! {
            "argc" => body.arg_count,
            "locals" => J::Arr(locals),
            "vdi" => J::Arr(vdi),
            "blocks" => J::Arr(blocks),
            "sp" => self.span(body.span),
        }
    }

    // ---------------------------------------------------------------- HIR patterns

    fn res_ctor(&mut self, res: Res) -> Option<J> {
        let tcx = self.tcx;
        match res {
            Res::Def(DefKind::Ctor(of, _), ctor_did) => {
                let parent = tcx.parent(ctor_did);
                match of {
                    hir::def::CtorOf::Variant => {
                        let adt = tcx.parent(parent);
                        Some(obj! {"adt" => self.path(adt), "variant" => tcx.item_name(parent).to_string(), "path" => self.path(parent)})
                    }
                    hir::def::CtorOf::Struct => {
                        Some(obj! {"adt" => self.path(parent), "variant" => tcx.item_name(parent).to_string(), "path" => self.path(parent)})
                    }
                }
            }
            Res::Def(DefKind::Variant, vdid) => {
                let adt = tcx.parent(vdid);
                Some(obj! {"adt" => self.path(adt), "variant" => tcx.item_name(vdid).to_string(), "path" => self.path(vdid)})
            }
            Res::Def(DefKind::Struct, sdid) => {
                Some(obj! {"adt" => self.path(sdid), "variant" => tcx.item_name(sdid).to_string(), "path" => self.path(sdid)})
            }
            Res::Def(DefKind::Const { .. } | DefKind::AssocConst { .. }, did) => {
                Some(obj! {"const" => self.path(did)})
            }
            Res::SelfCtor(impl_did) | Res::SelfTyAlias { alias_to: impl_did, .. } => {
                let st = tcx.type_of(impl_did).instantiate_identity().skip_norm_wip();
                if let ty::Adt(adt, _) = st.kind() {
                    Some(obj! {"adt" => self.path(adt.did()), "variant" => tcx.item_name(adt.did()).to_string(), "path" => self.path(adt.did())})
                } else {
                    None
                }
            }
            _ => None,
        }
    }

    fn pat(&mut self, tr: &'tcx ty::TypeckResults<'tcx>, p: &'tcx hir::Pat<'tcx>) -> J {
        let sp = self.span(p.span);
        let mut j = match &p.kind {
            hir::PatKind::Wild => obj! {"k" => "wild"},
            hir::PatKind::Missing => obj! {"k" => "wild"},
            hir::PatKind::Binding(mode, _, ident, sub) => {
                let subj = sub.map(|x| self.pat(tr, x));
                obj! {"k" => "bind", "name" => ident.name.to_string(), "mode" => s(mode), "sub" => subj}
            }
            hir::PatKind::Struct(qpath, fields, rest) => {
                let res = tr.qpath_res(qpath, p.hir_id);
                let c = self.res_ctor(res);
                let fs: Vec<J> = fields
                    .iter()
                    .map(|f| obj! {"n" => f.ident.name.to_string(), "p" => self.pat(tr, f.pat), "shorthand" => f.is_shorthand})
                    .collect();
                let has_rest = !format!("{:?}", rest).contains("None");
                obj! {"k" => "ctor", "style" => "struct", "c" => c, "fields" => J::Arr(fs), "rest" => has_rest}
            }
            hir::PatKind::TupleStruct(qpath, pats, ddpos) => {
                let res = tr.qpath_res(qpath, p.hir_id);
                let c = self.res_ctor(res);
                let dd = ddpos.as_opt_usize();
                let fs: Vec<J> = pats
                    .iter()
                    .enumerate()
                    .map(|(i, x)| obj! {"n" => i.to_string(), "p" => self.pat(tr, x)})
                    .collect();
                obj! {"k" => "ctor", "style" => "tuple", "c" => c, "fields" => J::Arr(fs), "rest" => dd.is_some(), "ddpos" => dd}
            }
            hir::PatKind::Or(ps) => {
                let v: Vec<J> = ps.iter().map(|x| self.pat(tr, x)).collect();
                obj! {"k" => "or", "ps" => J::Arr(v)}
            }
            hir::PatKind::Tuple(ps, ddpos) => {
                let v: Vec<J> = ps.iter().map(|x| self.pat(tr, x)).collect();
                obj! {"k" => "tuple", "ps" => J::Arr(v), "ddpos" => ddpos.as_opt_usize()}
            }
            hir::PatKind::Ref(inner, ..) => obj! {"k" => "ref", "p" => self.pat(tr, inner)},
            hir::PatKind::Box(inner) => obj! {"k" => "box", "p" => self.pat(tr, inner)},
            hir::PatKind::Deref(inner) => obj! {"k" => "deref", "p" => self.pat(tr, inner)},
            hir::PatKind::Expr(e) => match &e.kind {
                hir::PatExprKind::Path(qpath) => {
                    let res = tr.qpath_res(qpath, e.hir_id);
                    match self.res_ctor(res) {
                        Some(c) => obj! {"k" => "ctor", "style" => "unit", "c" => c, "fields" => J::Arr(vec![]), "rest" => false},
                        None => obj! {"k" => "path", "s" => s(&res)},
                    }
                }
                hir::PatExprKind::Lit { lit, negated } => {
                    obj! {"k" => "lit", "s" => trunc(format!("{:?}", lit.node), 200), "neg" => *negated}
                }
                #[allow(unreachable_patterns)]
                _ => obj! {"k" => "lit", "s" => "?"},
            },
            hir::PatKind::Range(..) => obj! {"k" => "range"},
            hir::PatKind::Slice(a, m, b) => {
                let va: Vec<J> = a.iter().map(|x| self.pat(tr, x)).collect();
                let vb: Vec<J> = b.iter().map(|x| self.pat(tr, x)).collect();
                let vm = m.map(|x| self.pat(tr, x));
                obj! {"k" => "slice", "before" => J::Arr(va), "mid" => vm, "after" => J::Arr(vb)}
            }
            _ => obj! {"k" => "other"},
        };
        if let J::Obj(v) = &mut j {
            v.push(("sp", sp));
            let t = tr.pat_ty(p);
            let ti = self.ty(t);
            v.push(("t", J::from(ti)));
        }
        j
    }
}

struct MatchVisitor<'a, 'tcx> {
    cx: &'a mut Cx<'tcx>,
    tr: &'tcx ty::TypeckResults<'tcx>,
    owner: String,
    out: &'a mut Vec<J>,
}

impl<'a, 'tcx> hir::intravisit::Visitor<'tcx> for MatchVisitor<'a, 'tcx> {
    fn visit_expr(&mut self, e: &'tcx hir::Expr<'tcx>) {
        match &e.kind {
            hir::ExprKind::Match(scrut, arms, source) => {
                let st = self.tr.expr_ty(scrut);
                let sti = self.cx.ty(st);
                let sta = self.tr.expr_ty_adjusted(scrut);
                let stai = self.cx.ty(sta);
                let mut aj = vec![];
                for arm in arms.iter() {
                    aj.push(obj! {
                        "pat" => self.cx.pat(self.tr, arm.pat),
                        "guard" => arm.guard.is_some(),
                        "sp" => self.cx.span(arm.span),
                        "body_sp" => self.cx.span(arm.body.span),
                    });
                }
                self.out.push(obj! {
                    "k" => "match",
                    "owner" => self.owner.clone(),
                    "source" => s(source),
                    "scrut_t" => sti,
                    "scrut_ta" => stai,
                    "sp" => self.cx.span(e.span),
                    "scrut_sp" => self.cx.span(scrut.span),
                    "exp" => e.span.from_expansion(),
                    "mac" => self.cx.macros(e.span),
                    "arms" => J::Arr(aj),
                });
            }
            hir::ExprKind::Let(l) => {
                let st = self.tr.expr_ty(l.init);
                let sti = self.cx.ty(st);
                self.out.push(obj! {
                    "k" => "let",
                    "owner" => self.owner.clone(),
                    "scrut_t" => sti,
                    "sp" => self.cx.span(e.span),
                    "exp" => e.span.from_expansion(),
                    "mac" => self.cx.macros(e.span),
                    "pat" => self.cx.pat(self.tr, l.pat),
                });
            }
            _ => {}
        }
        hir::intravisit::walk_expr(self, e);
    }
    fn visit_local(&mut self, l: &'tcx hir::LetStmt<'tcx>) {
        if let (Some(init), Some(_els)) = (l.init, l.els) {
            let st = self.tr.expr_ty(init);
            let sti = self.cx.ty(st);
            self.out.push(obj! {
                "k" => "letelse",
                "owner" => self.owner.clone(),
                "scrut_t" => sti,
                "sp" => self.cx.span(l.span),
                "exp" => l.span.from_expansion(),
                "mac" => self.cx.macros(l.span),
                "pat" => self.cx.pat(self.tr, l.pat),
            });
        }
        hir::intravisit::walk_local(self, l);
    }
}

fn dump<'tcx>(tcx: TyCtxt<'tcx>, dir: &str) {
    let crate_name = tcx.crate_name(LOCAL_CRATE).to_string();
    let mut cx = Cx { tcx, types: vec![], ty_ids: HashMap::new() };

    // ---- ADTs and impls
    let mut adts = vec![];
    let mut impls = vec![];
    let mut statics = vec![];
    for id in tcx.hir_free_items() {
        let did = id.owner_id.def_id;
        let dk = tcx.def_kind(did);
        match dk {
            DefKind::Struct | DefKind::Enum | DefKind::Union => {
                let adt = tcx.adt_def(did);
                let mut vs = vec![];
                for (vi, v) in adt.variants().iter_enumerated() {
                    let mut fs = vec![];
                    for f in v.fields.iter() {
                        let fty = tcx.type_of(f.did).instantiate_identity().skip_norm_wip();
                        let t = cx.ty(fty);
                        fs.push(obj! {"n" => f.name.to_string(), "t" => t, "pub" => f.vis.is_public()});
                    }
                    vs.push(obj! {"n" => v.name.to_string(), "i" => vi.index(), "ctor" => s(&v.ctor_kind()), "fields" => J::Arr(fs)});
                }
                let generics: Vec<J> = tcx
                    .generics_of(did)
                    .own_params
                    .iter()
                    .map(|p| J::from(p.name.to_string()))
                    .collect();
                adts.push(obj! {
                    "path" => cx.path(did.to_def_id()),
                    "dp" => cx.dp(did.to_def_id()),
                    "kind" => s(&dk),
                    "pub" => tcx.visibility(did).is_public(),
                    "generics" => J::Arr(generics),
                    "variants" => J::Arr(vs),
                    "file" => cx.file(tcx.def_span(did)),
                    "sp" => cx.span(tcx.def_span(did)),
                });
            }
            DefKind::Impl { of_trait } => {
                let st = tcx.type_of(did).instantiate_identity().skip_norm_wip();
                let sti = cx.ty(st);
                let tr = if of_trait {
                    let t = tcx.impl_trait_ref(did).instantiate_identity().skip_norm_wip();
                    Some((cx.path(t.def_id), d(&t)))
                } else {
                    None
                };
                let derived = tcx.is_automatically_derived(did.to_def_id());
                let items: Vec<J> = tcx
                    .associated_item_def_ids(did)
                    .iter()
                    .map(|i| J::from(cx.path(*i)))
                    .collect();
                impls.push(obj! {
                    "dp" => cx.dp(did.to_def_id()),
                    "self_t" => sti,
                    "self_s" => d(&st),
                    "trait" => tr.as_ref().map(|x| x.0.clone()),
                    "trait_s" => tr.as_ref().map(|x| x.1.clone()),
                    "derived" => derived,
                    "items" => J::Arr(items),
                    "file" => cx.file(tcx.def_span(did)),
                    "sp" => cx.span(tcx.def_span(did)),
                });
            }
            DefKind::Static { .. } | DefKind::Const { .. } => {
                let t = tcx.type_of(did).instantiate_identity().skip_norm_wip();
                let ti = cx.ty(t);
                statics.push(obj! {
                    "path" => cx.path(did.to_def_id()),
                    "kind" => s(&dk),
                    "t" => ti,
                    "file" => cx.file(tcx.def_span(did)),
                    "sp" => cx.span(tcx.def_span(did)),
                });
            }
            _ => {}
        }
    }

    // ---- function bodies
    let mut fns = vec![];
    let mut matches = vec![];
    for ldid in tcx.hir_body_owners() {
        let did = ldid.to_def_id();
        let dk = tcx.def_kind(did);
        let is_fn = matches!(dk, DefKind::Fn | DefKind::AssocFn | DefKind::Closure);
        let is_const = matches!(dk, DefKind::Static { .. } | DefKind::Const { .. } | DefKind::AssocConst { .. });
        if !is_fn && !is_const {
            continue;
        }
        let mut o: Vec<(&'static str, J)> = vec![
            ("path", J::from(cx.path(did))),
            ("dp", J::from(cx.dp(did))),
            ("kind", J::from(s(&dk))),
            ("file", J::from(cx.file(tcx.def_span(did)))),
            ("hsp", cx.span(tcx.def_span(did))),
            ("exp", J::from(tcx.def_span(did).from_expansion())),
        ];
        let root = tcx.typeck_root_def_id(did);
        if root != did {
            o.push(("root", J::from(cx.path(root))));
        }
        if matches!(dk, DefKind::Fn | DefKind::AssocFn) {
            o.push(("pub", J::from(tcx.visibility(did).is_public())));
            o.push(("name", J::from(tcx.item_name(did).to_string())));
            let sig = tcx.fn_sig(did).instantiate_identity().skip_norm_wip();
            o.push(("sig_s", J::from(s(&sig))));
            let sig = sig.skip_binder();
            let ins: Vec<J> = sig.inputs().iter().map(|t| J::from(cx.ty(*t))).collect();
            o.push(("inputs", J::Arr(ins)));
            let out = cx.ty(sig.output());
            o.push(("output", J::from(out)));
            let generics: Vec<J> = tcx
                .generics_of(did)
                .own_params
                .iter()
                .map(|p| J::from(p.name.to_string()))
                .collect();
            o.push(("generics", J::Arr(generics)));
        }
        if dk == DefKind::AssocFn {
            if let Some(im) = tcx.impl_of_assoc(did) {
                let st = tcx.type_of(im).instantiate_identity().skip_norm_wip();
                let sti = cx.ty(st);
                o.push(("impl_self", J::from(sti)));
                o.push(("impl_dp", J::from(cx.dp(im))));
                o.push(("derived", J::from(tcx.is_automatically_derived(im))));
                if let DefKind::Impl { of_trait: true } = tcx.def_kind(im) {
                    let t = tcx.impl_trait_ref(im).instantiate_identity().skip_norm_wip();
                    o.push(("impl_trait", J::from(cx.path(t.def_id))));
                    o.push(("impl_trait_s", J::from(d(&t))));
                }
            } else if let Some(tr) = tcx.trait_of_assoc(did) {
                o.push(("in_trait", J::from(cx.path(tr))));
            }
        }
        let body: &mir::Body<'tcx> =
            if is_fn { tcx.optimized_mir(did) } else { tcx.mir_for_ctfe(did) };
        o.push(("body", cx.body(ldid, body)));
        fns.push(J::Obj(o));
        // promoted constants of this body (evaluated at compile time; recorded for rules that
        // inspect constant configuration, e.g. builder chains in `const` items)
        if !tcx.is_closure_like(did) || true {
            let proms = tcx.promoted_mir(did);
            for (pi, pb) in proms.iter_enumerated() {
                let ppath = format!("{}::promoted[{}]", cx.path(did), pi.index());
                let pdp = format!("{}::promoted[{}]", cx.dp(did), pi.index());
                let po: Vec<(&'static str, J)> = vec![
                    ("path", J::from(ppath)),
                    ("dp", J::from(pdp)),
                    ("kind", J::from("Promoted")),
                    ("file", J::from(cx.file(tcx.def_span(did)))),
                    ("hsp", cx.span(tcx.def_span(did))),
                    ("exp", J::from(false)),
                    ("root", J::from(cx.path(did))),
                    ("body", cx.body(ldid, pb)),
                ];
                fns.push(J::Obj(po));
            }
        }

        // HIR matches (only in the typeck root's tables; closures share them)
        let tr = tcx.typeck(ldid);
        let hbody = tcx.hir_body_owned_by(ldid);
        let owner = cx.path(did);
        // visit only this body, not nested closures' bodies twice: walk_expr does not
        // descend into nested bodies by default (NestedFilter = None).
        let mut mv = MatchVisitor { cx: &mut cx, tr, owner, out: &mut matches };
        hir::intravisit::Visitor::visit_expr(&mut mv, hbody.value);
    }

    // ---- monomorphic call graph (separate file)
    if std::env::var("QFACTS_NO_MONO").is_err() {
        let mut m = mono::Mono::new(tcx);
        for ldid in tcx.hir_body_owners() {
            let did = ldid.to_def_id();
            if matches!(tcx.def_kind(did), DefKind::Fn | DefKind::AssocFn) {
                m.add_root(did);
            }
        }
        m.run();
        let pf = |d: DefId| cx.path(d);
        let dpf = |d: DefId| cx.dp(d);
        let j = m.to_json(&pf, &dpf);
        let mut out = String::new();
        j.write(&mut out);
        let kinds: Vec<String> = tcx.crate_types().iter().map(|c| format!("{:?}", c)).collect();
        let fname = format!("{}/mono-{}-{}.json", dir, crate_name, kinds.join("_").to_lowercase());
        let tmp = format!("{}.tmp.{}", fname, std::process::id());
        std::fs::create_dir_all(dir).ok();
        std::fs::write(&tmp, out).expect("qfacts: cannot write mono file");
        std::fs::rename(&tmp, &fname).expect("qfacts: cannot rename mono file");
    }

    let types = std::mem::take(&mut cx.types);
    let top = obj! {
        "crate" => crate_name.clone(),
        "types" => J::Arr(types),
        "adts" => J::Arr(adts),
        "impls" => J::Arr(impls),
        "statics" => J::Arr(statics),
        "fns" => J::Arr(fns),
        "matches" => J::Arr(matches),
    };
    let mut out = String::new();
    top.write(&mut out);
    let kinds: Vec<String> = tcx.crate_types().iter().map(|c| format!("{:?}", c)).collect();
    let fname = format!("{}/{}-{}.json", dir, crate_name, kinds.join("_").to_lowercase());
    let tmp = format!("{}.tmp.{}", fname, std::process::id());
    std::fs::create_dir_all(dir).ok();
    std::fs::write(&tmp, out).expect("qfacts: cannot write fact file");
    std::fs::rename(&tmp, &fname).expect("qfacts: cannot rename fact file");
}
