// Minimal JSON value + writer (the driver has no cargo dependencies).
pub enum J {
    Null,
    Bool(bool),
    Num(i128),
    Str(String),
    Arr(Vec<J>),
    Obj(Vec<(&'static str, J)>),
}

impl From<bool> for J {
    fn from(b: bool) -> J {
        J::Bool(b)
    }
}
impl From<usize> for J {
    fn from(n: usize) -> J {
        J::Num(n as i128)
    }
}
impl From<u32> for J {
    fn from(n: u32) -> J {
        J::Num(n as i128)
    }
}
impl From<i64> for J {
    fn from(n: i64) -> J {
        J::Num(n as i128)
    }
}
impl From<&str> for J {
    fn from(s: &str) -> J {
        J::Str(s.to_string())
    }
}
impl From<String> for J {
    fn from(s: String) -> J {
        J::Str(s)
    }
}
impl<T: Into<J>> From<Option<T>> for J {
    fn from(o: Option<T>) -> J {
        match o {
            Some(x) => x.into(),
            None => J::Null,
        }
    }
}

impl J {
    pub fn write(&self, out: &mut String) {
        match self {
            J::Null => out.push_str("null"),
            J::Bool(b) => out.push_str(if *b { "true" } else { "false" }),
            J::Num(n) => out.push_str(&n.to_string()),
            J::Str(s) => esc(s, out),
            J::Arr(v) => {
                out.push('[');
                for (i, x) in v.iter().enumerate() {
                    if i > 0 {
                        out.push(',');
                    }
                    x.write(out);
                }
                out.push(']');
            }
            J::Obj(v) => {
                out.push('{');
                for (i, (k, x)) in v.iter().enumerate() {
                    if i > 0 {
                        out.push(',');
                    }
                    esc(k, out);
                    out.push(':');
                    x.write(out);
                }
                out.push('}');
            }
        }
    }
}

fn esc(s: &str, out: &mut String) {
    out.push('"');
    for c in s.chars() {
        match c {
            '"' => out.push_str("\\\""),
            '\\' => out.push_str("\\\\"),
            '\n' => out.push_str("\\n"),
            '\r' => out.push_str("\\r"),
            '\t' => out.push_str("\\t"),
            c if (c as u32) < 0x20 => out.push_str(&format!("\\u{:04x}", c as u32)),
            c => out.push(c),
        }
    }
    out.push('"');
}
