// Monomorphic call graph: a simplified re-implementation of rustc's mono-item
// collector.  Starting from every non-generic local function, instances are
// resolved exactly as codegen would (Instance::try_resolve under a fully
// monomorphized typing env), walking into the MIR of external generic/inline
// functions and shims so that callbacks into local code (trait impls, closures,
// fn pointers, vtables) are found.  Nothing is executed.
use crate::json::J;
use rustc_hir::def::DefKind;
use rustc_hir::def_id::DefId;
use rustc_middle::mir;
use rustc_middle::ty::adjustment::PointerCoercion;
use rustc_middle::ty::{self, Instance, InstanceKind, Ty, TyCtxt};
use std::collections::{HashMap, HashSet};

macro_rules! obj {
    ($($k:expr => $v:expr),* $(,)?) => { J::Obj(vec![$(($k, J::from($v))),*]) };
}

#[derive(Clone, Copy, PartialEq, Eq, Hash)]
enum Node<'tcx> {
    Fn(Instance<'tcx>),
    Static(DefId),
}

pub struct Mono<'tcx> {
    tcx: TyCtxt<'tcx>,
    ids: HashMap<Node<'tcx>, usize>,
    nodes: Vec<Node<'tcx>>,
    edges: Vec<(usize, usize, &'static str)>,
    eset: HashSet<(usize, usize, &'static str)>,
    queue: Vec<usize>,
    pub skipped: usize,
}

const CAP: usize = 400_000;

impl<'tcx> Mono<'tcx> {
    pub fn new(tcx: TyCtxt<'tcx>) -> Self {
        Mono { tcx, ids: HashMap::new(), nodes: vec![], edges: vec![], eset: HashSet::new(), queue: vec![], skipped: 0 }
    }

    fn node(&mut self, n: Node<'tcx>) -> usize {
        if let Some(&i) = self.ids.get(&n) {
            return i;
        }
        let i = self.nodes.len();
        self.nodes.push(n);
        self.ids.insert(n, i);
        if i < CAP {
            self.queue.push(i);
        } else {
            self.skipped += 1;
        }
        i
    }

    pub fn add_root(&mut self, did: DefId) {
        let tcx = self.tcx;
        if tcx.generics_of(did).requires_monomorphization(tcx) {
            return;
        }
        let inst = Instance::mono(tcx, did);
        self.node(Node::Fn(inst));
    }

    fn use_instance(&mut self, from: usize, inst: Instance<'tcx>, kind: &'static str) {
        match inst.def {
            InstanceKind::DropGlue(_, None) => return,
            _ => {}
        }
        let to = self.node(Node::Fn(inst));
        if self.eset.insert((from, to, kind)) {
            self.edges.push((from, to, kind));
        }
    }

    fn use_fn_ty(&mut self, from: usize, fty: Ty<'tcx>, direct: bool, kind: &'static str) {
        let tcx = self.tcx;
        if let ty::FnDef(def_id, args) = *fty.kind() {
            let env = ty::TypingEnv::fully_monomorphized();
            let inst = if direct {
                Instance::try_resolve(tcx, env, def_id, args).ok().flatten()
            } else if tcx.is_closure_like(def_id) {
                None
            } else {
                Instance::resolve_for_fn_ptr(tcx, env, def_id, args)
            };
            match inst {
                Some(i) => self.use_instance(from, i, kind),
                None => self.skipped += 1,
            }
        }
    }

    fn use_drop(&mut self, from: usize, t: Ty<'tcx>) {
        let inst = Instance::resolve_drop_in_place(self.tcx, t);
        self.use_instance(from, inst, "drop");
    }

    fn tails(&self, s: Ty<'tcx>, t: Ty<'tcx>, depth: usize) -> Option<(Ty<'tcx>, Ty<'tcx>)> {
        let tcx = self.tcx;
        let env = ty::TypingEnv::fully_monomorphized();
        if depth > 8 {
            return None;
        }
        match (s.kind(), t.kind()) {
            (&ty::Ref(_, a, _), &ty::Ref(_, b, _))
            | (&ty::Ref(_, a, _), &ty::RawPtr(b, _))
            | (&ty::RawPtr(a, _), &ty::RawPtr(b, _)) => {
                Some(tcx.struct_lockstep_tails_for_codegen(a, b, env))
            }
            (&ty::Adt(da, aa), &ty::Adt(db, ab)) if da == db => {
                if let (Some(a), Some(b)) = (s.boxed_ty(), t.boxed_ty()) {
                    return Some(tcx.struct_lockstep_tails_for_codegen(a, b, env));
                }
                // smart pointers (Rc/Arc/Pin<..>): the first type argument that differs
                for (x, y) in aa.types().zip(ab.types()) {
                    if x != y {
                        if let Some(r) = self.tails(x, y, depth + 1) {
                            return Some(r);
                        }
                        return Some(tcx.struct_lockstep_tails_for_codegen(x, y, env));
                    }
                }
                None
            }
            _ => None,
        }
    }

    fn use_vtable(&mut self, from: usize, src: Ty<'tcx>, dst: Ty<'tcx>) {
        let tcx = self.tcx;
        let Some((impl_ty, trait_ty)) = self.tails(src, dst, 0) else { return };
        if !trait_ty.is_trait() || impl_ty.is_trait() {
            return;
        }
        let ty::Dynamic(preds, ..) = trait_ty.kind() else { return };
        if let Some(principal) = preds.principal() {
            let trait_ref = tcx.instantiate_bound_regions_with_erased(principal.with_self_ty(tcx, impl_ty));
            for e in tcx.vtable_entries(trait_ref) {
                if let ty::VtblEntry::Method(inst) = e {
                    self.use_instance(from, *inst, "vtable");
                }
            }
        }
        if impl_ty.needs_drop(tcx, ty::TypingEnv::fully_monomorphized()) {
            self.use_drop(from, impl_ty);
        }
    }

    fn visit_body(&mut self, from: usize, body: &mir::Body<'tcx>, inst: Option<Instance<'tcx>>) {
        let tcx = self.tcx;
        let env = ty::TypingEnv::fully_monomorphized();
        let mono = |t: Ty<'tcx>| -> Option<Ty<'tcx>> {
            match inst {
                Some(i) => i
                    .try_instantiate_mir_and_normalize_erasing_regions(tcx, env, ty::EarlyBinder::bind(t))
                    .ok(),
                None => Some(t),
            }
        };
        for data in body.basic_blocks.iter() {
            for st in &data.statements {
                if let mir::StatementKind::Assign(b) = &st.kind {
                    let (_, rv) = &**b;
                    match rv {
                        mir::Rvalue::Cast(mir::CastKind::PointerCoercion(pc, _), op, target) => {
                            let sty = op.ty(&body.local_decls, tcx);
                            match pc {
                                PointerCoercion::Unsize => {
                                    if let (Some(s), Some(t)) = (mono(sty), mono(*target)) {
                                        self.use_vtable(from, s, t);
                                    }
                                }
                                PointerCoercion::ReifyFnPointer(_) => {
                                    if let Some(s) = mono(sty) {
                                        self.use_fn_ty(from, s, false, "reify");
                                    }
                                }
                                PointerCoercion::ClosureFnPointer(_) => {
                                    if let Some(s) = mono(sty) {
                                        if let ty::Closure(def_id, args) = *s.kind() {
                                            let i = Instance::resolve_closure(tcx, def_id, args, ty::ClosureKind::FnOnce);
                                            self.use_instance(from, i, "reify");
                                        }
                                    }
                                }
                                _ => {}
                            }
                        }
                        _ => {}
                    }
                    // statics mentioned by constant operands
                    self.scan_rvalue_statics(from, rv);
                }
            }
            let term = data.terminator();
            match &term.kind {
                mir::TerminatorKind::Call { func, args, .. } | mir::TerminatorKind::TailCall { func, args, .. } => {
                    let fty = func.ty(&body.local_decls, tcx);
                    if let Some(f) = mono(fty) {
                        self.use_fn_ty(from, f, true, "call");
                    } else {
                        self.skipped += 1;
                    }
                    for a in args.iter() {
                        self.scan_operand_static(from, &a.node);
                    }
                }
                mir::TerminatorKind::Drop { place, .. } => {
                    let t = place.ty(&body.local_decls, tcx).ty;
                    if let Some(t) = mono(t) {
                        self.use_drop(from, t);
                    }
                }
                _ => {}
            }
        }
    }

    fn scan_operand_static(&mut self, from: usize, op: &mir::Operand<'tcx>) {
        if let mir::Operand::Constant(c) = op {
            if let Some(did) = c.check_static_ptr(self.tcx) {
                let to = self.node(Node::Static(did));
                if self.eset.insert((from, to, "static")) {
                    self.edges.push((from, to, "static"));
                }
            }
        }
    }

    fn scan_rvalue_statics(&mut self, from: usize, rv: &mir::Rvalue<'tcx>) {
        match rv {
            mir::Rvalue::Use(op, ..) | mir::Rvalue::Cast(_, op, _) | mir::Rvalue::UnaryOp(_, op) | mir::Rvalue::Repeat(op, _) => {
                self.scan_operand_static(from, op)
            }
            mir::Rvalue::BinaryOp(_, ab) => {
                self.scan_operand_static(from, &ab.0);
                self.scan_operand_static(from, &ab.1);
            }
            mir::Rvalue::Aggregate(_, ops) => {
                for o in ops.iter() {
                    self.scan_operand_static(from, o);
                }
            }
            _ => {}
        }
    }

    pub fn run(&mut self) {
        let tcx = self.tcx;
        while let Some(i) = self.queue.pop() {
            match self.nodes[i] {
                Node::Static(did) => {
                    if did.is_local() && !tcx.is_foreign_item(did) {
                        let body = tcx.mir_for_ctfe(did);
                        self.visit_body(i, body, None);
                    }
                }
                Node::Fn(inst) => {
                    let did = inst.def_id();
                    let has_body = match inst.def {
                        InstanceKind::Virtual(..) | InstanceKind::Intrinsic(..) => false,
                        InstanceKind::Item(d) => {
                            !tcx.is_foreign_item(d)
                                && matches!(tcx.def_kind(d), DefKind::Fn | DefKind::AssocFn | DefKind::Closure | DefKind::Ctor(..))
                                && tcx.is_mir_available(d)
                                && tcx.intrinsic(d).is_none()
                        }
                        _ => true,
                    };
                    let _ = did;
                    if !has_body {
                        continue;
                    }
                    let body = tcx.instance_mir(inst.def);
                    self.visit_body(i, body, Some(inst));
                }
            }
        }
    }

    pub fn to_json(&self, path: &dyn Fn(DefId) -> String, dp: &dyn Fn(DefId) -> String) -> J {
        let mut nodes = vec![];
        for n in &self.nodes {
            match n {
                Node::Static(d) => nodes.push(obj! {"k" => "static", "path" => path(*d), "dp" => dp(*d), "local" => d.is_local()}),
                Node::Fn(i) => {
                    let d = i.def_id();
                    let kind = match i.def {
                        InstanceKind::Item(_) => "item".to_string(),
                        other => {
                            let x = format!("{:?}", other);
                            x.split('(').next().unwrap_or("").split(' ').next().unwrap_or("").to_string()
                        }
                    };
                    let mut a = rustc_middle::ty::print::with_no_trimmed_paths!(format!("{:?}", i.args));
                    if a.len() > 400 {
                        let mut k = 400;
                        while !a.is_char_boundary(k) {
                            k -= 1;
                        }
                        a.truncate(k);
                    }
                    nodes.push(obj! {"k" => kind, "path" => path(d), "dp" => dp(d), "local" => d.is_local(), "args" => a});
                }
            }
        }
        let edges: Vec<J> = self
            .edges
            .iter()
            .map(|(a, b, k)| J::Arr(vec![J::from(*a), J::from(*b), J::from(*k)]))
            .collect();
        obj! {"nodes" => J::Arr(nodes), "edges" => J::Arr(edges), "skipped" => self.skipped}
    }
}
