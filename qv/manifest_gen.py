"""Regenerate MANIFEST.json from the table below:  python3 -m qv.manifest_gen"""
import json
import os

VERIF = os.path.dirname(os.path.dirname(os.path.abspath(__file__)))

BASE_NOTE = "Trusted base: rustc's type checker/MIR for the analysed configuration (default features, cfg(test) off), the qfacts/qsyn extractors and the Python rule engine; semantics of external crates as documented. A pass means the necessary conditions named in level_claimed hold on every path / for every input, not that the whole behaviour is proven."

# property -> dict(level, text, technique, design_ref, note)
CLAIMED = {
    "C01": dict(
        level="other",
        text="Static panic-reachability: on the monomorphic call graph from the five FromStr entry points and quil-cli parse, every panic-capable construct (MIR Assert, panic entry call, partial std API, input-driven recursion cycle) in a reachable quil-rs function is enumerated and must be discharged by a machine-checked guard. Decides absence of reachable panic sites for all inputs at once; does not decide panics inside external crates.",
        technique="call-graph reachability over resolved MIR (rustc_private driver) + dominance/provenance guards",
        design_ref="DESIGN.md section 4 C01, section 3 K1",
    ),
    "C02": dict(
        level="other",
        text="Four necessary conditions of parse(print(P)) = P decided for all programs: every Quil::write reads every field of its type (type-directed field coverage, transitively through local callees); every keyword in the writers' un-expanded templates is a lexer spelling (strum attributes); each Instruction variant's printed command keyword is dispatched by parse_instruction to a parser constructing the same variant; f64 literal operands are not formatted through Display alone. Value-level number formatting, list separators and block layout are not decided.",
        technique="field-coverage over MIR reads x ADT definitions; vocabulary/dispatch table agreement between syn templates, strum attributes and HIR match arms",
        design_ref="DESIGN.md section 4 C02",
    ),
    "C07": dict(
        level="other",
        text="Effect confinement for the quote character: over all functions reachable from the Quil writers, a literal double quote (MIR constants and un-expanded templates, read independently) or a {:?} of a string may occur only inside QuotedString::fmt; the escape table of QuotedString::fmt and the lexer's replace list are checked to be inverse; every parser field filled from a string token must be written through QuotedString. The lexer's scanning loop is not decided; an un-escaper of unrecognised shape is reported undecided, not violated.",
        technique="who-may-emit rule over MIR constants + syn templates on the monomorphic writer call graph; table extraction and inverse check",
        design_ref="DESIGN.md section 4 C07",
    ),
    "C11": dict(
        level="other",
        text="Field coverage and direction of <Program as AddAssign>::add_assign: every field of rhs flows into a merging call whose receiver is the same-named field of self, recursively through the local merge helpers (Calibrations::extend, FrameSet::merge, ExternPragmaMap::extend); Add::add is add_assign followed by returning self. Container override/ordering semantics are trusted (C08).",
        technique="MIR provenance of receiver/argument of each merging call against the ADT field list",
        design_ref="DESIGN.md section 4 C11",
    ),
    "C12": dict(
        level="other",
        text="Rule-table soundness by algebra: every arm x operator instance x candidate of simplify_infix / simplify_prefix / simplify_function_call / simplify, extracted from the un-expanded source, is proven (sympy) identically equal to the matched expression and to mention no new symbol; PiConstant is never constructed in the simplifier. Each obligation is decided by algebra (counts of obligations / discharged are in the evidence); it is claimed as 'other', not 'proof', because one rule (0^y -> 0, pinned by an existing test) is a recorded known non-identity, so not every obligation is discharged; floating-point rounding, is_zero/is_one tolerances and termination are not decided; unmodelled arms are listed as undecided.",
        technique="symbolic interpretation of match arms (syn) + computer algebra decision of rational identities",
        design_ref="DESIGN.md section 4 C12, section 3 K9",
    ),
    "C13": dict(
        level="other",
        text="Traversal coverage of Expression::evaluate, ::substitute_variables and MemoryReferences::next: every variant with sub-expressions is matched in an explicit arm that binds and uses every child, Address/Variable leaves are bound where needed; substitute_variables rebuilds nodes with the same operator/function and child positions; evaluate feeds calculate_infix from left/operator/right; calculate_infix, calculate_function and prefix minus agree with the specification's arithmetic semantics (tables read from source); Incomplete is produced only by the two lookups. Numeric agreement of evaluation orders is not decided.",
        technique="type-directed coverage (HIR patterns + MIR uses) + provenance of rebuilt nodes + table agreement with a specification oracle",
        design_ref="DESIGN.md section 4 C13",
    ),
    "C14": dict(
        level="proof",
        text="Both gate tables are evaluated symbolically from their static initialisers in the source and each of the 22 entries is proven equal (sympy) to the Quil specification matrix; key sets must equal the property's gate list and the tables must be the ones reachable from Gate::to_unitary. Proves the table clause for every parameter value; the n-qubit lifting code is not decided.",
        technique="symbolic evaluation of static initialisers (syn) against an oracle table, decided by computer algebra",
        design_ref="DESIGN.md section 4 C14",
    ),
    "C15": dict(
        level="other",
        text="Composition skeleton of modifier handling and program unitaries: gate_matrix matches all three GateModifier variants explicitly; constructor/consumer end agreement (Gate::dagger/controlled/forked put the new modifier and qubit at the front, gate_matrix must take the modifier from and drop the qubit at that same end); DAGGER = conj(transpose(recursive)); CONTROLLED = kron(P0, eye(dim M)) + kron(P1, M); FORKED = kron(P0, M(first half)) + kron(P1, M(second half)) with split at len/2 and an odd-count guard, P0/P1 read from the statics' initialisers; Gate::forked guarded by `!=` on parameter counts and appending the alternatives; Program::to_unitary = fold in body order of U(gate).dot(acc) from eye(2^n); Program::dagger = right fold applying Gate::dagger; lifting = P^dagger.(V.P). Numeric content (unitarity, gate tables, permutation construction) is not decided.",
        technique="HIR match coverage + MIR origin-expression shape checks + constructor/consumer end-agreement table; static initialisers read from MIR",
        design_ref="DESIGN.md section 4 C15",
    ),
    "C16": dict(
        level="other",
        text="The matcher's structure decided from source: CalibrationIdentifier::matches reads name, modifiers, parameters and qubits of both the calibration and the gate; its per-qubit table, evaluated with first-match semantics over all 9 kind pairs, equals the documented table; get_match_for_gate visits in definition order and replaces the incumbent on >= of fixed-qubit counts (MatchedCalibration counts exactly Fixed qubits); get_match_for_measurement iterates in reverse, requires equal name and target presence, classifies exact vs wildcard and returns exact.or(wildcard). Parameter equality after simplification is not decided (C12).",
        technique="field coverage over MIR reads + table extraction from match arms (syn) compared with a documented-rule oracle",
        design_ref="DESIGN.md section 4 C16",
    ),
    "C17": dict(
        level="other",
        text="Completeness of the substitution decided structurally: the qubit-substitution match in the gate arm of expand_inner and Instruction::apply_to_expressions must name, in an explicit arm binding the relevant fields, every body-capable Instruction variant whose payload holds a Qubit / Expression (type-directed coverage); the measurement arm must read measurement.qubit and .target; its two sibling target rewrites must both be guarded (contradiction check); the instructions appended in recursively_expand_inner are the same on both sides of every build_source_map test; every expanded instruction re-enters expand_inner. Five confirmed defects are recorded as known findings. Correctness of the substituted values beyond dependence is not decided.",
        technique="type-directed coverage of HIR match patterns x ADT field types; dependence and sibling-contradiction checks over MIR",
        design_ref="DESIGN.md section 4 C17",
    ),
    "C18": dict(
        level="other",
        text="Guard dominance on the recursion cycle of calibration expansion: every recursive call in expand_inner is dominated by the non-member side of the breadcrumb membership test whose member side returns RecursiveCalibration; the trail passed down is built from the current instruction and the received trail; and the guard key type must not contain a type (Expression) that the expansion step itself creates new values of - it does, which is the recorded known finding (parameter-growing calibrations overflow the stack). Panics other than stack exhaustion are not decided here.",
        technique="SCC of the monomorphic call graph + MIR dominators + type-containment finiteness argument",
        design_ref="DESIGN.md section 4 C18",
    ),
    "C19": dict(
        level="other",
        text="Index provenance and control dependence of every calibration source-map write: expand_calibrations_inner (one entry per unmatched instruction iff a map is requested, enumerate index as source, len(body)-1 read after the add); append_calibration_expansion_output_inner (length sampled around every add, remove_target_index called exactly when the add did not grow the body with (length before this add) - (length before the expansion), range = before..after, entry pushed iff non-empty, same instructions added without a map); recursively_expand_inner (nested ranges around the extend of that very output, nested Unmodified target read before the push, instruction effects independent of build_source_map); remove_target_index against its index-shift specification (comparators decoded: start' = start - [t < start], end' = end - [t < end]; the relative index is computed from the unshifted start; retain predicate decision table); list_sources/list_targets mirror and contains dispatch tables. Contiguity/disjointness for concrete programs is not evaluated.",
        technique="origin-expression provenance + dominance (read-before/after-write) + control dependence (post-dominators) over MIR; guard-comparator decoding against a shift specification; CFG decision tables",
        design_ref="DESIGN.md section 4 C19",
    ),
    "C20": dict(
        level="other",
        text="Guards, pairing and provenance of sequence-gate expansion: the expansion call is dominated by the parameter-count check (`!=` on the two parameter lists), the no-modifiers check, the cycle check whose result decides a branch, and the filter; DefGateSequence::expand is dominated by the qubit-count check; ExpansionStack::check errs exactly when the name is on the stack; with_gate_sequence pairs insert with a pop conditional on the insert and after the closure; the nested expansion runs inside that closure on the same stack with the checked definition's name; each produced gate takes name/modifiers from the element, parameters through substitute_variables, qubits through the formal->actual map built by an order-preserving zip; the keep-predicate's decision table over (specification variant, filter(name), referenced) equals `not sequence or not selected or referenced`, and the referenced set is seeded from exactly the unselected definitions. Reachability itself (petgraph) is assumed.",
        technique="MIR dominator / guard-condition decoding, acquire-release pairing, origin-expression provenance, CFG decision-table enumeration over a finite abstract domain",
        design_ref="DESIGN.md section 4 C20",
    ),
    "C21": dict(
        level="other",
        text="Sibling agreement of expand_with_source_map_impl and expand_without_source_map_impl by effect skeleton (same traversal, same guarded recursion on the expanded elements, extend vs push of the same values, no reordering adaptor); provenance of every field of the two SourceMapEntry pushes (enumerate index; len-1 read after the push; len read before the extend; start + len of the very value extended; the nested map handed to the nested call; the returned signature), one entry per branch; and field-by-field agreement of the two Program-level entry points. Equality of concrete outputs is not evaluated.",
        technique="sibling effect-skeleton comparison + origin-expression provenance with dominance (read-before/after-write) over MIR",
        design_ref="DESIGN.md section 4 C21",
    ),
    "C22": dict(
        level="other",
        text="Provenance of source and target at every add_edge site of ScheduledBasicBlock::build: sources are BlockStart or nodes drawn from a dependency queue / the pending-memory results / the trailing set; targets are the loop's current node or BlockEnd; queues and the trailing set receive only the current node; memory edges are guarded against self-edges; frame queues start from BlockStart; all pending nodes and the empty block are linked to BlockEnd. Forward-only edges imply acyclicity for every block. Reachability for RF instructions matching no frame is not decided.",
        technique="MIR origin-expression provenance at graph-mutation call sites + dominance of the self-edge guard",
        design_ref="DESIGN.md section 4 C22",
    ),
    "C23": dict(
        level="other",
        text="The dependency-queue protocol and its wiring decided structurally: the result is seeded from the pending write; the Write arm moves all pending reads into the result and replaces the pending write; the Read arm only adds to the pending reads; into_pending_dependencies returns both; MemoryAccessType::classify maps Read->Read, Write|Capture->Write with no initial writer; build pairs accesses.reads/writes/captures with Read/Write/Capture, uses one queue per region and creates AwaitMemoryAccess edges. Transitivity and the correctness of memory_accesses (C27) are not decided here.",
        technique="per-arm field-store / call-effect analysis over MIR, table extraction from match arms",
        design_ref="DESIGN.md section 4 C23",
    ),
    "C24": dict(
        level="other",
        text="Wiring table of the four frame-queue call sites of the RFControl arm: which frame set is iterated (used/blocked), the interaction constant (Using/Blocking), the identity of the queue map (timed vs untimed, two distinct maps), control dependence of the timed-queue calls on is_scheduled, per-frame keying, and the edge kind created from each call's result (Scheduled vs StableOrdering); InstructionFrameInteraction::classify maps Blocking->Read, Using->Write. Transitive ordering and matching_frames (C26) are not decided here.",
        technique="call-site table extraction from MIR (argument constants, receiver provenance, dominating condition, consumer edge kind)",
        design_ref="DESIGN.md section 4 C24",
    ),
    "C25": dict(
        level="other",
        text="Thin structural skeleton of schedule computation: instruction_duration_seconds has an explicit arm with the documented duration rule for exactly the instruction kinds the default handler schedules (sibling-table agreement with role / is_scheduled); the topological-traversal filter and the predecessor filter of as_schedule test the same edge kind (Scheduled); exactly one item is pushed and one end time recorded per timed node with end = fold(max of predecessor ends, from zero) + duration. ASAP-ness, exclusivity and span unions are numeric properties of run-time graphs and are not decided.",
        technique="sibling-table agreement (HIR arms / syn) + call-site skeleton checks over MIR",
        design_ref="DESIGN.md section 4 C25",
    ),
    "C26": dict(
        level="other",
        text="Table agreement for the default frame rules: default_frame_match_condition (no catch-all) constructs, per Instruction variant, exactly the condition kinds of the Quil-T rules for used and blocked (blocked depends on the blocking flag); each condition kind is evaluated with the right quantifier in get_matching_keys_for_condition; FrameSet::filter removes used frames from blocked; and, at the type level, the region signatures of matching_frames / filter / get_matching_keys_for_condition tie the returned frame references to the program's FrameSet borrow and not to the instruction, so reported frames are the program's own. Set contents for concrete frame sets are not decided.",
        technique="match-arm table extraction (syn + HIR) against a specification oracle; lifetime-signature (type-level) argument from the compiler's fn_sig",
        design_ref="DESIGN.md section 4 C26",
    ),
    "C27": dict(
        level="other",
        text="Operand-to-access-kind flows decided for every Instruction variant: from the MemoryAccesses aggregates of DefaultHandler::memory_accesses and parameter summaries of its local helper functions, each operand field's set of {reads, writes, captures} is computed and compared with the specification table (38 rows); the match has no catch-all; CALL's writes depend on the parameter's mutable flag. Run-time set contents and index-level precision are not decided.",
        technique="inter-procedural information-flow summaries over MIR origin expressions vs an oracle table",
        design_ref="DESIGN.md section 4 C27",
    ),
    "C28": dict(
        level="other",
        text="Classification totality of the CFG builder over every body-capable Instruction variant (no catch-all, none skipped except INCLUDE), terminator tables forward and inverse, is_dynamic = ConditionalJump, and dependence of every block-offset increment on the closed block's instruction count and label presence. Decides these structural necessary conditions for all programs; the offset arithmetic itself is not evaluated.",
        technique="HIR match-arm tables + MIR data/selecting-control dependence queries",
        design_ref="DESIGN.md section 4 C28",
    ),
    "C29": dict(
        level="other",
        text="Wiring and counting clauses only (the equality with the longest chain quantifies over run-time graphs and is not decided): QubitGraph::new gives every accepted instruction one node, updates the per-qubit map with it for every qubit from get_qubits, and adds the edge (previous instruction on that qubit) -> (this instruction) exactly when there was one; the step of gate_depth, enumerated over its paths, adds 1 exactly for a Gate with at least the threshold number of qubits; the fold starts from 0 and the result is the maximum over paths (0 when empty); path_fold starts from nodes without incoming edges and follows outgoing edges.",
        technique="provenance of add_edge endpoints + control dependence over MIR; path enumeration of the counting closure (no solver); fold shape",
        design_ref="DESIGN.md section 10 (C29 reconsidered)",
    ),
    "C30": dict(
        level="other",
        text="type_check carries no state across instructions (no local defined before the loop is written in it; every checker call receives only the current instruction and program.memory_regions), so the verdict is per-instruction and invariant under reordering/duplication; should_be_real names every Expression variant explicitly, recurses into every child and propagates every verdict to its result, rejects Variable and looks Address up; every (frame, expression) instruction kind - computed from the ADT definitions - has its expression passed to should_be_real; no name constant is compared in the checker (renaming invariance). The scalar typing tables of classical instructions are not decided.",
        technique="loop-carried-state + argument-provenance analysis over MIR; type-directed coverage with verdict-propagation check",
        design_ref="DESIGN.md section 4 C30",
    ),
    "C31": dict(
        level="other",
        text="Structure of extern signatures and CALL resolution: the writers of ExternSignature / ExternParameter / ExternParameterType read every field (necessary for the print/parse round trip); resolve_to_signature resolves arguments only after the != count check with error ParameterCount; per argument kind, UnresolvedCallArgument::resolve can fail with exactly the documented error variants, looks declared regions up and tests `mutable` before accepting an immediate; resolve_return accepts only MemoryReference | Identifier, looks up, compares the type and marks the slot mutable. The full argument x parameter truth table is not decided.",
        technique="field coverage + guard dominance + per-arm error-variant tables (aggregates within HIR arm spans)",
        design_ref="DESIGN.md section 4 C31",
    ),
    "C32": dict(
        level="other",
        text="Structural necessary conditions only; the numeric content of the envelopes, the 1% alignment tolerance and floating-point identities are NOT decided. Decided: (1) the sample count is round(duration * sample_rate) -- one rounding call on exactly that product in raw_resolve_with_sample_rate, carried unchanged into the explicit parameters and the partial value, passed on unchanged by both resolvers; (2) every length in the module (IqSamples::Flat.sample_count, vec![x; n], repeat_n, the time-step range, partial payloads), with closure captures and closure arguments substituted at every call site, is exactly that count -- plus exactly ceil(pad_left*rate) and ceil(pad_right*rate) in the two padded waveforms, chained as left zeros . samples . right zeros -- and no sample-producing iterator uses a length-changing adaptor; (3) every sample vector is rewritten element by element, unconditionally, with apply_phase_and_detuning_at_index(scale * sample, phase, detuning, rate, index), the helpers have the shape iq * cis(2*pi*(detuning*index/rate + phase)), Flat and BoxcarKernel feed scale and phase into both their flat and their detuned branch; (4) a zero-scale fast path is taken exactly under eval_real(scale) == Ok(0.0), in the partial and the total branch, and yields Flat{0}; (5) the concrete and the partial entry point of each of the 7 waveform kinds call the same generic implementation with unchanged arguments, the enum dispatches forward every variant to its own implementation, IqSamples::sample_count reads the stored count / vector length.",
        technique="origin-expression provenance of lengths with closure capture/argument substitution (MIR), control dependence of per-element rewrites and fast paths, algebraic shape matching of helper bodies, sibling agreement of trait wrappers",
        design_ref="DESIGN.md section 10.7 (C32 partial claim)",
    ),
    "C33": dict(
        level="other",
        text="Template conformance of Program::wrap_in_loop read from the un-expanded source: early returns for 0 and 1; otherwise DECLARE counter INTEGER, MOVE counter <- iterations, LABEL start, <body>, SUB counter 1, JUMP-WHEN start counter in this order on a clone_without_body_instructions of self, all counter operands naming the caller's reference; clone_without_body_instructions clones every non-body field. The step from this template to 'body runs exactly n times' is a fixed four-line argument; execution itself is not decided.",
        technique="syntactic template extraction (syn) + MIR field provenance",
        design_ref="DESIGN.md section 4 C33",
    ),
    "C34": dict(
        level="other",
        text="Traversal completeness and uniqueness mechanisms decided structurally: resolve_placeholders resolves every body variant holding a Target explicitly and routes the rest through get_qubits_mut, which (like get_qubits) reads every Qubit-holding field of every body-capable variant; get_targets covers the same Target variants; default_target_resolver loops on membership in the avoid-set and inserts the chosen label on all paths, seeded from get_targets; default_qubit_resolver zips the IndexSet of placeholders with 0.. filtered by non-membership in the fixed-qubit set; the custom-resolver entry point resolves every instruction and rebuilds the cache. Placeholder identity semantics are not decided.",
        technique="type-directed match coverage + CFG must-pass-through / loop-membership checks over MIR",
        design_ref="DESIGN.md section 4 C34",
    ),
    "C35": dict(
        level="other",
        text="Who-writes and provenance for Program::simplify: the result starts from expand_calibrations(self); exactly calibrations, frames, waveforms and extern_pragma_map are written; calibrations get the empty value; frames = self.frames.intersection(used) with `used` collected from matching_frames(expanded program, instr).used over the expanded body; waveforms / extern pragmas are retained by membership in names collected from get_waveform_invocation / CALL; get_waveform_invocation covers every body variant holding a WaveformInvocation. Schedule equality before/after is not decided.",
        technique="field-write enumeration + origin-expression provenance over MIR + type-directed coverage",
        design_ref="DESIGN.md section 4 C35",
    ),
    "C03": dict(
        level="other",
        text="Vocabulary and operand-grouping clauses of expression round-tripping: the printer's five infix operator spellings composed with the lexer's operator tags and parse_infix's arms is the identity; PrefixOperator::Minus likewise (Plus prints nothing); the five function names composed with the keyword arms of parse_expression_identifier is the identity; pi / i / %name spellings agree; the operand printer wraps nested infix expressions and two-part complex numbers in parentheses, and the prefix arm wraps operands that themselves start with a sign, matching the parser's contract that exactly one prefix operator is applied to an atom before the infix loop. Number formatting and evaluation are not decided.",
        technique="syntax-tree table extraction (printer match arms, lexer combinators, parser match arms) and table composition; emission-sequence shape checks",
        design_ref="DESIGN.md section 4 C03",
    ),
    "C04": dict(
        level="other",
        text="Placeholder-error discipline of serialization: ToQuilError::Unresolved{Qubit,Label}Placeholder is constructed only in the Qubit / Target writers under (variant is Placeholder) and (fall_back_to_debug is false); at all 144 writer-to-writer call sites the fall_back_to_debug argument is the caller's own parameter (or the entry point is selected by it); no writer formats a value whose type can hold a Qubit/Target through Debug/Display or serializes it through to_quil()/to_quil_or_debug(); to_quil passes false and propagates, to_quil_or_debug passes true. Hence to_quil fails with a placeholder error only by reaching a placeholder and the debug serializer cannot fail on one. Text/parse agreement is decided under C02/C07; DELAY/CALL ambiguities and program equivalence are not decided.",
        technique="who-may-construct rule with control dependence; argument provenance over MIR origin expressions at resolved call sites; type-containment-directed formatting check",
        design_ref="DESIGN.md section 4 C04",
    ),
    "C05": dict(
        level="other",
        text="Static rules over the parse-reachable function set: no value-changing numeric cast and no undischarged overflow assert may exist there; every Token::Float construction is dominated by the finite side of is_finite on the same value; lexical Overflow/Underflow map to nom::Err::Failure; lexical float options must not be lossy. Decides that literal-derived values cannot be wrapped/truncated/backtracked on any input; the digit-to-value computation inside `lexical` is trusted.",
        technique="who-may-cast / guard-dominance rules over resolved MIR on the monomorphic parse call graph",
        design_ref="DESIGN.md section 4 C05",
    ),
    "C06": dict(
        level="other",
        text="Must-not-flow (taint) rule on MIR: the result of every case-mapping / normalising std call in a parse-reachable function (and every copy, to_owned, as_str of it) may reach only comparisons, never a constructed value, a return value or a non-comparison call; lexer keyword enums must be case sensitive. Decides that no normalised copy of an identifier can be stored in the parsed program; byte-level lexing of identifiers is not decided.",
        technique="intra-procedural taint propagation over MIR on the monomorphic parse call graph",
        design_ref="DESIGN.md section 4 C06",
    ),
    "C08": dict(
        level="other",
        text="Effect confinement + container typing: every HashMap/HashSet iteration call in functions reachable from the serialization entry points must end in an order-insensitive consumer; every listed Program store must have a hash-free type; no order-disturbing container call acts on a store under add_instruction; CalibrationSet::replace overwrites in place. Decides independence of output from hash order and positional stability of redefinitions for all programs; trusts IndexMap/Vec semantics.",
        technique="call-graph reachability + consumer-chain dataflow over MIR; type-containment query over ADT definitions",
        design_ref="DESIGN.md section 4 C08",
    ),
    "C09": dict(
        level="other",
        text="Sibling agreement: to_instructions and into_instructions (and every local type with both) are abstracted to the ordered list of self stores appended (provenance of each extend argument) and must be equal; the stores add_instruction mutates equal the stores listed; each variant's routing is matched by what the listing section re-creates; only order-preserving loss-free adaptors lie between a store and the output. Decides section order/coverage for all programs; does not execute either listing.",
        technique="MIR provenance (origin expressions) + HIR match-arm routing table, compared between sibling functions",
        design_ref="DESIGN.md section 4 C09",
    ),
    "C10": dict(
        level="other",
        text="Cache-mirroring rules for Program::used_qubits: every addition to a qubit-bearing store is accompanied by a cache update on all paths (CFG must-pass-through); Program literals with an empty cache and a kept qubit-bearing store must be rebuilt; get_qubits / get_qubits_mut must read every Qubit-holding field of every Instruction variant in an explicit arm (type-directed coverage). Necessary conditions of 'cache equals qubits mentioned'; removals/histories are not tracked.",
        technique="type-directed match coverage (ADT containment x HIR arms x MIR field reads) + who-writes enumeration with dominance",
        design_ref="DESIGN.md section 4 C10",
    ),
}

NOT_APPLICABLE = {
}


# clauses added after the first version of each check (red-team misses, defects found); appended to the texts above
ADDENDA = {
    "C34": " Also: the caller's resolvers are handed to every instruction unchanged, or consulted without a short-circuiting adaptor: every placeholder is asked.",
    "C14": " Also: the value returned for a parameterised gate is the table function's result for every angle (no special-cased angle).",
    "C16": " Also: has_signature is an equality of the whole signature (no is_some / len / prefix comparisons of a component). The whole-signature comparisons of matches reject on the side where the two values differ (polarity).",
    "C28": " Also: exactly JUMP, JUMP-WHEN, JUMP-UNLESS and HALT (and LABEL, which starts the next one) close a block. The offset increment has a literal + 1 exactly at the sites that close a block on a terminator instruction.",
    "C22": " Also: the BlockStart edge of a classical instruction is decided by whether a memory edge was actually drawn into it (flag cleared under the self-edge guard, or computed from that comparison). The self-edge guard is polarity-aware: memory edges are drawn on the side where the dependency is a different node.",
    "C02": " Also: a present optional field is printed whatever it contains (no Some-discarding adaptor, emission controlled only by the Option being Some); a writer that separates elements with commas has a parser accepting COMMA.",
    "C03": " Also: whole real parts written as bare digit strings (trim_floats below 10^break) fit the lexer's integer token width; the Prefix arm never prints its operand bare and the Infix arm prints both operands through the grouping printer; the identifier parser tries `name[index]` before the keyword table while MemoryReference always prints its brackets.",
    "C04": " Also: the literal rule shared with C02; positions printed with format_complex need a parser that accepts a sign and a sum (CALL immediates: sign repaired, two-part values a known finding); an expression printed directly after a qubit list is grouped by the writer for every expression kind whose text starts with a token the qubit parser accepts (DELAY, repaired twice); a to_quil()/to_quil_or_debug() call on a value of generic type inside a flag-taking helper counts as one on a placeholder-carrying value.",
    "C05": " Also: a literal is negated only under a test of the sign token being Operator::Minus; the float Eq/Hash helpers used for interning Expression numbers are exact (no ordering comparison, arithmetic or tolerance). Also: after the digits of an integer, '.', 'e' and 'E' all continue the literal as a real number. The radix prefixes map 0b -> 2, 0o -> 8, 0x -> 16 and no prefix -> 10.",
    "C06": " Also: taking a name apart (split/strip/truncate family) before storing it counts as normalisation (one named exception: Pauli words decoded into PauliGate values). Also: nothing on the parse paths builds a char from a single byte or code unit. The identifier token is the concatenation, in order, of all parts the identifier grammar recognised.",
    "C07": " Also: no writer re-processes the serialized text of a nested value (split/lines/replace/trim): repaired for DEFCIRCUIT bodies. Also: no lexer or quoting function builds a char from a single byte. The text-reprocessing rule also covers the helpers shared by the writers (every function taking the fall_back_to_debug flag).",
    "C08": " Also: in every function that builds, merges, filters or rebuilds a Program store, no order-scrambling call (swap_remove, sort, reverse, ...) is applied to an insertion-ordered container and no insertion-ordered container is filled from an iteration over a hash-ordered one.",
    "C09": " Also: CalibrationSet's backing vector is added to only by `replace`; every section of both listings is appended unconditionally. Also: only add_instruction (and the whitelisted merge of two programs) appends to the body; a PRAGMA is moved to the extern store only under an exact `name == EXTERN`.",
    "C10": " Also: the rebuild covers each qubit-bearing sub-store (gate and measure calibrations separately), also when the cache is filled through a local collection; replacing a qubit-bearing definition triggers a rebuild (repaired). Also: content merged from another Program must be matched by a rebuild, a union with that program's cache, or add_instruction(s) fed from the same store; a Program literal that takes over another value's cache takes every qubit-bearing store from that value too or rebuilds; a hand-written rebuild reads every Qubit-holding field of each definition type it walks.",
    "C11": " Also: every field merge of the nested merge helpers happens on every path (no fast path decided from part of the other operand).",
    "C12": " Guard helpers are inlined and let-else / if-chain bindings are modelled, so the affine rule is decided too; no undecided instance is left.",
    "C13": " Also: substitute_variables returns a node of the same kind for Infix/Prefix/FunctionCall on every path; every value evaluate computes from evaluated children goes through calculate_infix / calculate_function / negation. Also: substitution returns every leaf other than a Variable unchanged; the memory-reference listing defers a child unconditionally. evaluate reads the memory cell at exactly the reference's own index and gives pi the value of pi.",
    "C14": " Also (shape rules, not part of the proof of the tables): every permutation step in two_swap_helper / permutation_arbitrary multiplies the new factor on the left of the accumulator in every branch; the gate's parameter reaches its matrix function unchanged.",
    "C17": " Also: the parameter substitution in the closure handed to apply_to_expressions is unconditional; both public entry points return what expand_calibrations_inner built on every path. Also: the expansion output reaches the program only through add_instruction(s) (hoisting of DECLARE with and without a source map).",
    "C18": " Also: at every call in the expansion cycle and its public wrappers the callee's error is propagated (`?`, returned as is, or an Err arm that returns). Also: substitute_variables recurses only on sub-expressions of the node it was given (never on a value from the substitution map).",
    "C23": " Also: every (region, access kind) of every instruction reaches the per-region queue (element-preserving adaptors only, unconditional record call). Also: the pending write is assigned or mutably borrowed only inside the Write arm (a read never clears it).",
    "C24": " Also: the per-frame queues are keyed by a type holding the full FrameIdentifier (no order-forgetting set of qubits).",
    "C25": " Also: TimeSpan::union decided path by path (start = min of starts, end = max of ends, justified by the path's comparisons); the calibrated index map and span merge of BasicBlock::as_schedule. Also: the set of scheduled instruction kinds is read from the MIR of DefaultHandler::is_scheduled whatever its shape, and compared kind by kind with the duration table. Also: the start time is the maximum (fold from zero keeping the larger value) of the timed predecessors' end times; Schedule::duration is raised to an item's end time exactly when that end time is later.",
    "C26": " Also: each side of FrameSet::filter is evaluated whenever its condition is present (no Some-discarding adaptor, unconditional evaluation). Also: And / Or evaluate every operand (no take_while / skip / find ... between the operand results and the combination).",
    "C27": " Also: the CALL table: for (return slot | loop) x (MemoryReference | Identifier) x (reads | writes) the insertion happens under exactly the expected controlling conditions (writes of loop arguments only additionally under `mutable`). Also: a helper reports a region that is certainly present (a &MemoryReference parameter) the same way on every path; memory references are listed from the expression as written (no simplification or substitution first).",
    "C30": " Also: every declaration lookup in the type checker (18 sites) reports UndefinedMemoryReference when the region is not declared; a number literal is rejected exactly when |imaginary part| is non-zero (sign-symmetric test, error on the non-zero side). A memory reference is accepted exactly when its region's type equals REAL (polarity of the comparison).",
    "C31": " Also: a MemoryReference or Immediate argument is accepted for ExternParameterType::Scalar only (decision read from the match in the arm or from the Option/Result helper called on data_type). Also: the argument-count comparison uses the plain argument count (no lossy arithmetic) against parameters plus the return slot; a mutable parameter is printed with `mut` on every path, whatever its type. A Mismatched* error is raised exactly on the side where the declared type or size differs from the expected one.",
    "C33": " Also: MOVE, SUB and JUMP-WHEN address the same memory cell (the caller's reference) and the declared length covers its index (repaired); the early returns are decided on the MIR paths; add_instruction stores a DECLARE by an unconditional insert, so the generated declaration replaces an existing one.",
    "C35": " Also: simplify never reads the unexpanded body; CALL names are collected in the loop over the expanded body; the three pruning steps (frames, waveforms, extern pragmas) run on every path. A waveform / extern pragma is kept exactly when its name is in the used set (positive membership; an absent extern name keeps nothing).",
    "C20": " Also: the referenced set is filled under a transitive reachability query; errors are raised only for selected invocations.",
    "C21": " Also: every effect of an iteration (extend / push / entry push) is unconditional within its arm; both Program-level entry points return the program they built.",
    "C29": " A traversal that prunes paths is reported as undecided, never as a violation. Also: every node without incoming edges starts a walk (the externals iterator is collected unfiltered).",
}


def main():
    props = [json.loads(l) for l in open(os.path.join(VERIF, "properties.jsonl"))]
    checks = []
    na = []
    for p in props:
        pid = p["id"]
        if pid in CLAIMED:
            c = CLAIMED[pid]
            checks.append(
                {
                    "property_id": pid,
                    "quick_cmd": "./check %s --tier quick" % pid,
                    "thorough_cmd": "./check %s --tier thorough" % pid,
                    "evidence_file": "/verif/evidence/%s.json" % pid,
                    "replay_cmd_template": "./check %s --replay {path}" % pid,
                    "engine": "qv",
                    "level_claimed": {"category": c["level"], "text": c["text"] + ADDENDA.get(pid, ""), "design_ref": c["design_ref"]},
                    "level_note": c.get("note", BASE_NOTE),
                    "technique": "static analysis: " + c["technique"],
                }
            )
        elif pid in NOT_APPLICABLE:
            na.append({"property_id": pid, "reason": "static analysis not applicable: " + NOT_APPLICABLE[pid]})
        else:
            na.append({"property_id": pid, "reason": "not claimed yet: the static rule designed for it (DESIGN.md section 4) is not built/validated at this commit"})
    m = {
        "version": 1,
        "setup_cmd": "./setup.sh",
        "hooks": {
            "guard": "rigetti_quil_rs_verif",
            "enable": "no hooks are needed: every check reads the unmodified source through the compiler (RUSTC_WORKSPACE_WRAPPER driver under cargo +nightly check) and syn",
            "baseline_off_cmd": "cd /repo && (cargo nextest run --workspace --no-fail-fast --test-threads 8 --offline || cargo test --workspace --no-fail-fast --offline)",
            "source_commits": [],
            "add_only": True,
        },
        "engines": [
            {"name": "qfacts", "path": "/verif/qfacts", "serves_properties": sorted(CLAIMED), "kind_free_text": "rustc_private driver: typed ADT/impl/MIR/HIR-pattern facts + monomorphic call graph of /repo's current tree"},
            {"name": "qsyn", "path": "/verif/qsyn", "serves_properties": [], "kind_free_text": "syn-2 extractor of un-expanded syntax (format templates, rewrite arms, matrix tables)"},
            {"name": "qv", "path": "/verif/qv", "serves_properties": sorted(CLAIMED), "kind_free_text": "Python rule engine: call graph, CFG/dominators, provenance expressions, rule kinds K1-K11, evidence"},
        ],
        "checks": checks,
        "notes": "Technique family: static analysis only (no execution of quil-rs, concretely or symbolically). See DESIGN.md. known_findings.json lists genuine defects recorded (status known) or repaired by fix: commits (status fixed).",
        "not_applicable": na,
    }
    with open(os.path.join(VERIF, "MANIFEST.json"), "w") as fh:
        json.dump(m, fh, indent=1)
    print("claimed:", len(checks), "not claimed:", len(na))


if __name__ == "__main__":
    main()
