"""Which operand of each instruction is read / written / captured (Quil specification, classical
instruction chapter; Quil-T Annex T for capture semantics).  variant -> field -> set of kinds."""
R, W, C = "reads", "writes", "captures"
TABLE = {
    "Convert": {"destination": {W}, "source": {R}},
    "Move": {"destination": {W}, "source": {R}},
    "BinaryLogic": {"destination": {R, W}, "source": {R}},
    "Arithmetic": {"destination": {R, W}, "source": {R}},
    "UnaryLogic": {"operand": {R, W}},
    "Exchange": {"left": {R, W}, "right": {R, W}},
    "JumpWhen": {"condition": {R}},
    "JumpUnless": {"condition": {R}},
    "Comparison": {"destination": {W}, "lhs": {R}, "rhs": {R}},
    "Delay": {"duration": {R}},
    "SetPhase": {"phase": {R}},
    "SetScale": {"scale": {R}},
    "ShiftPhase": {"phase": {R}},
    "SetFrequency": {"frequency": {R}},
    "ShiftFrequency": {"frequency": {R}},
    "Pulse": {"waveform": {R}},
    "Gate": {"parameters": {R}},
    "Capture": {"memory_reference": {C}, "waveform": {R}},
    "Measurement": {"target": {C}},
    "RawCapture": {"duration": {R}, "memory_reference": {C}},
    "Load": {"destination": {W}, "source": {R}, "offset": {R}},
    "Store": {"destination": {W}, "offset": {R}, "source": {R}},
}
# variants that report nothing by design (not executed / opaque / no memory operand)
NOTHING = {"Declaration", "Fence", "FrameDefinition", "Halt", "Wait", "Include", "Jump", "Label", "Nop", "Pragma", "Reset", "SwapPhases"}
# handled by recursion over nested instructions or by their own rule
RECURSIVE = {"CalibrationDefinition", "MeasureCalibrationDefinition", "CircuitDefinition", "GateDefinition", "WaveformDefinition", "Call"}
