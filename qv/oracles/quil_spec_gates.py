"""Standard gate matrices transcribed from the Quil specification, section
"Standard Gate Definitions" (https://quil-lang.github.io/#4-3Standard-Gate-Definitions).
Basis order |q_{n-1} ... q_0>, first gate qubit is the most significant in the matrix as written
in the specification (e.g. CNOT control = first qubit)."""
import sympy as sp

t = sp.Symbol("theta")
I = sp.I


def diag(*xs):
    return sp.diag(*xs)


def perm(n, swaps):
    m = sp.eye(n)
    for a, b in swaps:
        m[a, a] = 0
        m[b, b] = 0
        m[a, b] = 1
        m[b, a] = 1
    return m


CONSTANT = {
    "I": sp.eye(2),
    "X": sp.Matrix([[0, 1], [1, 0]]),
    "Y": sp.Matrix([[0, -I], [I, 0]]),
    "Z": sp.Matrix([[1, 0], [0, -1]]),
    "H": sp.Matrix([[1, 1], [1, -1]]) / sp.sqrt(2),
    "S": diag(1, I),
    "T": diag(1, sp.exp(I * sp.pi / 4)),
    "CNOT": perm(4, [(2, 3)]),
    "CCNOT": perm(8, [(6, 7)]),
    "CZ": diag(1, 1, 1, -1),
    "SWAP": perm(4, [(1, 2)]),
    "CSWAP": perm(8, [(5, 6)]),
    "ISWAP": sp.Matrix([[1, 0, 0, 0], [0, 0, I, 0], [0, I, 0, 0], [0, 0, 0, 1]]),
}

PARAMETERIZED = {
    "RX": sp.Matrix([[sp.cos(t / 2), -I * sp.sin(t / 2)], [-I * sp.sin(t / 2), sp.cos(t / 2)]]),
    "RY": sp.Matrix([[sp.cos(t / 2), -sp.sin(t / 2)], [sp.sin(t / 2), sp.cos(t / 2)]]),
    "RZ": diag(sp.exp(-I * t / 2), sp.exp(I * t / 2)),
    "PHASE": diag(1, sp.exp(I * t)),
    "CPHASE00": diag(sp.exp(I * t), 1, 1, 1),
    "CPHASE01": diag(1, sp.exp(I * t), 1, 1),
    "CPHASE10": diag(1, 1, sp.exp(I * t), 1),
    "CPHASE": diag(1, 1, 1, sp.exp(I * t)),
    "PSWAP": sp.Matrix([[1, 0, 0, 0], [0, 0, sp.exp(I * t), 0], [0, sp.exp(I * t), 0, 0], [0, 0, 0, 1]]),
}
