"""Access to qsyn's un-expanded syntax facts."""
from collections import defaultdict


class Syn:
    def __init__(self, raw):
        if raw is None:
            raise RuntimeError("no syn facts (qsyn not built?)")
        self.raw = raw
        self.fns = raw["fns"]
        self.statics = raw["statics"]
        self.enums = raw["enums"]
        self.item_macros = raw["item_macros"]
        self.by_name = defaultdict(list)
        for f in self.fns:
            self.by_name[f["name"]].append(f)

    def fn_at(self, file, line):
        """syntactic fn whose span contains file:line (innermost)"""
        best = None
        for f in self.fns:
            if f["file"] == file and f["ln"] <= line <= f["end_ln"]:
                if best is None or f["ln"] >= best["ln"]:
                    best = f
        return best

    def fn_for(self, mirfn):
        """the syntactic function corresponding to a qfacts Fn (joined by file + header line)"""
        root = mirfn
        return self.fn_at(mirfn.file, mirfn.raw["hsp"][0])

    def static(self, name):
        xs = [s for s in self.statics if s["name"] == name]
        return xs[0] if len(xs) == 1 else None

    def enum(self, name, module_suffix=None):
        xs = [e for e in self.enums if e["name"] == name and (module_suffix is None or e["module"].endswith(module_suffix))]
        return xs[0] if len(xs) == 1 else None


def walk(node, visit):
    """pre-order walk over a qsyn JSON tree; visit(node) returning False prunes"""
    if isinstance(node, dict):
        if "k" in node and visit(node) is False:
            return
        for v in node.values():
            walk(v, visit)
    elif isinstance(node, list):
        for v in node:
            walk(v, visit)


def find_all(node, pred):
    out = []
    walk(node, lambda n: out.append(n) if pred(n) else None)
    return out


def unparen(e):
    while isinstance(e, dict) and e.get("k") == "paren":
        e = e["e"]
    return e


def src(e):
    """compact one-line rendering of an expression / pattern tree (for reports)"""
    if e is None:
        return "_"
    k = e.get("k")
    if k == "path":
        return e["p"]
    if k == "lit":
        if "t" not in e and isinstance(e.get("e"), dict):  # literal pattern wraps a literal expression
            return src(e["e"])
        return repr(e["v"]) if e["t"] in ("str", "char") else str(e["v"])
    if k == "call":
        return "%s(%s)" % (src(e["f"]), ", ".join(src(a) for a in e["args"]))
    if k == "mcall":
        return "%s.%s(%s)" % (src(e["recv"]), e["m"], ", ".join(src(a) for a in e["args"]))
    if k == "bin":
        return "%s %s %s" % (src(e["l"]), e["op"], src(e["r"]))
    if k == "un":
        return "%s%s" % (e["op"], src(e["e"]))
    if k == "paren":
        return "(%s)" % src(e["e"])
    if k == "ref":
        return "&" + src(e.get("e") or e.get("p"))
    if k == "field":
        return "%s.%s" % (src(e["e"]), e["m"])
    if k == "tuple":
        return "(%s)" % ", ".join(src(x) for x in (e.get("es") or e.get("ps") or []))
    if k == "macro":
        return "%s!(%s)" % (e["name"], e["raw"][:60])
    if k == "ident":
        return e["name"] + (" @ " + src(e["sub"]) if e.get("sub") else "")
    if k == "wild":
        return "_"
    if k == "tstruct":
        return "%s(%s)" % (e["path"], ", ".join(src(x) for x in e["ps"]))
    if k == "struct" and "fields" in e and e["fields"] and "p" in e["fields"][0]:
        return "%s { %s%s }" % (e["path"], ", ".join("%s: %s" % (f["n"], src(f["p"])) for f in e["fields"]), ", .." if e.get("rest") else "")
    if k == "struct":
        return "%s { %s }" % (e["path"], ", ".join("%s: %s" % (f["n"], src(f["e"])) for f in e["fields"]))
    if k == "or":
        return " | ".join(src(x) for x in e["ps"])
    if k == "block":
        return "{ %s }" % "; ".join(src(s.get("e") or s.get("init")) if isinstance(s, dict) else "?" for s in e["stmts"])[:200]
    if k == "if":
        return "if %s %s else %s" % (src(e["c"]), src(e["t"]), src(e["f"]))
    if k == "rest":
        return ".."
    if k == "try":
        return src(e["e"]) + "?"
    if k == "index":
        return "%s[%s]" % (src(e["e"]), src(e["i"]))
    if k == "closure":
        return "|%s| %s" % (", ".join(src(p) for p in e["params"]), src(e["body"]))
    if k == "match":
        return "match %s {..}" % src(e["e"])
    return "<%s>" % k
