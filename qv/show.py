def show(e,d=0):
    if d>14: return "…"
    t=e[0]
    if t=="call": return "%s@%s(%s)"%(e[1].split("::")[-1],e[3],", ".join(show(a,d+1) for a in e[2]))
    if t=="callv": return "callv(%s)"%(", ".join(show(a,d+1) for a in e[2]))
    if t=="field": return show(e[1],d+1)+"."+str(e[2])
    if t=="phi": return "phi[%s]"%", ".join(show(a,d+1) for a in e[1])
    if t=="closure": return "clo<%s>(%s)"%(e[1].split("::")[-1],", ".join(show(a,d+1) for a in e[2]))
    if t=="agg": return "%s::%s{%s}"%(e[1].split("::")[-1],e[2],", ".join(k+":"+show(v,d+1) for k,v in e[3].items()))
    if t=="tuple": return "(%s)"%", ".join(show(a,d+1) for a in e[1])
    if t=="param": return "param%s:%s"%(e[1],e[2])
    if t=="as": return "("+show(e[1],d+1)+" as "+str(e[2])+")"
    if t=="bin": return "(%s %s %s)"%(show(e[2],d+1),e[1],show(e[3],d+1))
    if t=="un": return "%s(%s)"%(e[1],show(e[2],d+1))
    if t=="const": return repr(e[1])
    if t=="static": return "static<%s>"%e[1].split("::")[-1]
    if t=="cast": return "cast(%s)"%show(e[2],d+1)
    return str(e[:2])
