"""Decision tables of small boolean MIR bodies.

`decision_paths(f, atom_of)` walks every acyclic entry->return path of `f`.  At each switch the discriminant's origin
expression is classified by `atom_of(expr)` into an atom name (or None = not classifiable).  The result of a path is
the last whole assignment to `_0` on it.  `evaluate(paths, assignment, result_atom)` picks the path consistent with a
total assignment of atoms and returns its value.  Nothing of the analysed crate is executed: this is an enumeration of
the function's own CFG over a finite abstract domain chosen by the caller."""
from qv.engine import callee_of, callee_path, fn_expr_operand, fn_expr_rvalue, fn_expr_place


class Undecidable(Exception):
    pass


def _strip_not(e):
    neg = False
    while e[0] == "un" and e[1] == "Not":
        neg = not neg
        e = e[2]
    return e, neg


def decision_paths(f, atom_of, limit=4000):
    out = []

    def last_def0(path):
        for bb in reversed(path):
            b = f.blocks[bb]
            t = b["t"]
            if t["k"] == "call" and not t["dest"]["pr"] and t["dest"]["l"] == 0:
                c = callee_of(t)
                return ("call", callee_path(c) if c else None, [fn_expr_operand(f, a) for a in t["args"]], bb)
            for s in reversed(b["s"]):
                if s["k"] == "assign" and s["p"]["l"] == 0 and not s["p"]["pr"]:
                    return fn_expr_rvalue(f, s["rv"])
        return None

    def go(bb, path, conds):
        if len(out) > limit:
            raise Undecidable("too many paths")
        if bb in path:
            raise Undecidable("loop at bb%d" % bb)
        path = path + [bb]
        t = f.blocks[bb]["t"]
        k = t["k"]
        if k == "return":
            out.append((conds, last_def0(path), path))
            return
        if k == "switch":
            e, neg = _strip_not(fn_expr_operand(f, t["d"]))
            atom = atom_of(e)
            if atom is None:
                raise Undecidable("switch on %r at bb%d" % (e[:2], bb))
            vals = []
            for v, tgt in t["ts"]:
                v = int(v)
                if neg:
                    v = 1 - v
                vals.append(v)
                go(tgt, path, conds + [(atom, "in", frozenset([v]))])
            go(t["else"], path, conds + [(atom, "notin", frozenset(vals))])
            return
        succ = f.succs(bb)
        if len(succ) != 1:
            if not succ:
                return  # diverges (panic / unreachable): no result on this path
            raise Undecidable("terminator %s at bb%d" % (k, bb))
        go(succ[0], path, conds)

    go(0, [], [])
    return out


def evaluate(paths, assignment):
    """-> the result expression of the unique path consistent with `assignment` (atom -> int)"""
    hits = []
    for conds, result, path in paths:
        ok = True
        for atom, op, vals in conds:
            v = assignment[atom]
            if (op == "in") != (v in vals):
                ok = False
                break
        if ok:
            hits.append((result, path))
    if len(hits) != 1:
        raise Undecidable("%d paths consistent with %r" % (len(hits), assignment))
    return hits[0][0]


def select_of(f, local):
    """A local assigned on exactly two paths that are the two sides of one two-way branch:
    -> (condition expr, value if the condition is true, value if false), else None."""
    from qv.engine import fn_expr_rvalue as _rv
    defs = []
    for d in f.defs().get(local, []):
        if d[0] == "s" and d[3]["k"] == "assign" and not d[3]["p"]["pr"]:
            defs.append((d[1], _rv(f, d[3]["rv"])))
        elif d[0] == "t" and not d[3]["dest"]["pr"]:
            c = callee_of(d[3])
            args = [fn_expr_operand(f, a) for a in d[3]["args"]]
            from qv.engine import TRANSPARENT_CALLS
            p = callee_path(c) if c else None
            if p and (TRANSPARENT_CALLS.search(p) or p.endswith("::clone")) and args:
                defs.append((d[1], args[0]))
            else:
                defs.append((d[1], ("call", p, args, d[1])))
    if len(defs) != 2:
        return None
    sides = []
    for bb, val in defs:
        cds = list(f.control_deps(bb, transitive=False))
        if len(cds) != 1:
            return None
        sb, tgt = cds[0]
        t = f.blocks[sb]["t"]
        if t["k"] != "switch":
            return None
        e, neg = _strip_not(fn_expr_operand(f, t["d"]))
        taken = [int(v) for v, x in t["ts"] if x == tgt]
        truthy = (taken != [0]) if taken else ([int(v) for v, x in t["ts"]] == [0])
        if neg:
            truthy = not truthy
        sides.append((sb, truthy, val, e))
    if sides[0][0] != sides[1][0] or sides[0][1] == sides[1][1]:
        return None
    t_val = [s for s in sides if s[1]][0][2]
    f_val = [s for s in sides if not s[1]][0][2]
    return sides[0][3], t_val, f_val


def minmax_of(sel, same):
    """classify ite(cmp(x, y), a, b) as ('min'|'max', x, y) when {a, b} = {x, y}; `same` compares origin expressions"""
    if not sel:
        return None
    cond, vt, vf = sel
    if cond[0] == "call" and cond[1].rsplit("::", 1)[-1] in ("lt", "le", "gt", "ge") and len(cond[2]) == 2:
        op, x, y = cond[1].rsplit("::", 1)[-1], cond[2][0], cond[2][1]
    elif cond[0] == "bin" and cond[1] in ("Lt", "Le", "Gt", "Ge"):
        op, x, y = cond[1].lower(), cond[2], cond[3]
    else:
        return None
    less = op in ("lt", "le")
    if same(vt, x) and same(vf, y):
        return ("min" if less else "max", x, y)
    if same(vt, y) and same(vf, x):
        return ("max" if less else "min", x, y)
    return None
