"""Typed discharge rules for K1 sites: each returns a reason string when the site is
provably not panic-capable under the stated guard (machine-checked on the current
facts), else None.  They are function-name agnostic."""
import re

from qv.engine import (callee_of, callee_path, expr_calls, expr_leaves, fn_expr_local, fn_expr_operand, fn_expr_place, walk_expr)

FIRST_LIKE = re.compile(r"^core::slice::<impl \[T\]>::(first|split_first|last|split_last)$")
OFFSET_PRODUCERS_PLUS1 = re.compile(r"(^core::str::<impl str>::find$|^<std::str::CharIndices<'a> as std::iter::Iterator>::next$|^std::iter::Iterator::position$)")
OFFSET_PRODUCERS = re.compile(r"(^lexical(_core)?::parse_partial_with_options$|^lexical_parse_(integer|float)::.*parse_partial.*)")
LEN_LIKE = re.compile(r"(::len$|::find$|CharIndices<'a> as std::iter::Iterator>::next$|::position$|Enumerate<I> as std::iter::Iterator>::next$|::count$)")


OK_PRESERVING = re.compile(r"(as std::ops::Try>::branch$|^std::result::Result::<T, E>::map_err$|^std::option::Option::<T>::ok_or(_else)?$)")


def root(e):
    """strip field/as/index wrappers (and calls that preserve the Ok/Some payload:
    `?`, map_err, ok_or) to the underlying root expr and the field path walked"""
    path = []
    while True:
        if e[0] in ("field", "as", "cindex", "index"):
            if e[0] == "field":
                path.append(e[2])
            e = e[1]
        elif e[0] == "call" and OK_PRESERVING.search(e[1]) and e[2]:
            path.append("?")
            e = e[2][0]
        else:
            break
    return e, tuple(reversed(path))


def ok_payloads(g):
    """expressions a local function returns inside Ok(..)/Some(..) (None if it may return them by other means)"""
    from qv.engine import fn_expr_rvalue

    outs = []
    for d in g.defs().get(0, []):
        if d[0] == "t":
            c = callee_of(d[3])
            p = callee_path(c) if c else ""
            if "FromResidual" in p:
                continue  # error propagation
            return None
        st = d[3]
        if st["k"] != "assign" or st["p"]["pr"]:
            return None
        rv = st["rv"]
        if rv["k"] == "agg" and rv["a"]["k"] == "adt" and rv["a"]["path"] in ("std::option::Option", "std::result::Result"):
            if rv["a"]["variant"] in ("Ok", "Some"):
                outs.append(fn_expr_operand(g, rv["ops"][0]))
            continue
        return None
    return outs


def ekey(e):
    """identity of a root expression: calls are identified by (callee, block) - the call site"""
    if e[0] == "call":
        return ("call", e[1], e[3])
    return e


def same_origin(a, b):
    ra, pa = root(a)
    rb, pb = root(b)
    return ekey(ra) == ekey(rb) and pa == pb


def _some_target(t):
    for v, bb in t["ts"]:
        if v == "1":
            return bb
    return None


def _zero_target(t):
    for v, bb in t["ts"]:
        if v == "0":
            return bb
    return None


def first_like_local(db, path):
    """Is `path` a local function that returns Some only when its first parameter (a slice)
    is non-empty, i.e. whose result is a first-like std call on param 1 (optionally `.map`ped)?"""
    fs = db.by_path.get(path, [])
    if len(fs) != 1:
        return False
    f = fs[0]
    e = fn_expr_local(f, 0)
    if e[0] == "call" and e[1] == "std::option::Option::<T>::map" and e[2]:
        e = e[2][0]
    if e[0] == "call" and FIRST_LIKE.match(e[1]) and e[2]:
        r, _ = root(e[2][0])
        return r[0] == "param" and r[1] == 1
    return False


def dominating_option_guards(fn, bb):
    """yield (call expr, arm) for every switch dominating `bb` whose scrutinee is the
    discriminant of an Option/Result-valued call result; arm = '1' / '0' side that dominates bb"""
    dom = fn.dominators().get(bb, set())
    for d in dom:
        t = fn.blocks[d]["t"]
        if t["k"] != "switch":
            continue
        disc = fn_expr_operand(fn, t["d"])
        if disc[0] != "discr":
            continue
        src = disc[1]
        for v, tgt in t["ts"]:
            if tgt in dom or tgt == bb:
                yield src, v, d
        if t["else"] in dom or t["else"] == bb:
            yield src, "else", d


def index_need(fn, idx_op):
    """minimum slice length needed by an index operand: const i -> i+1, RangeTo{end: c} -> c; None if unknown"""
    e = fn_expr_operand(fn, idx_op)
    if e[0] == "const" and isinstance(e[1], int):
        return e[1] + 1
    if e[0] == "agg" and e[1] in ("std::ops::RangeTo",) and e[3].get("end", ("x",))[0] == "const":
        v = e[3]["end"][1]
        return v if isinstance(v, int) else None
    return None


def guard_first_like(db, fn, bb, x_expr):
    """site in `fn` block `bb` needs `len(x) >= 1`; holds if dominated by the Some arm of a
    first-like call on the same origin"""
    for src, arm, d in dominating_option_guards(fn, bb):
        if arm != "1":
            continue
        if src[0] == "call" and src[2] and (FIRST_LIKE.match(src[1]) or first_like_local(db, src[1])):
            if same_origin(src[2][0], x_expr):
                return "dominated by the Some arm of %s on the same slice (bb%d)" % (src[1], d)
    return None


def guard_len_eq(db, fn, bb, x_expr, need):
    """dominated by the `len == c` side (c >= need) of a comparison of x.len() with a constant"""
    dom = fn.dominators().get(bb, set())
    for d in dom:
        t = fn.blocks[d]["t"]
        if t["k"] != "switch":
            continue
        e = fn_expr_operand(fn, t["d"])
        if e[0] != "bin" or e[1] not in ("Ne", "Eq"):
            continue
        a, b = e[2], e[3]
        if b[0] != "const":
            a, b = b, a
        if b[0] != "const" or not isinstance(b[1], int) or b[1] < need:
            continue
        if not (a[0] == "call" and a[1].endswith("::len") and a[2] and same_origin(a[2][0], x_expr)):
            continue
        want = "0" if e[1] == "Ne" else "1"
        tgt = None
        for v, bb2 in t["ts"]:
            if v == want:
                tgt = bb2
        if tgt is None and want == "1":
            tgt = t["else"]  # bool switch: [0: f] else t
        if tgt is not None and (tgt in dom or tgt == bb):
            return "dominated by the `len() == %d` side of a length test on the same vector (bb%d)" % (b[1], d)
    return None


def closure_construction(db, cfn):
    """(parent fn, bb, ops exprs) where closure `cfn` is constructed"""
    parent_path = cfn.path.rsplit("::{closure#", 1)[0]
    for p in db.by_path.get(parent_path, []):
        for i, j, s in p.stmts():
            if s["k"] == "assign" and s["rv"]["k"] == "agg" and s["rv"]["a"]["k"] == "closure" and s["rv"]["a"]["path"] == cfn.path:
                return p, i, [fn_expr_operand(p, o) for o in s["rv"]["ops"]]
    return None


def discharge_index(db, fn, site):
    t = site.term
    need = index_need(fn, t["args"][1]) if len(t["args"]) > 1 else None
    if need is None:
        return None
    if need == 0:
        return "empty range"
    x = fn_expr_operand(fn, t["args"][0])
    if need == 1:
        r = guard_first_like(db, fn, site.bb, x)
        if r:
            return r
    r = guard_len_eq(db, fn, site.bb, x, need)
    if r:
        return r
    # closure: the guard may dominate the construction site of the closure in the parent
    if fn.kind == "Closure" and need == 1:
        rx, fpath = root(x)
        if rx[0] == "param" and rx[1] == 1 and fpath:
            cc = closure_construction(db, fn)
            if cc:
                p, pbb, ops = cc
                # which capture?  field index of the first projection
                idx = None
                pl = t["args"][0]
                e0 = None
                # find the first Field projection on _1 reached from the operand
                def find_capture(e):
                    nonlocal e0
                    if e[0] == "field" and e[1][0] == "param" and e[1][1] == 1:
                        e0 = e
                walk_expr(x, find_capture)
                if e0 is not None:
                    m = re.match(r"cap(\d+)$", e0[2])
                    if m and int(m.group(1)) < len(ops):
                        idx = int(m.group(1))
                    if idx is not None:
                        r = guard_first_like(db, p, pbb, ops[idx])
                        if r:
                            return "closure constructed where %s; captured `%s` is that slice" % (r, e0[3])
    return None


def discharge_indexed_by_position(db, fn, site):
    """`data[index]` where index is the payload of the Some arm of a local function that returns
    `iter().position(..)` over the same container"""
    t = site.term
    if len(t["args"]) < 2:
        return None
    idx = fn_expr_operand(fn, t["args"][1])
    x = fn_expr_operand(fn, t["args"][0])
    c, cpath = root(idx)
    # idx = ((call as Some).0)
    if c[0] != "call" or cpath != ("0",):
        return None
    # must be dominated by the Some arm of that very call
    ok = False
    for src, arm, d in dominating_option_guards(fn, site.bb):
        if arm == "1" and ekey(src) == ekey(c):
            ok = True
    if not ok:
        return None
    # callee: local fn returning Iterator::position over a field of self that is the indexed container
    fs = db.by_path.get(c[1], [])
    if len(fs) != 1:
        return None
    g = fs[0]
    xr, xpath = root(x)
    pls = ok_payloads(g)
    if not pls:
        return None
    for pl in pls:
        rr, rpath = root(pl)
        if not (rr[0] == "call" and rr[2]):
            return None
        if rr[1] == "std::iter::Iterator::position":
            inner = rr[2][0]
        elif rr[1] == "<std::iter::Enumerate<I> as std::iter::Iterator>::next" and rpath[-2:] == ("0", "0"):
            inner = rr[2][0]
            if not (inner[0] == "call" and inner[1] == "std::iter::Iterator::enumerate" and inner[2]):
                return None
            inner = inner[2][0]
        else:
            return None
        while inner[0] == "call" and inner[2]:
            inner = inner[2][0]
        ri, ipath = root(inner)
        if not (ri[0] == "param" and ri[1] == 1 and ipath and xpath and ipath[-1] == xpath[-1]):
            return None
    if c[2] and ekey(root(c[2][0])[0]) == ekey(xr):
        return "index is the Some payload of %s (an enumerate()/position() index over the same field `%s`)" % (c[1], xpath[-1])
    return None


def discharge_unwrap_const_utf8(db, mono, fn, site):
    t = site.term
    recv = fn_expr_operand(fn, t["args"][0])
    if not (recv[0] == "call" and recv[1] in ("std::str::from_utf8", "core::str::from_utf8", "std::str::converts::from_utf8", "core::str::converts::from_utf8")):
        return None
    leaves = expr_leaves(recv[2][0])
    if any(l[0] != "const" for l in leaves) or expr_calls(recv[2][0]):
        return None
    # every constant byte must be ASCII; const generic bytes are checked on every instantiation
    for l in leaves:
        if isinstance(l[1], int) and l[1] > 127:
            return None
    if mono is not None:
        for i in mono.by_dp.get(fn.dp, []):
            for m in re.finditer(r"(\d+)_u8", mono.nodes[i].get("args", "")):
                if int(m.group(1)) > 127:
                    return None
    return "from_utf8 of a constant all-ASCII byte array (const-generic bytes <= 127 in all %d instantiations)" % (len(mono.by_dp.get(fn.dp, [])) if mono else 0)


def discharge_constant_initializer(db, fn, site):
    """`<constructor>(constant..).unwrap()/expect()` inside the initialiser of a `static` (Lazy::new(|| ..)): every operand
    is a compile-time constant, so the outcome is the same on every run and independent of any input; it is exercised by
    any execution that touches the static, in particular by the pinned test suite."""
    if fn.kind != "Closure" or not fn.path.rsplit("::{closure", 1)[0] in {s_["path"] for s_ in db.statics}:
        return None
    recv = fn_expr_operand(fn, site.term["args"][0])
    if recv[0] != "call":
        return None
    leaves = []
    walk_expr(recv, lambda n: leaves.append(n) if n[0] in ("param", "undef", "cycle", "deep", "other", "field") else None)
    if leaves:
        return None
    consts = [l for l in expr_leaves(recv) if l[0] in ("const", "static")]
    return "input-independent: %s applied to %d compile-time constant(s) inside the initialiser of static %s" % (recv[1].rsplit("::", 2)[-2] + "::" + recv[1].rsplit("::", 1)[-1], len(consts), fn.path.rsplit("::{closure", 1)[0].rsplit("::", 1)[-1])


def _bound_ok(fn, e, depth=3):
    """is a slice bound a trusted offset: producer result, or find/char_indices result + 1, or const 0/1;
    results of local functions are followed into the callee's Ok(..) payloads"""
    r, path = root(e)
    if r[0] == "call" and depth > 0:
        gs = fn.db.by_path.get(r[1], [])
        if len(gs) == 1:
            from qv.engine import _field

            pl = ok_payloads(gs[0])
            if not pl:
                return False
            # path after the outermost `?`-payload: skip the '?' marker and the payload field '0'
            rest = list(path)
            while rest and rest[0] == "?":
                rest.pop(0)
            if rest and rest[0] == "0":
                rest.pop(0)
            for x in pl:
                for name in rest:
                    x = _field(x, name, None)
                if not _bound_ok(gs[0], x, depth - 1):
                    return False
            return True
    if r[0] == "const":
        return isinstance(r[1], int) and r[1] <= 1
    if r[0] == "bin" and r[1] in ("AddWithOverflow", "Add", "AddUnchecked"):
        a, b = r[2], r[3]
        if b[0] == "const" and b[1] == 1:
            ra, _ = root(a)
            return ra[0] == "call" and bool(OFFSET_PRODUCERS_PLUS1.search(ra[1]))
        return False
    if r[0] == "call":
        return bool(OFFSET_PRODUCERS.search(r[1]) or OFFSET_PRODUCERS_PLUS1.search(r[1]))
    if r[0] == "phi":
        return all(_bound_ok(fn, x, depth) for x in r[1])
    return False


def discharge_slice(db, fn, site):
    t = site.term
    if len(t["args"]) < 2:
        return None
    rng = fn_expr_operand(fn, t["args"][1])
    if rng[0] != "agg" or not rng[1].startswith("std::ops::Range"):
        return None
    for name, e in rng[3].items():
        if not _bound_ok(fn, e):
            return None
    return "byte offsets come only from trusted offset producers (lexical partial parse length, str::find / char_indices index (+1), constants 0/1)"


def discharge_add_small(db, fn, site):
    t = site.term
    if site.detail != "Overflow(Add)" or len(t.get("ops", [])) != 2:
        return None
    a = fn_expr_operand(fn, t["ops"][0])
    b = fn_expr_operand(fn, t["ops"][1])
    if a[0] == "const":
        a, b = b, a
    if not (b[0] == "const" and isinstance(b[1], int) and 0 <= b[1] <= 8):
        return None
    ra, _ = root(a)
    if ra[0] == "call" and LEN_LIKE.search(ra[1]):
        return "x + %d where x is a length/index of an in-memory str/slice (<= isize::MAX): cannot wrap usize" % b[1]
    return None


def discharge_incomplete_unreachable(db, fn, site, streaming_refs):
    """panic in the arm selected by nom::Err::Incomplete, with no streaming parser referenced in the crate"""
    if streaming_refs:
        return None
    dom = fn.dominators().get(site.bb, set())
    for d in dom:
        t = fn.blocks[d]["t"]
        if t["k"] != "switch":
            continue
        e = fn_expr_operand(fn, t["d"])
        if e[0] != "discr":
            continue
        # scrutinee type must be nom::Err
        pl = None
        for s in fn.blocks[d]["s"]:
            if s["k"] == "assign" and s["rv"]["k"] == "discr":
                pl = s["rv"]["p"]
        if pl is None:
            continue
        ty = fn.local_ty(pl["l"])
        if not (ty["k"] == "adt" and ty["path"] == "nom::Err"):
            continue
        # Incomplete is variant 0
        tgt = _zero_target(t)
        others = [bb for v, bb in t["ts"] if v != "0"]
        if tgt is not None and (tgt in dom or tgt == site.bb) and tgt not in others:
            return "only reachable for nom::Err::Incomplete, which complete-input combinators never produce; no nom streaming item is referenced anywhere in the crate"
    return None


def discharge_unwrap_always_some(db, fn, site):
    """`.unwrap()` on the result of a local function that constructs `Some(..)`/`Ok(..)` on every path"""
    t = site.term
    recv = fn_expr_operand(fn, t["args"][0])
    if recv[0] != "call":
        return None
    fs = db.by_path.get(recv[1], [])
    if len(fs) != 1:
        return None
    g = fs[0]
    good = ("Some", "Ok")
    n = 0
    for d in g.defs().get(0, []):
        if d[0] == "t":
            return None
        s = d[3]
        if s["k"] != "assign" or s["p"]["pr"]:
            return None
        rv = s["rv"]
        if not (rv["k"] == "agg" and rv["a"]["k"] == "adt" and rv["a"]["path"] in ("std::option::Option", "std::result::Result") and rv["a"]["variant"] in good):
            return None
        n += 1
    if n == 0:
        return None
    return "receiver is the result of %s, which constructs Some/Ok on all %d of its return paths" % (recv[1], n)


def discharge_sum_of_lens(db, fn, site, max_terms=8):
    """a + b where both are (sums of) `len()` results of in-memory collections: at most
    `max_terms` terms, each <= isize::MAX / size_of::<elem>() with non-zero-sized elements"""
    t = site.term
    if site.detail != "Overflow(Add)" or len(t.get("ops", [])) != 2:
        return None
    terms = []

    def collect(e):
        r, _ = root(e)
        if r[0] == "bin" and r[1] in ("AddWithOverflow", "Add"):
            return collect(r[2]) and collect(r[3])
        if r[0] == "call" and r[1].endswith("::len") :
            terms.append(r[1])
            return True
        return False

    for o in t["ops"]:
        if not collect(fn_expr_operand(fn, o)):
            return None
    if 2 <= len(terms) <= max_terms:
        return "sum of %d collection lengths (each bounded by isize::MAX / element size): cannot wrap usize" % len(terms)
    return None
