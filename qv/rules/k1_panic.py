"""K1 panic reachability: enumerate panic-capable sites in functions reachable from
a set of entry points (call graph of engine.DB.callgraph, over-approximating)."""
import re
from collections import defaultdict

from qv.engine import callee_of, callee_path

PANIC_ENTRY = re.compile(
    r"^(core|std)::(panicking::(panic|panic_fmt|panic_display|panic_explicit|panic_nounwind|panic_nounwind_fmt|panic_str_2015|"
    r"unreachable_display|assert_failed|assert_failed_inner|assert_matches_failed|panic_bounds_check|panic_const::.*|panic_misaligned_pointer_dereference|panic_null_pointer_dereference|panic_invalid_enum_construction)"
    r"|rt::(begin_panic|begin_panic_fmt|panic_fmt|panic_display)|option::(expect_failed|unwrap_failed)|result::unwrap_failed|process::(abort|exit)|intrinsics::abort)"
)

# external partial APIs: (regex on resolved callee path, label)
PARTIAL = [
    (r"^std::option::Option::<T>::(unwrap|expect|unwrap_unchecked)$", "Option::unwrap/expect"),
    (r"^std::result::Result::<T, E>::(unwrap|expect|unwrap_err|expect_err|unwrap_unchecked)$", "Result::unwrap/expect"),
    (r"ops::Index(Mut)?<.*>>?::index(_mut)?$", "Index::index"),
    (r"::index::<impl std::ops::Index(Mut)?<I> for (\[T\]|str)>::index(_mut)?$", "Index::index"),
    (r"^std::ops::Index(Mut)?::index(_mut)?$", "Index::index"),
    (r"^std::vec::Vec::<T, A>::(remove|insert|swap_remove|drain|split_off|truncate_front)$", "Vec partial op"),
    (r"^core::slice::<impl \[T\]>::(split_at|split_at_mut|copy_from_slice|clone_from_slice|swap|chunks|chunks_exact|windows|rotate_left|rotate_right|select_nth_unstable.*)$", "slice partial op"),
    (r"^core::str::<impl str>::(split_at|split_at_mut)$", "str::split_at"),
    (r"^std::string::String::(remove|insert|insert_str|drain|split_off|truncate|replace_range)$", "String partial op"),
    (r"^core::num::<impl [iu](8|16|32|64|128|size)>::(pow|abs|neg|div_euclid|rem_euclid|from_str_radix|next_power_of_two|ilog|ilog2|ilog10|isqrt)$", "integer partial op"),
    (r"^core::char::methods::<impl char>::(from_digit|to_digit)$", "char::from_digit/to_digit radix"),
    (r"^std::cell::RefCell::<T>::(borrow|borrow_mut)$", "RefCell::borrow"),
    (r"^std::iter::Iterator::step_by$", "Iterator::step_by"),
    (r"<nom_locate::LocatedSpan<T, X> as nom::Slice<R>>::slice$", "LocatedSpan byte-offset slice"),
    (r"^<(&str|str) as nom::Slice<.*>>::slice$", "str byte-offset slice"),
    (r"^std::time::Duration::(from_secs_f64|from_secs_f32|mul_f64|div_f64)$", "Duration arithmetic"),
    (r"<std::time::Duration as std::ops::(Add|Sub|Mul|Div).*>::", "Duration arithmetic"),
    (r"^std::hint::unreachable_unchecked$", "unreachable_unchecked"),
    (r"^std::sync::(Mutex|RwLock)::<T>::(lock|read|write)$", "lock (poison unwrap follows)"),
    (r"^ndarray::.*::(index|index_mut|slice|slice_mut|row|column|into_shape.*|dot)$", "ndarray partial op"),
    (r"^itertools::Itertools::(exactly_one|at_most_one)$", None),  # total: returns Result
    (r"^std::slice::<impl \[T\]>::(concat|join)$", None),
    (r"^std::iter::Iterator::(max_by|min_by|max_by_key|min_by_key)$", None),
]
PARTIAL = [(re.compile(r), l) for r, l in PARTIAL if l]


class Site:
    def __init__(self, fn, bb, kind, detail, sp, macros, term):
        self.fn = fn
        self.bb = bb
        self.kind = kind  # assert | panic | partial | recursion
        self.detail = detail
        self.sp = sp
        self.macros = macros
        self.term = term
        self.ordinal = 0

    @property
    def key(self):
        return "K1|%s|%s|%s#%d" % (self.fn.path, self.kind, self.detail, self.ordinal)

    @property
    def loc(self):
        return "%s:%d" % (self.fn.file, self.sp[0])


def sites_in(fn):
    out = []
    for bb, b in enumerate(fn.blocks):
        t = b["t"]
        if b.get("cleanup"):
            continue
        if t["k"] == "assert":
            out.append(Site(fn, bb, "assert", t["msg"], t["sp"], t.get("mac", []), t))
        elif t["k"] == "call":
            c = callee_of(t)
            if c is None:
                continue
            p = callee_path(c)
            if PANIC_ENTRY.match(p) or PANIC_ENTRY.match(c["path"]):
                macs = [m for m in t.get("mac", []) if m in ("todo", "unimplemented", "unreachable", "panic", "assert", "assert_eq", "assert_ne", "debug_assert", "debug_assert_eq", "debug_assert_ne")]
                label = macs[-1] if macs else p.rsplit("::", 1)[-1]
                out.append(Site(fn, bb, "panic", label, t["sp"], t.get("mac", []), t))
                continue
            for rx, label in PARTIAL:
                if rx.search(p) or rx.search(c["path"]):
                    out.append(Site(fn, bb, "partial", label, t["sp"], t.get("mac", []), t))
                    break
    # ordinals among identical (kind, detail) in source order
    groups = defaultdict(list)
    for s in out:
        groups[(s.kind, s.detail)].append(s)
    for g in groups.values():
        g.sort(key=lambda s: (s.sp[0], s.sp[1], s.bb))
        for i, s in enumerate(g):
            s.ordinal = i
    return out


def enumerate_sites(db, entry_dps):
    parent = db.reachable(entry_dps)
    sites = []
    for dp in parent:
        f = db.by_dp.get(dp)
        if f is None:
            continue
        sites += sites_in(f)
    return parent, sites
