"""Path-sensitive symbolic values for small, loop-free MIR bodies (no solver, nothing is executed).

`paths(f)` enumerates the acyclic entry->return paths over normal edges.  Along a path it keeps an environment
local -> origin expression (same vocabulary as engine.fn_expr_*, but flow-sensitive), follows switches whose
discriminant is known on that path (drop flags, known enum variants) and forks on the others, recording
(discriminant expression, taken values | 'else' with excluded values).  Result: [(conds, env, blocks)].

Used by rules of the form "on every path the returned value is X and the path condition contains the comparison that
justifies X" (min/max selections, guarded index arithmetic)."""
from qv.engine import callee_of, callee_path, TRANSPARENT_CALLS


class TooComplex(Exception):
    pass


def _get_field(e, name, idx):
    if e[0] == "agg" and name in e[3]:
        return e[3][name]
    if e[0] == "tuple":
        try:
            return e[1][int(name)]
        except (ValueError, IndexError):
            pass
    if e[0] == "upd":
        if e[2] == name:
            return e[3]
        return _get_field(e[1], name, idx)
    return ("field", e, name, None)


def _strip_clone(e):
    while e[0] == "call" and e[1] and (e[1].endswith("::clone")) and e[2]:
        e = e[2][0]
    return e


class Sym:
    def __init__(self, f):
        self.f = f

    def operand(self, env, op):
        k = op.get("k")
        if k is not None:
            if "static" in k:
                return ("static", k["static"])
            if "fn" in k:
                return ("fnconst", callee_path(k["fn"]))
            for key in ("int", "float", "str"):
                if key in k:
                    v = k[key]
                    if key == "int":
                        try:
                            v = int(v)
                        except ValueError:
                            pass
                    return ("const", v, self.f.db.types[k["t"]]["s"])
            return ("const", k["s"], self.f.db.types[k["t"]]["s"])
        p = op.get("c") or op.get("m")
        if p is None:
            return ("other", str(op))
        return self.place(env, p)

    def place(self, env, p):
        l = p["l"]
        if l in env:
            e = env[l]
        elif 1 <= l <= self.f.argc:
            e = ("param", l, self.f.local_name(l))
        else:
            e = ("undef", l)
        for pr in p["pr"]:
            if pr == "*":
                continue
            if "n" in pr:
                e = _get_field(e, pr["n"], pr.get("f"))
            elif "dc" in pr:
                e = e if (e[0] == "agg" and e[2] == pr["dc"]) else ("as", e, pr["dc"])
            else:
                e = ("proj", e, str(pr))
        return e

    def rvalue(self, env, rv):
        k = rv["k"]
        if k == "use":
            return self.operand(env, rv["o"])
        if k in ("ref", "rawptr", "copyderef"):
            return self.place(env, rv["p"])
        if k == "bin":
            return ("bin", rv["op"], self.operand(env, rv["a"]), self.operand(env, rv["b"]))
        if k == "un":
            return ("un", rv["op"], self.operand(env, rv["o"]))
        if k == "cast":
            return ("cast", rv["ck"], self.operand(env, rv["o"]), self.f.db.types[rv["t"]]["s"])
        if k == "discr":
            return ("discr", self.place(env, rv["p"]))
        if k == "agg":
            a = rv["a"]
            ops = [self.operand(env, o) for o in rv["ops"]]
            if a["k"] == "adt":
                return ("agg", a["path"], a["variant"], dict(zip(a["fields"], ops)), a.get("vi"))
            if a["k"] == "tuple":
                return ("tuple", ops)
            if a["k"] == "array":
                return ("array", ops)
            if a["k"] == "closure":
                return ("closure", a["path"], ops)
        return ("other", rv.get("s", k))

    def assign(self, env, p, val):
        l = p["l"]
        projs = [x for x in p["pr"] if x != "*"]
        if not projs:
            if p["pr"] == ["*"]:
                # store through a reference parameter: model as update of the pointee
                env[l] = val
            else:
                env[l] = val
            return
        if len(projs) == 1 and "n" in projs[0]:
            base = env.get(l, ("param", l, self.f.local_name(l)) if 1 <= l <= self.f.argc else ("undef", l))
            env[l] = ("upd", base, projs[0]["n"], val)
        else:
            env[l] = ("other", "deep store")


def paths(f, limit=512, transparent_clone=True):
    sym = Sym(f)
    out = []

    def go(bb, env, conds, seen):
        if len(out) > limit:
            raise TooComplex("more than %d paths" % limit)
        if bb in seen:
            raise TooComplex("loop at bb%d" % bb)
        seen = seen | {bb}
        env = dict(env)
        b = f.blocks[bb]
        for s in b["s"]:
            if s["k"] == "assign":
                sym.assign(env, s["p"], sym.rvalue(env, s["rv"]))
        t = b["t"]
        k = t["k"]
        if k == "return":
            out.append((conds, env, sorted(seen)))
            return
        if k == "call":
            c = callee_of(t)
            path = callee_path(c) if c else None
            args = [sym.operand(env, a) for a in t["args"]]
            if path and args and (TRANSPARENT_CALLS.search(path) or (transparent_clone and path.endswith("::clone"))):
                val = args[0]
            else:
                val = ("call", path, args, bb)
            sym.assign(env, t["dest"], val)
            if t.get("t") is None:
                return
            go(t["t"], env, conds, seen)
            return
        if k == "switch":
            e = sym.operand(env, t["d"])
            neg = False
            while e[0] == "un" and e[1] == "Not":
                neg = not neg
                e = e[2]
            known = None
            if e[0] == "const" and isinstance(e[1], int):
                known = e[1]
            elif e[0] == "const" and e[1] in ("true", "false"):
                known = 1 if e[1] == "true" else 0
            elif e[0] == "discr" and e[1][0] == "agg" and len(e[1]) > 4 and e[1][4] is not None:
                known = e[1][4]
            if known is not None:
                if neg:
                    known = 1 - known
                for v, tgt in t["ts"]:
                    if int(v) == known:
                        go(tgt, env, conds, seen)
                        return
                go(t["else"], env, conds, seen)
                return
            vals = []
            for v, tgt in t["ts"]:
                v = int(v)
                vals.append(v)
                go(tgt, env, conds + [(e, "in", frozenset([1 - v if neg else v]))], seen)
            go(t["else"], env, conds + [(e, "notin", frozenset((1 - v if neg else v) for v in vals))], seen)
            return
        succ = f.succs(bb)
        if not succ:
            return
        if len(succ) != 1:
            raise TooComplex("terminator %s" % k)
        go(succ[0], env, conds, seen)

    go(0, {}, [], frozenset())
    return out


def truth_of(cond):
    """(expr, op, vals) of a boolean discriminant -> True/False/None"""
    e, op, vals = cond
    if op == "in":
        return None if len(vals) != 1 else (list(vals)[0] != 0)
    if vals == frozenset([0]):
        return True
    if vals == frozenset([1]):
        return False
    return None


def implies_le(conds, a, b, same):
    """does the path condition contain a comparison establishing a <= b (syntactically, no transitivity)?"""
    if same(a, b):
        return True
    for c in conds:
        e = c[0]
        tv = truth_of(c)
        if tv is None:
            continue
        if e[0] == "call" and e[1] and e[1].rsplit("::", 1)[-1] in ("lt", "le", "gt", "ge") and len(e[2]) == 2:
            op, x, y = e[1].rsplit("::", 1)[-1], e[2][0], e[2][1]
        elif e[0] == "bin" and e[1] in ("Lt", "Le", "Gt", "Ge"):
            op, x, y = e[1].lower(), e[2], e[3]
        else:
            continue
        x, y = _strip_clone(x), _strip_clone(y)
        # normalise to a statement  p <= q  or p < q
        if op in ("lt", "le"):
            stmt = (x, y) if tv else (y, x)      # !(x < y) => y <= x ; !(x <= y) => y < x
        else:
            stmt = (y, x) if tv else (x, y)      # x > y => y < x ; !(x > y) => x <= y
        if same(stmt[0], a) and same(stmt[1], b):
            return True
    return False
