"""K9 rule-table soundness by algebra.

Interprets the arms of the simplifier's `match (left.as_ref(), operator, right.as_ref())`
(qsyn syntax tree) symbolically: pattern -> lhs term over fresh symbols, guard -> assumptions,
arm body -> finite set of candidate result terms; sympy decides lhs == candidate.
Nothing of quil-rs is executed."""
import itertools

import sympy as sp

from qv.synq import src, unparen

OPS = ["Plus", "Minus", "Star", "Slash", "Caret"]


def apply_op(op, a, b):
    if op == "Plus":
        return a + b
    if op == "Minus":
        return a - b
    if op == "Star":
        return a * b
    if op == "Slash":
        return a / b
    if op == "Caret":
        return a**b
    raise Undecided("operator " + str(op))


class Undecided(Exception):
    pass


class Vacuous(Exception):
    pass


def last(path):
    return path.split("::")[-1]


class Env:
    def __init__(self):
        self.vals = {}  # name -> sympy term | ('op', name)
        self.ops = {}  # operator variable name -> op string
        self.shapes = {}  # name -> {"op": op, "left": sym, "right": sym} for names refined to an infix shape
        self.helper = {}  # (helper name, arg names) -> dict(name index -> sympy term) of the tuple it returned
        self.n = 0

    def fresh(self, hint):
        self.n += 1
        return sp.Symbol("%s_%d" % (hint, self.n))

    def copy(self):
        e = Env()
        e.vals = dict(self.vals)
        e.ops = dict(self.ops)
        e.shapes = dict(self.shapes)
        e.helper = dict(self.helper)
        e.n = self.n
        return e

    def substitute(self, subs):
        """apply a {symbol: term} substitution to every bound value"""
        if not subs:
            return
        for n, v in list(self.vals.items()):
            if n != "__numbers__":
                self.vals[n] = sp.sympify(v).subs(subs)
        for n, sh in list(self.shapes.items()):
            self.shapes[n] = dict(sh, left=sp.sympify(sh["left"]).subs(subs), right=sp.sympify(sh["right"]).subs(subs))
        for k_, tup in list(self.helper.items()):
            self.helper[k_] = [sp.sympify(x).subs(subs) for x in tup]


def pat_alternatives(p):
    """expand or-patterns into a list of alternative patterns (top level and nested)"""
    p = p if p.get("k") != "paren" else p["p"]
    k = p["k"]
    if k == "or":
        out = []
        for x in p["ps"]:
            out += pat_alternatives(x)
        return out
    if k == "tuple":
        alts = [pat_alternatives(x) for x in p["ps"]]
        return [dict(p, ps=list(c)) for c in itertools.product(*alts)]
    if k == "tstruct":
        alts = [pat_alternatives(x) for x in p["ps"]]
        return [dict(p, ps=list(c)) for c in itertools.product(*alts)]
    if k == "struct":
        alts = [[dict(f, p=a) for a in pat_alternatives(f["p"])] for f in p["fields"]]
        return [dict(p, fields=list(c)) for c in itertools.product(*alts)]
    if k == "ref":
        return [dict(p, p=a) for a in pat_alternatives(p["p"])]
    return [p]


def op_pattern_choices(p):
    """operator pattern -> list of (op, bind_name|None)"""
    k = p["k"]
    if k == "wild":
        return [(o, None) for o in OPS]
    if k == "path":
        return [(last(p["p"]), None)]
    if k == "ident":
        if p.get("sub"):
            return [(o, p["name"]) for o, _ in op_pattern_choices(p["sub"])]
        return [(o, p["name"]) for o in OPS]
    if k == "or":
        out = []
        for x in p["ps"]:
            out += op_pattern_choices(x)
        return out
    raise Undecided("operator pattern " + k)


def bind_expr_pattern(p, env, hint):
    """Expression pattern -> list of (term, env) alternatives (operator bindings enumerate)"""
    k = p["k"]
    if k == "ref":
        return bind_expr_pattern(p["p"], env, hint)
    if k == "wild":
        return [(env.fresh(hint), env)]
    if k == "ident" and not p.get("sub"):
        e = env.copy()
        t = e.fresh(p["name"])
        e.vals[p["name"]] = t
        return [(t, e)]
    if k == "tstruct":
        ctor = last(p["path"])
        if ctor == "Number":
            e = env.copy()
            inner = p["ps"][0]
            name = inner["name"] if inner["k"] == "ident" else None
            t = e.fresh(name or "num")
            if name:
                e.vals[name] = t
            e.vals.setdefault("__numbers__", set())
            e.vals["__numbers__"] = set(e.vals["__numbers__"]) | {t}
            return [(t, e)]
        if ctor in ("Prefix", "Infix", "FunctionCall"):
            return bind_expr_pattern(p["ps"][0], env, hint)
        if ctor in ("Address", "Variable"):
            return [(env.fresh(hint), env)]
        if ctor == "PiConstant":
            return [(sp.pi, env)]
        raise Undecided("constructor pattern " + p["path"])
    if k == "struct":
        name = last(p["path"])
        flds = {f["n"]: f["p"] for f in p["fields"]}
        if name == "PrefixExpression":
            opp = flds.get("operator")
            if opp is None or opp["k"] != "path":
                raise Undecided("prefix operator pattern")
            sign = -1 if last(opp["p"]) == "Minus" else 1
            out = []
            for t, e in bind_expr_pattern(flds["expression"], env, "e"):
                out.append((sign * t, e))
            return out
        if name == "InfixExpression":
            out = []
            for lt, e1 in bind_expr_pattern(flds["left"], env, "a"):
                for rt, e2 in bind_expr_pattern(flds["right"], e1, "b"):
                    for op, bind in op_pattern_choices(flds["operator"]):
                        e3 = e2.copy()
                        if bind:
                            e3.ops[bind] = op
                        out.append((apply_op(op, lt, rt), e3))
            return out
        raise Undecided("struct pattern " + p["path"])
    if k == "path" and last(p["p"]) == "PiConstant":
        return [(sp.pi, env)]
    raise Undecided("pattern kind " + k)


def strip(e):
    """remove .clone(), .as_ref(), &, *, parens"""
    while True:
        e = unparen(e)
        k = e.get("k")
        if k == "mcall" and e["m"] in ("clone", "as_ref", "to_owned", "into") and not e["args"]:
            e = e["recv"]
        elif k == "ref":
            e = e["e"]
        elif k == "un" and e["op"] == "*":
            e = e["e"]
        else:
            return e


CONSTS = {"ZERO": 0, "ONE": 1, "TWO": 2, "PI": sp.pi}


def eval_op(e, env):
    e = strip(e)
    k = e["k"]
    if k == "path":
        n = last(e["p"])
        if n in OPS and "InfixOperator" in e["p"]:
            return n
        if e["p"] in env.ops:
            return env.ops[e["p"]]
        raise Undecided("operator value " + e["p"])
    if k == "if":
        c = eval_cond(e["c"], env)
        return eval_op(block_value(e["t"] if c else e["f"], env)[0], env) if False else eval_op_block(e["t"] if c else e["f"], env)
    if k == "match":
        scrut = eval_op(e["e"], env)
        for arm in e["arms"]:
            p = arm["pat"]
            if p["k"] == "path" and last(p["p"]) == scrut:
                return eval_op_block(arm["body"], env)
            if p["k"] == "wild":
                return eval_op_block(arm["body"], env)
            if p["k"] == "or" and any(x["k"] == "path" and last(x["p"]) == scrut for x in p["ps"]):
                return eval_op_block(arm["body"], env)
        raise Undecided("operator match")
    if k == "block":
        return eval_op_block(e, env)
    raise Undecided("operator expr " + k)


def eval_op_block(b, env):
    b = strip(b)
    if b.get("k") == "block":
        stmts = b["stmts"]
        if len(stmts) == 1 and stmts[0]["k"] == "expr":
            return eval_op(stmts[0]["e"], env)
        raise Undecided("operator block")
    return eval_op(b, env)


def eval_cond(c, env):
    c = strip(c)
    if c["k"] == "bin" and c["op"] in ("==", "!="):
        try:
            l = eval_op(c["l"], env)
            r = eval_op(c["r"], env)
            return (l == r) if c["op"] == "==" else (l != r)
        except Undecided:
            pass
    raise Undecided("condition " + src(c))


def eval_num(e, env):
    """numeric (Complex64) expression"""
    e = strip(e)
    k = e["k"]
    if k == "path":
        if e["p"] in CONSTS:
            return CONSTS[e["p"]]
        if e["p"] in env.vals:
            return env.vals[e["p"]]
        raise Undecided("number " + e["p"])
    if k == "un" and e["op"] == "-":
        return -eval_num(e["e"], env)
    if k == "lit":
        return sp.nsimplify(e["v"])
    if k == "macro" and last(e["name"]) == "real":
        raw = e.get("raw", "")
        if "NAN" in raw:
            raise Vacuous("NaN result (lhs is not finite)")
        a = e.get("args") or []
        if a:
            return eval_num(a[0], env)
    if k == "call":
        f = src(e["f"])
        if last(f) == "calculate_function":
            fn_ = env.vals.get("__function__")
            if fn_ is None or src(strip(e["args"][0])) != "function":
                raise Undecided("calculate_function with unknown function")
            return fn_(eval_num(e["args"][1], env))
        if last(f) == "calculate_infix":
            return apply_op(eval_op(e["args"][1], env), eval_num(e["args"][0], env), eval_num(e["args"][2], env))
    if k == "bin":
        opmap = {"+": "Plus", "-": "Minus", "*": "Star", "/": "Slash"}
        if e["op"] in opmap:
            return apply_op(opmap[e["op"]], eval_num(e["l"], env), eval_num(e["r"], env))
    raise Undecided("numeric expr " + src(e))


def eval_expr(e, env):
    """Expression-valued Rust expression -> set of candidate sympy terms"""
    e = strip(e)
    k = e["k"]
    if k == "path":
        if e["p"] in env.vals:
            return {env.vals[e["p"]]}
        raise Undecided("unbound " + e["p"])
    if k == "block":
        return block_value(e, env)
    if k == "call":
        f = src(e["f"])
        n = last(f)
        if f.startswith("interned::") or "::interned::" in f:
            a = e["args"]
            if n == "number":
                return {eval_num(a[0], env)}
            if n == "neg":
                return {-x for x in eval_expr(a[0], env)}
            if n in ("add", "sub", "mul", "div"):
                op = {"add": "Plus", "sub": "Minus", "mul": "Star", "div": "Slash"}[n]
                return {apply_op(op, x, y) for x in eval_expr(a[0], env) for y in eval_expr(a[1], env)}
            if n == "infix":
                op = eval_op(a[1], env)
                return {apply_op(op, x, y) for x in eval_expr(a[0], env) for y in eval_expr(a[2], env)}
            if n == "function_call":
                fn_ = env.vals.get("__function__")
                if fn_ is None or src(strip(a[0])) != "function":
                    raise Undecided("function_call with unknown function")
                return {fn_(x) for x in eval_expr(a[1], env)}
        raise Undecided("call " + f)
    if k == "mcall":
        recv = src(strip(e["recv"]))
        if recv == "self" and e["m"] == "simplify":
            return eval_expr(e["args"][0], env)  # induction hypothesis: value preserving
        if recv == "self" and e["m"] == "smaller":
            return eval_expr(e["args"][0], env) | eval_expr(e["args"][1], env)
        raise Undecided("method " + e["m"])
    raise Undecided("expr " + src(e))


def block_value(b, env):
    env = env.copy()
    stmts = b["stmts"]
    for st in stmts[:-1]:
        if st["k"] == "local":
            p = st["pat"]
            init = strip(st["init"]) if st.get("init") else None
            if p["k"] != "ident" and init is not None and init.get("k") == "path" and init["p"] in env.vals and p.get("k") in ("tstruct", "ref"):
                # let Expression::Infix(..) = name.as_ref() else { unreachable }
                env = refine_infix(env, init["p"], p)
                continue
            if p["k"] == "tuple" and init is not None and init.get("k") == "if":
                names = [x["name"] for x in p["ps"] if x.get("k") == "ident"]
                if len(names) != len(p["ps"]):
                    raise Undecided("tuple let pattern")
                chosen = None
                for cond, tail_e in if_chain(init):
                    if cond is None or sp.simplify(sp.sympify(env.vals[cond[0]]) - sp.sympify(env.vals[cond[1]])) == 0:
                        chosen = tail_e
                        break
                vals_ = [env.vals[n] for n in _tuple_names(chosen)]
                for n, v in zip(names, vals_):
                    env.vals[n] = v
                continue
            if p["k"] == "tstruct" and last(p["path"]) == "Some" and init is not None and init.get("k") == "call":
                hname = last(src(init["f"]))
                args = tuple(strip(a)["p"] for a in init["args"] if strip(a).get("k") == "path")
                tup = env.helper.get((hname, args))
                inner = p["ps"][0] if p["ps"] else None
                if tup is None or inner is None or inner.get("k") != "tuple" or len(inner["ps"]) != len(tup):
                    raise Undecided("let Some(..) = helper")
                for x, v in zip(inner["ps"], tup):
                    if x.get("k") != "ident":
                        raise Undecided("let Some pattern")
                    env.vals[x["name"]] = v
                continue
            if p["k"] != "ident":
                raise Undecided("let pattern")
            name = p["name"]
            try:
                v = eval_expr(st["init"], env)
                if len(v) != 1:
                    raise Undecided("ambiguous let")
                env.vals[name] = next(iter(v))
            except Undecided:
                env.ops[name] = eval_op(st["init"], env)
        else:
            raise Undecided("statement " + st["k"])
    lastst = stmts[-1]
    if lastst["k"] != "expr":
        raise Undecided("block tail")
    return eval_expr_in(lastst["e"], env)


def eval_expr_in(e, env):
    return eval_expr(e, env)


HELPERS = {}  # name -> qsyn fn (set by the property module): local boolean / Option-returning guard helpers


def refine_infix(env, name, pat):
    """`name` is bound to an atomic symbol; refine it to the infix shape described by `pat`
    (Expression::Infix(InfixExpression { left: l, operator: <path>, right: r })) -> new env"""
    p = pat
    while p.get("k") == "ref":
        p = p["p"]
    if not (p.get("k") == "tstruct" and last(p["path"]) == "Infix" and p["ps"] and p["ps"][0].get("k") == "struct"):
        raise Undecided("refinement pattern " + src(pat))
    flds = {f["n"]: f["p"] for f in p["ps"][0]["fields"]}
    opp = flds.get("operator")
    if opp is None or opp.get("k") != "path":
        raise Undecided("refinement operator pattern")
    op = last(opp["p"])
    e = env.copy()
    if name in e.shapes:
        sh = e.shapes[name]
        if sh["op"] != op:
            raise Vacuous("shape mismatch")
        lt, rt = sh["left"], sh["right"]
    else:
        old = e.vals.get(name)
        if not isinstance(old, sp.Symbol):
            raise Undecided("refining a non-atomic value " + name)
        lt, rt = e.fresh(name + "_l"), e.fresh(name + "_r")
        e.substitute({old: apply_op(op, lt, rt)})
        e.vals[name] = apply_op(op, lt, rt)
        e.shapes[name] = {"op": op, "left": lt, "right": rt}
    for side, t in (("left", lt), ("right", rt)):
        fp = flds.get(side)
        if fp is None or fp.get("k") == "wild":
            continue
        if fp.get("k") == "ident" and not fp.get("sub"):
            e.vals[fp["name"]] = t
        else:
            raise Undecided("nested refinement pattern")
    return e


def _eq_pairs(cond):
    """`a == b || c == d ...` -> [(a, b), ..] of path names"""
    c = strip(cond)
    if c.get("k") == "bin" and c["op"] == "||":
        return _eq_pairs(c["l"]) + _eq_pairs(c["r"])
    if c.get("k") == "bin" and c["op"] == "==" and strip(c["l"]).get("k") == "path" and strip(c["r"]).get("k") == "path":
        return [(strip(c["l"])["p"], strip(c["r"])["p"])]
    raise Undecided("helper condition " + src(cond))


def _tuple_names(e):
    e = strip(e)
    if e.get("k") == "call" and last(src(e["f"])) == "Some" and e["args"]:
        e = strip(e["args"][0])
    if e.get("k") == "tuple":
        out = []
        for x in e["es"]:
            x = strip(x)
            if x.get("k") != "path":
                raise Undecided("tuple element " + src(x))
            out.append(x["p"])
        return out
    raise Undecided("tuple value " + src(e))


def if_chain(e):
    """if a == b { T1 } else if c == d { T2 } else { Tn } -> [((a, b) | None, tail-expr)]"""
    out = []
    cur = strip(e)
    while cur.get("k") == "if":
        pairs = _eq_pairs(cur["c"])
        if len(pairs) != 1:
            raise Undecided("if-chain condition")
        t = cur["t"]
        tail = t["stmts"][-1]["e"] if t.get("k") == "block" and t["stmts"] and t["stmts"][-1]["k"] == "expr" else t
        out.append((pairs[0], tail))
        f = cur.get("f")
        if f is None:
            raise Undecided("if without else")
        f = strip(f)
        if f.get("k") == "block" and len(f["stmts"]) == 1 and f["stmts"][0]["k"] == "expr":
            f = strip(f["stmts"][0]["e"])
        cur = f
    out.append((None, cur))
    return out


def inline_helper(call, env):
    """guard `h(a, b)` / `h(a, b).is_some()` with h a local helper of the form
         match (p.as_ref(), q.as_ref()) { (PAT1, PAT2) => BODY, _ => false | None }
       -> list of (subs, env) alternatives, one per way BODY can be true / Some"""
    c = strip(call)
    if c.get("k") == "mcall" and c["m"] == "is_some" and not c["args"]:
        c = strip(c["recv"])
    if c.get("k") != "call":
        raise Undecided("guard " + src(call))
    hname = last(src(c["f"]))
    h = HELPERS.get(hname)
    if h is None:
        raise Undecided("guard " + src(call))
    args = []
    for a in c["args"]:
        a = strip(a)
        if a.get("k") != "path" or a["p"] not in env.vals:
            raise Undecided("helper argument " + src(a))
        args.append(a["p"])
    params = [p_["name"] for p_ in h["params"] if p_.get("name") and p_["name"] != "self"]
    if len(params) != len(args):
        raise Undecided("helper arity")
    tail = h["body"]["stmts"][-1]
    m = strip(tail["e"]) if tail["k"] == "expr" else None
    if not m or m.get("k") != "match":
        raise Undecided("helper body")
    scr = strip(m["e"])
    if scr.get("k") != "tuple":
        raise Undecided("helper scrutinee")
    scr_names = []
    for x in scr["es"]:
        x = strip(x)
        if x.get("k") != "path" or x["p"] not in params:
            raise Undecided("helper scrutinee element")
        scr_names.append(args[params.index(x["p"])])
    arm = m["arms"][0]
    pat = arm["pat"]
    if pat.get("k") != "tuple" or len(pat["ps"]) != len(scr_names):
        raise Undecided("helper arm pattern")
    e = env.copy()
    # helper-local names must not clash with the caller's: they are bound under a prefix and aliased afterwards
    saved = dict(e.vals)
    for name, p_ in zip(scr_names, pat["ps"]):
        e = refine_infix(e, name, p_)
    body = arm["body"]
    body = strip(body["stmts"][-1]["e"]) if body.get("k") == "block" and body["stmts"] and body["stmts"][-1]["k"] == "expr" else strip(body)
    alts = []
    if body.get("k") == "if":
        for cond, tail_e in if_chain(body):
            if cond is None:
                te = strip(tail_e)
                if te.get("k") == "path" and last(te["p"]) == "None":
                    continue
                raise Undecided("helper else branch")
            e2 = e.copy()
            a_, b_ = e2.vals[cond[0]], e2.vals[cond[1]]
            subs = {b_: a_}
            e2.substitute(subs)
            e2.helper[(hname, tuple(args))] = [e2.vals[n] for n in _tuple_names(tail_e)]
            alts.append((subs, e2))
    else:
        for a_n, b_n in _eq_pairs(body):
            e2 = e.copy()
            a_, b_ = e2.vals[a_n], e2.vals[b_n]
            subs = {b_: a_}
            e2.substitute(subs)
            alts.append((subs, e2))
    # drop the helper's own local names again (the caller re-destructures); keep shapes
    for _, e2 in alts:
        for n in list(e2.vals):
            if n not in saved and n != "__numbers__":
                del e2.vals[n]
    return alts


def apply_guard(g, env, names):
    """returns (substitutions {sym: value}, keep: bool)"""
    subs = {}
    g = strip(g)

    def sym_of(x):
        x = strip(x)
        if x["k"] == "path" and x["p"] in env.vals:
            return env.vals[x["p"]]
        raise Undecided("guard operand " + src(x))

    if g["k"] == "call" and last(src(g["f"])) in ("is_zero", "is_one"):
        v = sym_of(g["args"][0])
        subs[v] = 0 if last(src(g["f"])) == "is_zero" else 1
        return subs, True
    if g["k"] == "bin" and g["op"] == "==":
        # operator comparison?
        try:
            l = eval_op(g["l"], env)
            r = eval_op(g["r"], env)
            return subs, l == r
        except Undecided:
            pass
        a, b = sym_of(g["l"]), sym_of(g["r"])
        subs[b] = a
        return subs, True
    raise Undecided("guard " + src(g))


def instances(arm, scrut_names=("left", "operator", "right")):
    """yield (label, lhs, candidates) or (label, None, reason) for every operator instance of a match arm"""
    for alt_i, pat in enumerate(pat_alternatives(arm["pat"])):
        if pat["k"] != "tuple" or len(pat["ps"]) != 3:
            yield ("alt%d" % alt_i, None, "undecided: not a (left, operator, right) pattern")
            continue
        pl, pop, pr = pat["ps"]
        try:
            base = Env()
            lefts = bind_expr_pattern(pl, base, "L")
        except Undecided as u:
            yield ("alt%d" % alt_i, None, "undecided: %s" % u)
            continue
        for lt, e1 in lefts:
            try:
                rights = bind_expr_pattern(pr, e1, "R")
                opchoices = op_pattern_choices(pop)
            except Undecided as u:
                yield ("alt%d" % alt_i, None, "undecided: %s" % u)
                continue
            for rt, e2 in rights:
                for op, bind in opchoices:
                    env = e2.copy()
                    env.ops["operator"] = op
                    if bind:
                        env.ops[bind] = op
                    env.vals["left"] = lt
                    env.vals["right"] = rt
                    label = "alt%d:%s%s" % (alt_i, op, "".join(":%s=%s" % kv for kv in sorted(env.ops.items()) if kv[0] != "operator"))
                    try:
                        alts = [({}, env)]
                        if arm.get("guard"):
                            try:
                                subs, keep = apply_guard(arm["guard"], env, None)
                                if not keep:
                                    continue
                                env.substitute(subs)
                                alts = [(subs, env)]
                            except Undecided:
                                alts = inline_helper(arm["guard"], env)  # one alternative per way the helper can succeed
                    except Vacuous as v:
                        yield (label, None, "vacuous: %s" % v)
                        continue
                    except Undecided as u:
                        yield (label, None, "undecided: %s" % u)
                        continue
                    for ai, (subs, env_a) in enumerate(alts):
                        lab = label if len(alts) == 1 else "%s|case%d" % (label, ai)
                        try:
                            lhs = apply_op(op, env_a.vals["left"], env_a.vals["right"])
                            cands = eval_expr_in(arm["body"], env_a)
                            yield (lab, lhs, cands)
                        except Vacuous as v:
                            yield (lab, None, "vacuous: %s" % v)
                        except Undecided as u:
                            yield (lab, None, "undecided: %s" % u)


def equal(a, b):
    """decide a == b as an identity of complex rational functions / powers"""
    a = sp.sympify(a)
    b = sp.sympify(b)
    if a.has(sp.zoo) or a.has(sp.nan) or a.has(sp.oo):
        return "vacuous"
    d = a - b
    if d == 0:
        return True
    try:
        if sp.simplify(d) == 0:
            return True
        if sp.cancel(sp.together(sp.expand(d))) == 0:
            return True
    except Exception:  # noqa: BLE001
        return False
    return False


FUNCTIONS = {
    "Sine": sp.sin,
    "Cosine": sp.cos,
    "Exponent": sp.exp,
    "SquareRoot": sp.sqrt,
    "Cis": lambda x: sp.exp(sp.I * x),
}


def function_call_instances(sf):
    """instances (label, lhs, candidates|reason) of simplify_function_call: the tail expression is
    `if let PAT = expression.as_ref() { A } else { B }` or `match (function, expression.as_ref()) { arms }`
    or `match expression.as_ref() { arms }`"""
    from qv.synq import find_all

    body = sf["body"]
    tail = body["stmts"][-1]["e"] if body["stmts"] and body["stmts"][-1]["k"] == "expr" else None
    if tail is None:
        yield ("shape", None, "undecided: no tail expression")
        return
    tail = unparen(tail)
    arms = []
    if tail["k"] == "if" and unparen(tail["c"])["k"] == "let":
        let = unparen(tail["c"])
        arms.append({"fpat": {"k": "wild"}, "epat": let["pat"], "guard": None, "body": tail["t"], "ln": tail.get("ln", 0)})
        arms.append({"fpat": {"k": "wild"}, "epat": {"k": "wild"}, "guard": None, "body": tail["f"], "ln": tail.get("ln", 0)})
    elif tail["k"] == "match":
        scr = src(tail["e"]).replace(" ", "")
        for a in tail["arms"]:
            for pat in pat_alternatives(a["pat"]):
                if scr.startswith("(function,") and pat["k"] == "tuple" and len(pat["ps"]) == 2:
                    arms.append({"fpat": pat["ps"][0], "epat": pat["ps"][1], "guard": a.get("guard"), "body": a["body"], "ln": a["ln"]})
                elif scr.startswith("expression"):
                    arms.append({"fpat": {"k": "wild"}, "epat": pat, "guard": a.get("guard"), "body": a["body"], "ln": a["ln"]})
                elif pat["k"] == "wild":
                    arms.append({"fpat": {"k": "wild"}, "epat": {"k": "wild"}, "guard": a.get("guard"), "body": a["body"], "ln": a["ln"]})
                else:
                    yield ("arm@%d" % a["ln"], None, "undecided: scrutinee/pattern shape")
    else:
        yield ("shape", None, "undecided: tail is %s" % tail["k"])
        return
    for i, arm in enumerate(arms):
        fp = arm["fpat"]
        if fp["k"] == "wild" or (fp["k"] == "ident" and not fp.get("sub")):
            fnames = list(FUNCTIONS)
        elif fp["k"] == "path" and last(fp["p"]) in FUNCTIONS:
            fnames = [last(fp["p"])]
        else:
            yield ("arm%d" % i, None, "undecided: function pattern")
            continue
        for fname in fnames:
            label = "arm%d:%s" % (i, fname)
            try:
                for term, env in bind_expr_pattern(arm["epat"], Env(), "E"):
                    env = env.copy()
                    env.vals["__function__"] = FUNCTIONS[fname]
                    env.vals["expression"] = term
                    if arm["guard"]:
                        subs, keep = apply_guard(arm["guard"], env, None)
                        if not keep:
                            continue
                        if subs:
                            for n, v in list(env.vals.items()):
                                if n not in ("__numbers__", "__function__"):
                                    env.vals[n] = sp.sympify(v).subs(subs)
                    lhs = FUNCTIONS[fname](env.vals["expression"])
                    yield (label, lhs, eval_expr(arm["body"], env), arm["ln"])
            except Vacuous as v:
                yield (label, None, "vacuous: %s" % v)
            except Undecided as u:
                yield (label, None, "undecided: %s" % u)
