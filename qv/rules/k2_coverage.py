"""K2 type-directed coverage: which variants/fields of an enum hold a value of type T,
and does a traversal function read them in an explicit arm?"""
from qv.engine import fn_expr_place, fn_expr_operand
from qv.props.common import in_span


_PREDS = {}


def is_adt(path):
    """memoised predicate (DB.ty_contains caches per predicate object, so the object must be stable)"""
    if path not in _PREDS:
        _PREDS[path] = lambda t, path=path: t["k"] == "adt" and t["path"] == path
    return _PREDS[path]


def leaf_paths(db, ti, pred, _depth=0, _seen=None):
    """field-name paths (through local *structs* only) from type `ti` to the places that hold a T.
    () means: this type itself is / wraps T (or is an enum / collection containing T)."""
    seen = _seen or set()
    t = db.types[ti]
    if not db.ty_contains(ti, pred):
        return []
    if pred(t):
        return [()]
    if t["k"] == "adt" and t["path"] in db.adts and db.adts[t["path"]]["kind"] == "Struct" and ti not in seen and _depth < 6:
        out = []
        for f in db.adts[t["path"]]["variants"][0]["fields"]:
            for p in leaf_paths(db, f["t"], pred, _depth + 1, seen | {ti}):
                out.append((f["n"],) + p)
        return out
    if t["k"] == "ref":
        return leaf_paths(db, t["t"], pred, _depth, seen)
    return [()]


def variants_holding(db, enum_path, pred):
    """variant name -> list of required leaf paths (first element = payload field name, e.g. '0')"""
    adt = db.adts[enum_path]
    out = {}
    for v in adt["variants"]:
        req = []
        for f in v["fields"]:
            for p in leaf_paths(db, f["t"], pred):
                req.append((f["n"],) + p)
        if req:
            out[v["n"]] = req
    return out


def expr_paths(e, _depth=0):
    """all flattened field/as chains rooted at a parameter that expression `e` may denote
    (phi nodes fan out): list of (param idx, ('as:V', 'f', ...))"""
    names = []
    while True:
        if e[0] == "field":
            names.append(e[2])
            e = e[1]
        elif e[0] == "as":
            names.append("as:" + e[2])
            e = e[1]
        elif e[0] in ("cindex", "index"):
            e = e[1]
        elif e[0] == "phi" and _depth < 4:
            out = []
            for x in e[1]:
                for r in expr_paths(x, _depth + 1):
                    out.append((r[0], r[1] + tuple(reversed(names))))
            return out
        elif e[0] == "call" and e[2] and _passthrough(e[1]):
            e = e[2][0]
        else:
            break
    if e[0] == "param":
        return [(e[1], tuple(reversed(names)))]
    return []


def expr_path(e):
    r = expr_paths(e)
    return r[0] if r else None


def _passthrough(path):
    return (
        path.endswith("::iter") or path.endswith("::iter_mut") or path.endswith("as_ref") or path.endswith("as_mut") or path.endswith("::as_deref")
        or path.endswith("as std::iter::Iterator>::next") or path.endswith("::values") or path.endswith("::keys") or path.endswith("::as_str")
    )


def places_in(fn):
    """yield (span, place) for every place mentioned in fn (statements and terminators)"""
    for i, b in enumerate(fn.blocks):
        for s in b["s"]:
            if s["k"] != "assign":
                continue
            rv = s["rv"]
            ps = []
            if rv["k"] in ("ref", "rawptr", "discr", "copyderef"):
                ps.append(rv["p"])
            for o in fn.rvalue_operands(rv):
                p = o.get("c") or o.get("m")
                if p:
                    ps.append(p)
            ps.append(s["p"])
            for p in ps:
                yield s["sp"], p
        t = b["t"]
        if t["k"] == "call":
            for a in t["args"]:
                p = a.get("c") or a.get("m")
                if p:
                    yield t["sp"], p
        elif t["k"] == "switch":
            p = t["d"].get("c") or t["d"].get("m")
            if p:
                yield t["sp"], p


def read_paths(db, fn, span=None, param=1, include_closures=True):
    """set of flattened field paths (rooted at `param` of fn) read within `span`.
    Closures defined in fn are included: their captures are mapped back to the parent's expression."""
    out = set()
    for sp, p in places_in(fn):
        if span is not None and not in_span(sp, span):
            continue
        for r in expr_paths(fn_expr_place(fn, p)):
            if r[0] == param:
                out.add(r[1])
    if include_closures:
        for c in db.closures_of(fn):
            if c.path.count("{closure#") != fn.path.count("{closure#") + 1:
                continue
            # construction site + captured expressions in the parent
            cap = None
            for i, j, s in fn.stmts():
                if s["k"] == "assign" and s["rv"]["k"] == "agg" and s["rv"]["a"]["k"] == "closure" and s["rv"]["a"]["path"] == c.path:
                    if span is None or in_span(s["sp"], span):
                        cap = [expr_paths(fn_expr_operand(fn, o)) for o in s["rv"]["ops"]]
            if cap is None:
                continue
            # paths rooted at the closure's own params (iterator items) are not attributable; only captures
            for sp, p in places_in(c):
                for r in expr_paths(fn_expr_place(c, p)):
                    if r[0] == 1 and r[1] and r[1][0].startswith("cap"):
                        try:
                            k = int(r[1][0][3:])
                        except ValueError:
                            continue
                        if k < len(cap):
                            for cp in cap[k]:
                                if cp[0] == param:
                                    out.add(cp[1] + r[1][1:])
    return out


def has_prefix(paths, prefix):
    n = len(prefix)
    return any(p[:n] == prefix for p in paths)


def match_on(db, fn, enum_path, include_closures=False):
    """HIR matches in fn whose scrutinee (after derefs) is enum_path"""
    out = []
    for m in db.matches_by_owner.get(fn.path, []):
        if m["k"] != "match":
            continue
        t = db.types[m["scrut_t"]]
        while t["k"] == "ref":
            t = db.types[t["t"]]
        if t["k"] == "adt" and t["path"] == enum_path:
            out.append(m)
    return out


def arm_variants(arm, enum_path):
    """(set of explicitly matched variant names, is_catch_all)"""
    def pats(p):
        if p["k"] == "or":
            for x in p["ps"]:
                yield from pats(x)
        elif p["k"] in ("ref", "box", "deref"):
            yield from pats(p["p"])
        else:
            yield p

    vs = set()
    catch = False
    for p in pats(arm["pat"]):
        if p["k"] == "ctor" and p.get("c") and p["c"].get("adt") == enum_path:
            vs.add(p["c"]["variant"])
        elif p["k"] in ("wild",) or (p["k"] == "bind" and not p.get("sub")):
            catch = True
        elif p["k"] == "bind" and p.get("sub"):
            for q in pats(p["sub"]):
                if q["k"] == "ctor" and q.get("c") and q["c"].get("adt") == enum_path:
                    vs.add(q["c"]["variant"])
    return vs, catch


def coverage(db, fn, enum_path, pred, param=1):
    """For the (single) match on enum_path in fn: variant -> dict(required=[paths], missing=[paths], arm='explicit'|'catch-all'|None)"""
    ms = match_on(db, fn, enum_path)
    req = variants_holding(db, enum_path, pred)
    result = {}
    if not ms:
        return None, req
    m = ms[0]
    for v, paths in req.items():
        arm = None
        kind = None
        for a in m["arms"]:
            vs, catch = arm_variants(a, enum_path)
            if v in vs:
                arm, kind = a, "explicit"
                break
            if catch and arm is None:
                arm, kind = a, "catch-all"
        if arm is None:
            result[v] = {"required": paths, "missing": paths, "arm": None}
            continue
        if kind == "catch-all":
            result[v] = {"required": paths, "missing": paths, "arm": "catch-all", "ln": arm["sp"][0]}
            continue
        # reads in the arm *body* only: a pattern that merely binds a field (and never uses it) does not count
        reads = read_paths(db, fn, tuple(arm["body_sp"]), param)
        missing = [p for p in paths if not has_prefix(reads, ("as:" + v,) + p) and not _covered_by_whole(reads, v, p)]
        result[v] = {"required": paths, "missing": missing, "arm": "explicit", "ln": arm["sp"][0]}
    return m, result


def _covered_by_whole(reads, v, p):
    """the arm passes the whole payload (or a prefix of the path) to something: counts as reading it"""
    for k in range(1, len(p) + 1):
        if (("as:" + v,) + p[:k]) in reads and k == len(p):
            return True
    # whole payload used as a value (e.g. passed to a helper)
    return (("as:" + v, p[0]) in reads) and False


def deep_read_paths(db, fn, param=1, depth=3, _seen=None):
    """field paths of `param` read by fn or (transitively, to `depth`) by local callees that receive
    the parameter or a projection of it"""
    seen = _seen or set()
    if (fn.dp, param) in seen:
        return set()
    seen = seen | {(fn.dp, param)}
    out = set(read_paths(db, fn, None, param))
    if depth <= 0:
        return out
    fns = [fn] + [c for c in db.closures_of(fn) if c.path.count("{closure#") == fn.path.count("{closure#") + 1]
    for bb, t, c in fn.calls():
        if not c:
            continue
        from qv.engine import callee_path

        hs = db.by_path.get(callee_path(c), [])
        if len(hs) != 1 or hs[0].dp == fn.dp:
            continue
        for k, a in enumerate(t["args"]):
            pl = a.get("c") or a.get("m")
            if not pl:
                continue
            for r in expr_paths(fn_expr_place(fn, pl)):
                if r[0] == param:
                    sub = deep_read_paths(db, hs[0], k + 1, depth - 1, seen)
                    for sp in sub:
                        out.add(r[1] + sp)
                    out.add(r[1])
    return out


def pattern_bound_paths(p, prefix=()):
    """field-name paths (from the matched value) at which the pattern binds a variable or a sub-pattern
    that is not a wildcard; for enum variant patterns the path starts with 'as:<Variant>'"""
    k = p["k"]
    out = []
    if k in ("ref", "box", "deref"):
        return pattern_bound_paths(p["p"], prefix)
    if k == "bind":
        out.append(prefix)
        if p.get("sub"):
            out += pattern_bound_paths(p["sub"], prefix)
        return out
    if k == "or":
        for x in p["ps"]:
            out += pattern_bound_paths(x, prefix)
        return out
    if k == "ctor":
        c = p.get("c") or {}
        pre = prefix
        if c.get("adt") and c.get("variant") and c["adt"].rsplit("::", 1)[-1] != c["variant"]:
            pre = prefix + ("as:" + c["variant"],)
        for f in p["fields"]:
            out += pattern_bound_paths(f["p"], pre + (f["n"],))
        return out
    if k == "tuple":
        for i, x in enumerate(p["ps"]):
            out += pattern_bound_paths(x, prefix + (str(i),))
        return out
    return out


def pattern_coverage(db, m, enum_path, pred):
    """per variant holding T: which required leaf paths are bound by an explicit arm pattern of match m"""
    req = variants_holding(db, enum_path, pred)
    res = {}
    for v, paths in req.items():
        arm_kind = None
        bound = []
        for a in m["arms"]:
            vs, catch = arm_variants(a, enum_path)
            if v in vs:
                arm_kind = "explicit"
                bound = [b for b in pattern_bound_paths(a["pat"]) if b[:1] == ("as:" + v,)]
                break
            if catch and arm_kind is None:
                arm_kind = "catch-all"
        missing = []
        if arm_kind == "explicit":
            for p in paths:
                full = ("as:" + v,) + p
                if not any(full[: len(b)] == b or b[: len(full)] == full for b in bound):
                    missing.append(p)
        else:
            missing = paths
        res[v] = {"required": paths, "missing": missing, "arm": arm_kind}
    return res
