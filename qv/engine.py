"""In-memory database over qfacts output + shared analyses (call graph, CFG,
dominators, flow-insensitive data dependence, type containment)."""
import os
import re
from collections import defaultdict, deque

STD_TRAITS_VIA_GENERICS = {
    # traits of local types that *external generic code* may invoke
    "std::fmt::Display", "std::fmt::Debug", "std::clone::Clone", "std::cmp::PartialEq",
    "std::cmp::Eq", "std::hash::Hash", "std::cmp::PartialOrd", "std::cmp::Ord",
    "std::iter::Iterator", "std::iter::IntoIterator", "std::ops::Drop", "std::default::Default",
    "std::convert::From", "std::convert::Into", "std::convert::TryFrom", "std::convert::TryInto",
    "std::str::FromStr", "std::iter::Extend", "std::iter::FromIterator", "std::convert::AsRef",
    "std::borrow::Borrow", "std::ops::Deref", "std::ops::DerefMut", "std::string::ToString",
    "std::error::Error", "std::iter::DoubleEndedIterator", "std::iter::ExactSizeIterator",
    "std::ops::Add", "std::ops::Sub", "std::ops::Mul", "std::ops::Div", "std::ops::Neg",
    "std::ops::AddAssign", "std::ops::Index", "std::ops::IndexMut", "std::fmt::LowerExp",
    "std::fmt::Write", "std::ops::Not", "std::iter::Sum", "std::iter::Product",
}


class Fn:
    __slots__ = ("raw", "db", "path", "dp", "kind", "file", "blocks", "locals", "argc", "_preds", "_dom", "_defs", "_pdom")

    def __init__(self, raw, db):
        self.raw = raw
        self.db = db
        self.path = raw["path"]
        self.dp = raw["dp"]
        self.kind = raw["kind"]
        self.file = raw["file"]
        b = raw["body"]
        self.blocks = b["blocks"]
        self.locals = b["locals"]
        self.argc = b["argc"]
        self._preds = None
        self._dom = None
        self._defs = None
        self._pdom = None

    # ---- basic accessors
    @property
    def name(self):
        return self.raw.get("name") or self.path.rsplit("::", 1)[-1]

    @property
    def line(self):
        return self.raw["hsp"][0]

    def loc(self, sp=None):
        sp = sp or self.raw["hsp"]
        return "%s:%d" % (self.file, sp[0])

    def is_derived(self):
        return bool(self.raw.get("derived"))

    def impl_self_path(self):
        i = self.raw.get("impl_self")
        if i is None:
            return None
        t = self.db.types[i]
        return t.get("path") if t["k"] == "adt" else t["s"]

    def local_ty(self, l):
        return self.db.types[self.locals[l]["t"]]

    def local_name(self, l):
        return self.locals[l].get("n")

    def terms(self):
        for i, b in enumerate(self.blocks):
            yield i, b["t"]

    def calls(self):
        """yield (bb, term, callee) for call terminators with a constant callee"""
        for i, b in enumerate(self.blocks):
            t = b["t"]
            if t["k"] == "call":
                yield i, t, callee_of(t)

    def stmts(self):
        for i, b in enumerate(self.blocks):
            for j, s in enumerate(b["s"]):
                yield i, j, s

    # ---- CFG
    def succs(self, bb, unwind=False):
        t = self.blocks[bb]["t"]
        k = t["k"]
        out = []
        if k == "goto":
            out = [t["t"]]
        elif k == "switch":
            out = [x[1] for x in t["ts"]] + [t["else"]]
        elif k in ("call", "drop", "assert"):
            if t.get("t") is not None:
                out = [t["t"]]
            if unwind and t.get("u") is not None:
                out.append(t["u"])
        elif k == "other":
            # FalseEdge / Yield etc. do not occur in optimized MIR at opt-level 0 for this crate
            out = []
        return out

    def preds(self):
        if self._preds is None:
            p = defaultdict(list)
            for i in range(len(self.blocks)):
                for s in self.succs(i):
                    p[s].append(i)
            self._preds = p
        return self._preds

    def reachable_blocks(self, start=0, unwind=False, stop=None):
        seen = {start}
        dq = deque([start])
        while dq:
            b = dq.popleft()
            if stop and b in stop and b != start:
                continue
            for s in self.succs(b, unwind):
                if s not in seen:
                    seen.add(s)
                    dq.append(s)
        return seen

    def dominators(self):
        """dom[b] = set of blocks dominating b (normal edges only)"""
        if self._dom is not None:
            return self._dom
        n = len(self.blocks)
        reach = self.reachable_blocks(0)
        order = [b for b in range(n) if b in reach]
        dom = {b: set(order) for b in order}
        dom[0] = {0}
        preds = self.preds()
        changed = True
        while changed:
            changed = False
            for b in order:
                if b == 0:
                    continue
                ps = [p for p in preds[b] if p in dom]
                if not ps:
                    continue
                new = set.intersection(*[dom[p] for p in ps]) | {b}
                if new != dom[b]:
                    dom[b] = new
                    changed = True
        self._dom = dom
        return dom

    def postdominators(self):
        """pdom[b] = set of blocks post-dominating b over normal edges; blocks without normal successors (return, diverging
        calls, unreachable) all flow to one virtual exit (-1)"""
        if getattr(self, "_pdom", None) is not None:
            return self._pdom
        reach = sorted(self.reachable_blocks(0))
        succ = {b: (self.succs(b) or [-1]) for b in reach}
        nodes = reach + [-1]
        pdom = {b: set(nodes) for b in nodes}
        pdom[-1] = {-1}
        changed = True
        while changed:
            changed = False
            for b in reversed(reach):
                new = set.intersection(*[pdom[x] for x in succ[b]]) | {b}
                if new != pdom[b]:
                    pdom[b] = new
                    changed = True
        self._pdom = pdom
        return pdom

    def control_deps(self, bb, transitive=True, stop=None):
        """set of (switch block, successor taken) on which block bb is control dependent (Ferrante et al.);
        `stop(block)` = do not look for the controllers of this controlling block (e.g. loop headers: what decides
        whether there is another iteration is not a condition on the work done in one iteration)"""
        pdom = self.postdominators()
        out = set()
        work = [bb]
        seen = {bb}
        while work:
            b = work.pop()
            for a in self.reachable_blocks(0):
                ss = self.succs(a)
                if len(set(ss)) < 2:
                    continue
                for x in set(ss):
                    if b in pdom.get(x, ()) and not (b in pdom.get(a, ()) and b != a):
                        if (a, x) not in out:
                            out.add((a, x))
                            if transitive and a not in seen and not (stop and stop(a)):
                                seen.add(a)
                                work.append(a)
        return out

    def return_blocks(self):
        return [i for i, b in enumerate(self.blocks) if b["t"]["k"] == "return"]

    def all_paths_pass(self, start, through, ends=None):
        """Does every (normal-edge) path from block `start` to a return pass a block in `through`?"""
        through = set(through)
        if start in through:
            return True
        seen = {start}
        dq = deque([start])
        while dq:
            b = dq.popleft()
            if self.blocks[b]["t"]["k"] == "return":
                return False
            for s in self.succs(b):
                if s in through or s in seen:
                    continue
                seen.add(s)
                dq.append(s)
        return True

    # ---- data dependence (flow-insensitive)
    def defs(self):
        """local -> list of ('s', bb, idx, stmt) | ('t', bb, term) that assign (part of) it"""
        if self._defs is None:
            d = defaultdict(list)
            for i, b in enumerate(self.blocks):
                for j, s in enumerate(b["s"]):
                    if s["k"] in ("assign", "setdiscr"):
                        d[s["p"]["l"]].append(("s", i, j, s))
                t = b["t"]
                if t["k"] == "call":
                    d[t["dest"]["l"]].append(("t", i, None, t))
            self._defs = d
        return self._defs

    def operand_locals(self, op):
        if op is None:
            return []
        for key in ("c", "m"):
            if key in op:
                return place_locals(op[key])
        return []

    def rvalue_operands(self, rv):
        k = rv["k"]
        if k in ("use", "cast", "un", "repeat"):
            return [rv["o"]]
        if k == "bin":
            return [rv["a"], rv["b"]]
        if k == "agg":
            return rv["ops"]
        if k in ("ref", "rawptr", "discr", "copyderef"):
            return [{"c": rv["p"]}]
        return []

    def dep_locals(self, d):
        """locals read by a def entry"""
        kind, bb, idx, x = d
        out = []
        if kind == "s":
            if x["k"] == "assign":
                for op in self.rvalue_operands(x["rv"]):
                    out += self.operand_locals(op)
                # index projections on the lhs
                out += [pr["ix"] for pr in x["p"]["pr"] if isinstance(pr, dict) and "ix" in pr]
        else:
            for a in x["args"]:
                out += self.operand_locals(a)
            if "c" in x["f"] or "m" in x["f"]:
                out += self.operand_locals(x["f"])
        return out

    def backward_slice(self, locals_, through_calls=True, stop=None):
        """Set of locals that (flow-insensitively) feed any of `locals_`.
        Mutable borrows are followed in the reverse direction too: if `t = &mut x`
        and `t` is passed to a call, `x` depends on the call's other arguments."""
        seen = set()
        dq = deque(locals_)
        defs = self.defs()
        while dq:
            l = dq.popleft()
            if l in seen:
                continue
            seen.add(l)
            if stop and l in stop:
                continue
            for d in defs.get(l, []):
                if d[0] == "t" and not through_calls:
                    continue
                for x in self.dep_locals(d):
                    if x not in seen:
                        dq.append(x)
        return seen


def place_locals(p):
    out = [p["l"]]
    for pr in p["pr"]:
        if isinstance(pr, dict) and "ix" in pr:
            out.append(pr["ix"])
    return out


def callee_of(term):
    """The constant callee record of a call terminator, or None (fn pointer / closure value)."""
    f = term["f"]
    k = f.get("k")
    if k and "fn" in k:
        return k["fn"]
    return None


def callee_path(c, resolved=True):
    if c is None:
        return None
    if resolved and c.get("res"):
        return c["res"]["path"]
    return c["path"]


def callee_dp(c, resolved=True):
    if c is None:
        return None
    if resolved and c.get("res"):
        return c["res"]["dp"]
    return c["dp"]


def place_fields(p):
    """names of field projections along a place"""
    return [pr["n"] for pr in p["pr"] if isinstance(pr, dict) and "n" in pr]


def place_str(fn, p):
    s = fn.local_name(p["l"]) or "_%d" % p["l"]
    for pr in p["pr"]:
        if pr == "*":
            s = "(*%s)" % s
        elif "n" in pr:
            s += "." + pr["n"]
        elif "dc" in pr:
            s += " as " + pr["dc"]
        elif "ix" in pr:
            s += "[_%d]" % pr["ix"]
        elif "ci" in pr:
            s += "[%s%d]" % ("-" if pr["fe"] else "", pr["ci"])
        else:
            s += "{?}"
    return s


def const_of(op):
    return op.get("k") if op else None


class DB:
    def __init__(self, raw):
        self.raw = raw
        self.crate = raw["crate"]
        self.types = raw["types"]
        self.fns = [Fn(x, self) for x in raw["fns"]]
        self.by_dp = {f.dp: f for f in self.fns}
        self.by_path = defaultdict(list)
        for f in self.fns:
            self.by_path[f.path].append(f)
        self.adts = {a["path"]: a for a in raw["adts"]}
        self.impls = raw["impls"]
        self.matches = raw["matches"]
        self.matches_by_owner = defaultdict(list)
        for m in self.matches:
            self.matches_by_owner[m["owner"]].append(m)
        self.statics = raw["statics"]
        # trait-impl method index: (trait path, method name) -> [Fn]
        self.trait_methods = defaultdict(list)
        for f in self.fns:
            t = f.raw.get("impl_trait")
            if t:
                self.trait_methods[(t, f.name)].append(f)
        self._cg = None
        self._contains_cache = {}

    # ---- lookup
    def fn(self, path):
        """Unique function with this exact path; None if missing; error if ambiguous."""
        fs = self.by_path.get(path, [])
        if len(fs) == 1:
            return fs[0]
        if not fs:
            return None
        raise KeyError("ambiguous path " + path)

    def fns_matching(self, regex):
        r = re.compile(regex)
        return [f for f in self.fns if r.search(f.path)]

    def trait_impl(self, trait, self_path, name):
        """method `name` of `impl trait for self_path` (self_path compared on the ADT path)"""
        out = []
        for f in self.trait_methods.get((trait, name), []):
            if f.impl_self_path() == self_path:
                out.append(f)
        return out

    def closures_of(self, fn):
        """closures (transitively) defined inside fn"""
        pre = fn.path + "::{closure#"
        return [f for f in self.fns if f.path.startswith(pre)]

    def ty_s(self, i):
        return self.types[i]["s"]

    # ---- type containment
    def ty_contains(self, ti, pred, _seen=None):
        """Does type `ti` transitively contain a type satisfying pred(type dict)?
        Goes through generic args, references, tuples, slices, arrays and the fields
        of local ADTs."""
        key = (ti, pred)  # the predicate object itself (kept alive by the cache), never its id()
        if key in self._contains_cache:
            return self._contains_cache[key]
        seen = _seen if _seen is not None else set()
        if ti in seen:
            return False
        seen.add(ti)
        t = self.types[ti]
        r = False
        if pred(t):
            r = True
        else:
            k = t["k"]
            subs = []
            if k in ("ref", "ptr", "slice", "array"):
                subs = [t["t"]]
            elif k == "tuple":
                subs = t["ts"]
            elif k in ("adt", "closure", "fndef"):
                subs = list(t.get("args", []))
                if k == "adt" and t["path"] in self.adts:
                    # fields are recorded with identity substitution: generic params are
                    # covered through `args` above
                    for v in self.adts[t["path"]]["variants"]:
                        for f in v["fields"]:
                            subs.append(f["t"])
            for s_ in subs:
                if self.ty_contains(s_, pred, seen):
                    r = True
                    break
        if _seen is None:
            self._contains_cache[key] = r
        return r

    def adt_pred(self, path):
        p = self._pred_cache.get(path) if hasattr(self, "_pred_cache") else None
        if p is None:
            if not hasattr(self, "_pred_cache"):
                self._pred_cache = {}
            p = lambda t, path=path: t["k"] == "adt" and t["path"] == path
            self._pred_cache[path] = p
        return p

    # ---- call graph
    def callgraph(self):
        """dp -> list of (callee dp, site) over local functions.
        Over-approximates: closures constructed / fn items referenced count as calls;
        unresolved trait-method calls fan out to every local impl of that method;
        external generic callees fan out to local impls of std traits for the local
        ADTs among their generic arguments."""
        if self._cg is not None:
            return self._cg
        cg = defaultdict(list)
        # index: adt path -> trait impl methods of non-local traits
        impls_by_self = defaultdict(list)
        for f in self.fns:
            t = f.raw.get("impl_trait")
            if t and not t.startswith(self.crate + "::"):
                sp = f.impl_self_path()
                if sp:
                    impls_by_self[sp].append(f)
        for f in self.fns:
            edges = cg[f.dp]

            def add_fn_const(c, site, how):
                if c is None:
                    return
                res = c.get("res")
                tgt = res if res else c
                if tgt["local"] and tgt["dp"] in self.by_dp:
                    edges.append((tgt["dp"], site, how))
                    return
                if tgt["local"]:
                    # local but no body recorded: trait method declaration (unresolved)
                    pass
                tr = c.get("trait")
                name = c.get("name")
                unresolved = res is None or (res["path"] == c["path"] and tr is not None) or (res and res.get("kind") == "Virtual")
                if tr and unresolved:
                    for g in self.trait_methods.get((tr, name), []):
                        edges.append((g.dp, site, how + ":fanout"))
                if not tgt["local"]:
                    # external generic: local ADTs among generic args -> their std-trait impls
                    for ti in c.get("args", []):
                        for ap in self._local_adts_in(ti):
                            for g in impls_by_self.get(ap, []):
                                if g.raw["impl_trait"] in STD_TRAITS_VIA_GENERICS:
                                    edges.append((g.dp, site, how + ":generic"))
                        # closures / fn items passed as generic args
                        for cp in self._callables_in(ti):
                            for g in self.by_path.get(cp, []):
                                edges.append((g.dp, site, how + ":callable-arg"))

            def scan_operand(op, site):
                k = op.get("k") if op else None
                if k and "fn" in k:
                    add_fn_const(k["fn"], site, "ref")

            for i, b in enumerate(f.blocks):
                for s in b["s"]:
                    if s["k"] != "assign":
                        continue
                    rv = s["rv"]
                    site = (f.dp, i, s["sp"])
                    if rv["k"] == "agg" and rv["a"]["k"] == "closure":
                        for g in self.by_path.get(rv["a"]["path"], []):
                            edges.append((g.dp, site, "closure"))
                    for op in f.rvalue_operands(rv):
                        scan_operand(op, site)
                t = b["t"]
                if t["k"] == "call":
                    site = (f.dp, i, t["sp"])
                    add_fn_const(callee_of(t), site, "call")
                    for a in t["args"]:
                        scan_operand(a, site)
                    if callee_of(t) is None:
                        # call through a value: closure / fn pointer local
                        lty = None
                        for l in f.operand_locals(t["f"]):
                            lty = f.local_ty(l)
                        if lty:
                            for cp in self._callables_in_t(lty):
                                for g in self.by_path.get(cp, []):
                                    edges.append((g.dp, site, "call-value"))
                elif t["k"] == "drop":
                    # drop glue of local types with a Drop impl
                    pass
        self._cg = cg
        return cg

    def _local_adts_in(self, ti, _seen=None, depth=0):
        seen = _seen if _seen is not None else set()
        out = set()
        if ti in seen or depth > 6:
            return out
        seen.add(ti)
        t = self.types[ti]
        k = t["k"]
        if k == "adt":
            if t["path"] in self.adts:
                out.add(t["path"])
            for a in t["args"]:
                out |= self._local_adts_in(a, seen, depth + 1)
        elif k in ("ref", "ptr", "slice", "array"):
            out |= self._local_adts_in(t["t"], seen, depth + 1)
        elif k == "tuple":
            for a in t["ts"]:
                out |= self._local_adts_in(a, seen, depth + 1)
        elif k in ("closure", "fndef"):
            for a in t.get("args", []):
                out |= self._local_adts_in(a, seen, depth + 1)
        return out

    def _callables_in(self, ti, depth=0):
        return self._callables_in_t(self.types[ti], depth)

    def _callables_in_t(self, t, depth=0):
        out = set()
        if depth > 6:
            return out
        k = t["k"]
        if k in ("closure", "fndef"):
            out.add(t["path"])
            for a in t.get("args", []):
                out |= self._callables_in(a, depth + 1)
        elif k == "adt":
            for a in t["args"]:
                out |= self._callables_in(a, depth + 1)
        elif k in ("ref", "ptr", "slice", "array"):
            out |= self._callables_in(t["t"], depth + 1)
        elif k == "tuple":
            for a in t["ts"]:
                out |= self._callables_in(a, depth + 1)
        return out

    def reachable(self, entry_dps, skip=None):
        """dp -> (pred dp, site) for all functions reachable from the entries (BFS tree)"""
        cg = self.callgraph()
        parent = {}
        dq = deque()
        for e in entry_dps:
            parent[e] = None
            dq.append(e)
        while dq:
            u = dq.popleft()
            if skip and u in skip:
                continue
            for (v, site, how) in cg.get(u, []):
                if v not in parent:
                    parent[v] = (u, site, how)
                    dq.append(v)
        return parent

    def path_to(self, parent, dp):
        chain = []
        cur = dp
        while cur is not None:
            chain.append(self.by_dp[cur].path if cur in self.by_dp else cur)
            p = parent.get(cur)
            cur = p[0] if p else None
        return list(reversed(chain))

    def sccs(self, nodes):
        """Tarjan SCCs of the call graph restricted to `nodes`; returns list of lists (size>1 or self-loop)"""
        cg = self.callgraph()
        nodes = set(nodes)
        index = {}
        low = {}
        onstack = set()
        stack = []
        out = []
        counter = [0]
        import sys
        sys.setrecursionlimit(10000)

        def strong(v):
            index[v] = low[v] = counter[0]
            counter[0] += 1
            stack.append(v)
            onstack.add(v)
            for (w, _, _) in cg.get(v, []):
                if w not in nodes:
                    continue
                if w not in index:
                    strong(w)
                    low[v] = min(low[v], low[w])
                elif w in onstack:
                    low[v] = min(low[v], index[w])
            if low[v] == index[v]:
                comp = []
                while True:
                    w = stack.pop()
                    onstack.discard(w)
                    comp.append(w)
                    if w == v:
                        break
                if len(comp) > 1 or any(w == v for (w, _, _) in cg.get(v, [])):
                    out.append(comp)

        for v in sorted(nodes):
            if v not in index:
                strong(v)
        return out


class MonoGraph:
    """Monomorphic call graph produced by qfacts/mono.rs (instances as codegen would
    resolve them, external generic bodies walked).  Nodes are instances; `local`
    nodes map to functions of the DB by def path (dp)."""

    def __init__(self, raw, db):
        self.db = db
        self.nodes = raw["nodes"]
        self.adj = defaultdict(list)
        for a, b, k in raw["edges"]:
            self.adj[a].append((b, k))
        self.by_dp = defaultdict(list)
        for i, n in enumerate(self.nodes):
            self.by_dp[n["dp"]].append(i)
        self.skipped = raw.get("skipped", 0)

    def roots(self, dps):
        out = []
        for dp in dps:
            out += self.by_dp.get(dp, [])
        return out

    def reach(self, roots, stop_dps=None):
        """node -> parent (node, kind) BFS tree"""
        parent = {r: None for r in roots}
        dq = deque(roots)
        while dq:
            u = dq.popleft()
            if stop_dps and self.nodes[u]["dp"] in stop_dps and parent[u] is not None:
                continue
            for v, k in self.adj[u]:
                if v not in parent:
                    parent[v] = (u, k)
                    dq.append(v)
        return parent

    def local_dps(self, parent):
        return {self.nodes[i]["dp"] for i in parent if self.nodes[i]["local"]}

    def chain(self, parent, node, local_only=True):
        out = []
        i = node
        while i is not None:
            n = self.nodes[i]
            if n["local"] or not local_only:
                out.append(n["path"])
            p = parent.get(i)
            i = p[0] if p else None
        return list(reversed(out))

    def chain_to_dp(self, parent, dp):
        for i in self.by_dp.get(dp, []):
            if i in parent:
                return self.chain(parent, i)
        return []

    def cyclic_sccs(self, nodes):
        """SCCs (iterative Tarjan) with a cycle, restricted to `nodes`"""
        nodes = set(nodes)
        index = {}
        low = {}
        onstack = set()
        stack = []
        out = []
        counter = 0
        for root in sorted(nodes):
            if root in index:
                continue
            work = [(root, iter([v for v, _ in self.adj[root] if v in nodes]))]
            index[root] = low[root] = counter
            counter += 1
            stack.append(root)
            onstack.add(root)
            while work:
                v, it = work[-1]
                advanced = False
                for w in it:
                    if w not in index:
                        index[w] = low[w] = counter
                        counter += 1
                        stack.append(w)
                        onstack.add(w)
                        work.append((w, iter([x for x, _ in self.adj[w] if x in nodes])))
                        advanced = True
                        break
                    elif w in onstack:
                        low[v] = min(low[v], index[w])
                if advanced:
                    continue
                work.pop()
                if work:
                    u = work[-1][0]
                    low[u] = min(low[u], low[v])
                if low[v] == index[v]:
                    comp = []
                    while True:
                        w = stack.pop()
                        onstack.discard(w)
                        comp.append(w)
                        if w == v:
                            break
                    if len(comp) > 1 or any(x == v for x, _ in self.adj[v]):
                        out.append(comp)
        return out


# --------------------------------------------------------------------------
# Symbolic origin expressions (flow-insensitive, per function)
#
#   ('const', value, ty_s)             literal / constant (value: int|str|float text|display)
#   ('fnconst', path)                  function item constant
#   ('param', idx, name)
#   ('call', path, [args], bb)         result of a call terminator (resolved callee path)
#   ('bin', op, a, b) ('un', op, a) ('cast', kind, a, to_ty_s)
#   ('agg', adt_path, variant, {field: expr}) ('tuple', [..]) ('array', [..]) ('closure', path, [..])
#   ('field', base, name, variant) ('as', base, variant) ('index', base, idx) ('cindex', base, i, from_end)
#   ('discr', base) ('phi', [..]) ('cycle',) ('undef', l) ('other', text) ('static', path)
# References and dereferences are transparent.

# how far origin expressions are followed through definitions before being cut to ('deep',)
DEPTH = int(os.environ.get("QV_EXPR_DEPTH", "20"))

TRANSPARENT_CALLS = re.compile(
    r"(as std::ops::Deref>::deref$|as std::ops::DerefMut>::deref_mut$|as std::clone::Clone>::clone$|as std::borrow::Borrow<.*>>::borrow$"
    r"|as std::convert::AsRef<.*>>::as_ref$|^<T as std::convert::From<T>>::from$|^<T as std::convert::Into<U>>::into$"
    r"|as std::borrow::ToOwned>::to_owned$|^std::vec::Vec::<T, A>::as_slice$|^std::string::String::as_str$"
    r"|as std::iter::IntoIterator>::into_iter$|^<I as std::iter::IntoIterator>::into_iter$|^std::iter::Iterator::copied$|^std::iter::Iterator::cloned$"
    r"|^std::option::Option::<T>::as_ref$|^std::option::Option::<&T>::(cloned|copied)$|^std::option::Option::<T>::as_deref$"
    r"|^std::boxed::Box::<T>::new$|^core::slice::<impl \[T\]>::iter$|^std::mem::take$|^std::hint::must_use$)"
)
TRY_BRANCH = re.compile(r"as std::ops::Try>::branch$")


def _is_whole(p):
    return not p["pr"]


def fn_expr_local(fn, l, depth=DEPTH, seen=frozenset()):
    if depth <= 0:
        return ("deep",)
    if l in seen:
        return ("cycle",)
    seen = seen | {l}
    defs = [d for d in fn.defs().get(l, []) if (d[0] == "t" and _is_whole(d[3]["dest"])) or (d[0] == "s" and d[3]["k"] == "assign" and _is_whole(d[3]["p"]))]
    if not defs:
        if 1 <= l <= fn.argc:
            return ("param", l, fn.local_name(l))
        # only partially assigned (fields) or never: describe the partial stores
        parts = [d for d in fn.defs().get(l, []) if d[0] == "s" and d[3]["k"] == "assign"]
        if parts:
            flds = {}
            for d in parts:
                names = place_fields(d[3]["p"])
                if names:
                    flds[names[0]] = fn_expr_rvalue(fn, d[3]["rv"], depth - 1, seen)
            return ("partial", flds)
        return ("undef", l)
    outs = []
    for d in defs:
        if d[0] == "s":
            outs.append(fn_expr_rvalue(fn, d[3]["rv"], depth - 1, seen))
        else:
            t = d[3]
            c = callee_of(t)
            path = callee_path(c) if c else None
            args = [fn_expr_operand(fn, a, depth - 1, seen) for a in t["args"]]
            if path is None:
                outs.append(("callv", fn_expr_operand(fn, t["f"], depth - 1, seen), args, d[1]))
            elif TRANSPARENT_CALLS.search(path) and args:
                outs.append(args[0])
            else:
                outs.append(("call", path, args, d[1]))
    if 1 <= l <= fn.argc:
        outs.append(("param", l, fn.local_name(l)))
    if len(outs) == 1:
        return outs[0]
    return ("phi", outs)


def fn_expr_operand(fn, op, depth=DEPTH, seen=frozenset()):
    if op is None:
        return ("undef", -1)
    k = op.get("k")
    if k is not None:
        if "fn" in k:
            return ("fnconst", callee_path(k["fn"]))
        if "static" in k:
            return ("static", k["static"])
        for key in ("str", "int", "float"):
            if key in k:
                v = k[key]
                if key == "int":
                    try:
                        v = int(v)
                    except ValueError:
                        pass
                return ("const", v, fn.db.types[k["t"]]["s"])
        return ("const", k["s"], fn.db.types[k["t"]]["s"])
    p = op.get("c") or op.get("m")
    if p is None:
        return ("other", str(op))
    return fn_expr_place(fn, p, depth, seen)


def fn_expr_place(fn, p, depth=DEPTH, seen=frozenset()):
    e = fn_expr_local(fn, p["l"], depth, seen)
    for pr in p["pr"]:
        if pr == "*":
            continue
        if "n" in pr:
            if pr.get("o", "").startswith("(closure)"):
                e = ("field", e, "cap%d" % pr["f"], pr["n"])
            else:
                e = _field(e, pr["n"], pr.get("v"))
        elif "dc" in pr:
            e = ("as", e, pr["dc"])
        elif "ix" in pr:
            e = ("index", e, fn_expr_local(fn, pr["ix"], depth - 1, seen))
        elif "ci" in pr:
            e = ("cindex", e, pr["ci"], pr["fe"])
        else:
            e = ("proj", e, str(pr))
    return e


def _field(e, name, variant):
    # project through known aggregates
    if e[0] == "agg" and name in e[3]:
        return e[3][name]
    if e[0] == "tuple":
        try:
            return e[1][int(name)]
        except (ValueError, IndexError):
            pass
    if e[0] == "as" and e[1][0] == "agg" and e[1][2] == e[2] and name in e[1][3]:
        return e[1][3][name]
    if e[0] == "partial" and name in e[1]:
        return e[1][name]
    if e[0] == "phi":
        return ("phi", [_field(x, name, variant) for x in e[1]])
    return ("field", e, name, variant)


def fn_expr_rvalue(fn, rv, depth=DEPTH, seen=frozenset()):
    k = rv["k"]
    if k == "use":
        return fn_expr_operand(fn, rv["o"], depth, seen)
    if k in ("ref", "rawptr", "copyderef"):
        return fn_expr_place(fn, rv["p"], depth, seen)
    if k == "cast":
        return ("cast", rv["ck"], fn_expr_operand(fn, rv["o"], depth, seen), fn.db.types[rv["t"]]["s"])
    if k == "bin":
        return ("bin", rv["op"], fn_expr_operand(fn, rv["a"], depth, seen), fn_expr_operand(fn, rv["b"], depth, seen))
    if k == "un":
        return ("un", rv["op"], fn_expr_operand(fn, rv["o"], depth, seen))
    if k == "discr":
        return ("discr", fn_expr_place(fn, rv["p"], depth, seen))
    if k == "agg":
        a = rv["a"]
        ops = [fn_expr_operand(fn, o, depth, seen) for o in rv["ops"]]
        if a["k"] == "adt":
            return ("agg", a["path"], a["variant"], dict(zip(a["fields"], ops)))
        if a["k"] == "tuple":
            return ("tuple", ops)
        if a["k"] == "array":
            return ("array", ops)
        if a["k"] == "closure":
            return ("closure", a["path"], ops)
        return ("other", a.get("s", "agg"))
    if k == "repeat":
        return ("repeat", fn_expr_operand(fn, rv["o"], depth, seen), rv["n"])
    return ("other", rv.get("s", k))


def walk_expr(e, visit):
    """pre-order walk over an origin expression; visit(node) may return False to prune"""
    if visit(e) is False:
        return
    tag = e[0]
    kids = []
    if tag in ("call",):
        kids = e[2]
    elif tag == "callv":
        kids = [e[1]] + e[2]
    elif tag == "bin":
        kids = [e[2], e[3]]
    elif tag in ("un",):
        kids = [e[2]]
    elif tag == "cast":
        kids = [e[2]]
    elif tag == "agg":
        kids = list(e[3].values())
    elif tag in ("tuple", "array", "phi"):
        kids = e[1]
    elif tag == "closure":
        kids = e[2]
    elif tag in ("field", "as", "discr", "cindex", "proj", "repeat"):
        kids = [e[1]]
    elif tag == "index":
        kids = [e[1], e[2]]
    elif tag == "partial":
        kids = list(e[1].values())
    for k in kids:
        walk_expr(k, visit)


def expr_calls(e):
    out = []
    walk_expr(e, lambda n: out.append(n) if n[0] == "call" else None)
    return out


def expr_leaves(e):
    out = []
    walk_expr(e, lambda n: out.append(n) if n[0] in ("const", "param", "undef", "fnconst", "cycle", "deep", "other") else None)
    return out


def dump_fn(f, bbs=None):
    import json as _j

    lines = ["== %s (argc %d) %s" % (f.path, f.argc, f.loc())]
    for i, b in enumerate(f.blocks):
        if bbs and i not in bbs:
            continue
        for s in b["s"]:
            if s["k"] == "assign":
                lines.append("  bb%d  %s = %s" % (i, place_str(f, s["p"]), _j.dumps(s["rv"])[:260]))
            else:
                lines.append("  bb%d  %s" % (i, _j.dumps(s)[:200]))
        t = b["t"]
        if t["k"] == "call":
            c = callee_of(t)
            lines.append("  bb%d  CALL %s = %s(%s) -> %s  @%d" % (i, place_str(f, t["dest"]), callee_path(c) if c else _j.dumps(t["f"])[:80], ", ".join(_j.dumps(a)[:90] for a in t["args"]), t["t"], t["sp"][0]))
        elif t["k"] == "switch":
            lines.append("  bb%d  SWITCH %s %s else %s" % (i, _j.dumps(t["d"])[:80], t["ts"], t["else"]))
        else:
            lines.append("  bb%d  %s %s" % (i, t["k"], {k: v for k, v in t.items() if k in ("t", "msg", "u")}))
    return "\n".join(lines)
