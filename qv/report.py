"""Findings, evidence and the known-findings protocol."""
import json
import os
import time

VERIF = os.path.dirname(os.path.dirname(os.path.abspath(__file__)))


class Finding:
    def __init__(self, key, loc, msg, witness=None, rule=None):
        self.key = key  # stable: never contains line numbers or absolute paths
        self.loc = loc  # file:line, for humans
        self.msg = msg
        self.witness = witness
        self.rule = rule or key.split("|")[0]

    def to_json(self):
        return {"key": self.key, "loc": self.loc, "msg": self.msg, "witness": self.witness, "rule": self.rule}


class Result:
    """Collected by a property module while it runs."""

    def __init__(self, prop, level="other"):
        self.prop = prop
        self.level = level
        self.findings = []
        self.sites = 0  # rule instances evaluated
        self.nontrivial = set()  # distinct instances where the rule had something to check
        self.samples = []
        self.rules = []  # description of each rule applied
        self.exceptions = []  # (key, reason) of exceptions that were actually used
        self.counts = {}  # name -> measured count
        self.floors = {}  # name -> minimum expected
        self.analysed = {}  # free-form: functions, call-graph nodes, ...
        self.assumptions = []
        self.trusted_base = []
        self.obligations = 0
        self.discharged = 0
        self.undecided = []
        self.explanation = ""

    def site(self, key, nontrivial=True, sample=None):
        self.sites += 1
        if nontrivial:
            self.nontrivial.add(key)
        if sample is not None and len(self.samples) < 40:
            self.samples.append(sample)

    def find(self, key, loc, msg, witness=None):
        # one finding per key
        for f in self.findings:
            if f.key == key:
                return f
        f = Finding(key, loc, msg, witness)
        self.findings.append(f)
        return f

    def count(self, name, n, floor=None):
        self.counts[name] = n
        if floor is not None:
            self.floors[name] = floor

    def missing_anchor(self, what):
        self.find("anchor-missing|" + what, "-", "anchor %s could not be resolved in the analysed crate: the claim cannot be established (fail closed)" % what)

    def check_floors(self):
        for name, floor in self.floors.items():
            n = self.counts.get(name, 0)
            if n < floor:
                self.find("floor|" + name, "-", "rule instance count for '%s' is %d, below the confirmed floor %d: the rule would pass vacuously (fail closed)" % (name, n, floor))


def load_known():
    p = os.path.join(VERIF, "known_findings.json")
    if not os.path.exists(p):
        return []
    with open(p) as fh:
        return json.load(fh)


def finish(res, tier, seed, t0, extra_cmd=""):
    """Print KNOWN-FINDING / VIOLATION lines, write evidence, return exit code."""
    res.check_floors()
    known = {(k["property"], k["key"]): k for k in load_known() if k.get("status") == "known"}
    violations = []
    known_printed = []
    for f in res.findings:
        k = known.get((res.prop, f.key))
        if k:
            print("KNOWN-FINDING: property=%s %s [%s] (%s)" % (res.prop, k.get("summary", f.msg), f.key, f.loc))
            known_printed.append(f.key)
        else:
            violations.append(f)
    # the registered commands write /verif/evidence; the self-test tools redirect theirs with QV_EVIDENCE_DIR
    EVD = os.environ.get("QV_EVIDENCE_DIR") or os.path.join(VERIF, "evidence")
    os.makedirs(os.path.join(EVD, "replay"), exist_ok=True)
    code = 0
    if violations:
        code = 1
        rp = os.path.join(EVD, "replay", "%s.json" % res.prop)
        with open(rp, "w") as fh:
            json.dump({"property": res.prop, "violations": [f.to_json() for f in violations]}, fh, indent=1)
        for f in violations:
            print("  %s: %s\n      key=%s" % (f.loc, f.msg, f.key))
            if f.witness:
                print("      witness: %s" % (f.witness,))
        print("VIOLATION property=%s replay=%s" % (res.prop, rp))
    cov = {
        "evaluations": max(res.sites, 1),
        "distinct_nontrivial": len(res.nontrivial),
        "rule": "; ".join(res.rules),
        "samples": res.samples[:40] or ["(no instance)"],
        "explanation": res.explanation,
        "exhaustive": True,
        "counts": res.counts,
        "floors": res.floors,
        "analysed": res.analysed,
        "exceptions_applied": [{"key": k, "reason": r} for k, r in res.exceptions],
        "known_findings_printed": known_printed,
        "undecided": res.undecided,
        "violating_keys": [f.key for f in violations],
    }
    if res.level == "proof":
        cov["obligations"] = res.obligations
        cov["discharged"] = res.discharged
        cov["checker_cmd"] = extra_cmd or "./check %s --tier %s" % (res.prop, tier)
        cov["trusted_base"] = res.trusted_base
    ev = {
        "property_id": res.prop,
        "tier": tier,
        "seed": seed,
        "level": res.level,
        "coverage": cov,
        "assumptions": res.assumptions,
        "wall_s": round(time.time() - t0, 3),
        "violations": len(violations),
    }
    with open(os.path.join(EVD, "%s.json" % res.prop), "w") as fh:
        json.dump(ev, fh, indent=1, sort_keys=False)
    return code
