"""Fact generation and caching.

Facts are produced from /repo's *current working tree* by
  * qfacts  (rustc_private driver, under `cargo +nightly check`)  -> typed MIR/HIR facts
  * qsyn    (syn-2 based extractor, stable)                       -> un-expanded syntax facts
and cached under /verif/.cache/facts/<source-hash>-<config>/ .
Nothing from quil-rs is executed.
"""
import fcntl
import glob
import hashlib
import json
import os
import re
import shutil
import subprocess
import sys
import time

VERIF = os.path.dirname(os.path.dirname(os.path.abspath(__file__)))
REPO = os.environ.get("QV_REPO", "/repo")
CACHE = os.environ.get("QV_CACHE") or os.path.join(VERIF, ".cache")  # self-test tools use their own cache so that they never evict /repo's facts
TARGET = os.path.join(CACHE, "target")
QFACTS_BIN = os.path.join(VERIF, "qfacts", "target", "debug", "qfacts")
QSYN_BIN = os.path.join(VERIF, "qsyn", "target", "release", "qsyn")

CONFIGS = {
    "default": [],
    "graphviz": ["--features", "quil-rs/graphviz-dot"],
}


class BuildError(Exception):
    pass


def source_files(repo=None):
    repo = repo or REPO
    out = []
    for root, dirs, files in os.walk(repo):
        dirs[:] = [d for d in dirs if d not in ("target", ".git", "node_modules", ".cache")]
        for f in files:
            if f.endswith(".rs") or f in ("Cargo.toml", "Cargo.lock"):
                out.append(os.path.join(root, f))
    out.sort()
    return out


def source_hash(repo=None):
    repo = repo or REPO
    h = hashlib.sha256()
    for p in source_files(repo):
        h.update(os.path.relpath(p, repo).encode())
        h.update(b"\0")
        with open(p, "rb") as fh:
            h.update(hashlib.sha256(fh.read()).digest())
    # the analysers themselves are part of the key
    for p in (QFACTS_BIN, QSYN_BIN):
        if os.path.exists(p):
            st = os.stat(p)
            h.update(("%s:%d:%d" % (p, st.st_size, int(st.st_mtime))).encode())
    return h.hexdigest()[:20]


def _nightly_sysroot():
    return subprocess.check_output(["rustc", "+nightly", "--print", "sysroot"], text=True).strip()


def _run_qfacts(outdir, config, repo, target):
    # cargo's freshness cache would silently skip the wrapper: drop member fingerprints
    for pat in ("quil-rs-*", "quil-cli-*"):
        for p in glob.glob(os.path.join(target, "debug", ".fingerprint", pat)):
            shutil.rmtree(p, ignore_errors=True)
    env = dict(os.environ)
    env.update(
        {
            "RUSTC_ICE": "0",
            "QFACTS_OUT": outdir,
            "CARGO_NET_OFFLINE": "true",
            "CARGO_TARGET_DIR": target,
            "RUSTFLAGS": "-Zmir-opt-level=0 -Zalways-encode-mir -Awarnings",
            "LD_LIBRARY_PATH": _nightly_sysroot() + "/lib",
            "RUSTC_WORKSPACE_WRAPPER": QFACTS_BIN,
        }
    )
    env.pop("RUSTC_WRAPPER", None)
    cmd = ["cargo", "+nightly", "check", "--offline", "-p", "quil-rs", "-p", "quil-cli"] + CONFIGS[config]
    p = subprocess.run(cmd, cwd=repo, env=env, stdout=subprocess.PIPE, stderr=subprocess.STDOUT, text=True)
    if p.returncode != 0:
        errs = [l for l in p.stdout.splitlines() if l.startswith("error")]
        raise BuildError("cargo +nightly check failed:\n" + "\n".join(errs[:5]) + "\n" + p.stdout[-3000:])
    got = glob.glob(os.path.join(outdir, "quil_rs-*.json"))
    if not got:
        raise BuildError("qfacts produced no fact file for quil_rs (wrapper skipped?)\n" + p.stdout[-2000:])


def _run_qsyn(outdir, repo):
    out = os.path.join(outdir, "syn.json")
    roots = [os.path.join(repo, "quil-rs", "src"), os.path.join(repo, "quil-cli", "src")]
    p = subprocess.run([QSYN_BIN, out, repo] + roots, stdout=subprocess.PIPE, stderr=subprocess.STDOUT, text=True)
    if p.returncode != 0 or not os.path.exists(out):
        raise BuildError("qsyn failed:\n" + p.stdout[-3000:])


def ensure_facts(config="default", repo=None, verbose=True):
    """Return the directory holding fresh facts for the current source state."""
    repo = repo or REPO
    os.makedirs(os.path.join(CACHE, "facts"), exist_ok=True)
    h = source_hash(repo)
    d = os.path.join(CACHE, "facts", "%s-%s" % (h, config))
    ok = os.path.join(d, "OK")
    if os.path.exists(ok):
        os.utime(ok, None)
        return d
    lock = open(os.path.join(CACHE, "lock"), "w")
    fcntl.flock(lock, fcntl.LOCK_EX)
    try:
        if os.path.exists(ok):
            return d
        t0 = time.time()
        tmp = d + ".tmp.%d" % os.getpid()
        shutil.rmtree(tmp, ignore_errors=True)
        os.makedirs(tmp)
        target = TARGET if repo == REPO else os.environ.get("QV_TARGET", TARGET)
        if config != "default":
            target = target + "-" + config  # one build directory per feature configuration
        try:
            _run_qfacts(tmp, config, repo, target)
            if os.path.exists(QSYN_BIN):
                _run_qsyn(tmp, repo)
        except BuildError:
            shutil.rmtree(tmp, ignore_errors=True)
            raise
        with open(os.path.join(tmp, "OK"), "w") as fh:
            json.dump({"hash": h, "config": config, "repo": repo, "gen_s": time.time() - t0}, fh)
        shutil.rmtree(d, ignore_errors=True)
        os.rename(tmp, d)
        if verbose:
            print("[qv] facts %s generated in %.1fs" % (os.path.basename(d), time.time() - t0), file=sys.stderr)
        _prune(keep=6)
        return d
    finally:
        fcntl.flock(lock, fcntl.LOCK_UN)
        lock.close()


def _prune(keep):
    base = os.path.join(CACHE, "facts")
    ds = []
    for n in os.listdir(base):
        p = os.path.join(base, n)
        ok = os.path.join(p, "OK")
        if os.path.isdir(p) and os.path.exists(ok):
            ds.append((os.stat(ok).st_mtime, p))
        elif os.path.isdir(p) and ".tmp." in n and time.time() - os.stat(p).st_mtime > 3600:
            shutil.rmtree(p, ignore_errors=True)
    ds.sort(reverse=True)
    for _, p in ds[keep:]:
        shutil.rmtree(p, ignore_errors=True)


def load_raw(d, crate):
    """Load a qfacts JSON file; `crate::` paths are rewritten to `<crate>::`."""
    files = glob.glob(os.path.join(d, crate + "-*.json"))
    if not files:
        return None
    with open(files[0]) as fh:
        text = fh.read()
    text = re.sub(r"\bcrate::", crate + "::", text)
    return json.loads(text)


def load_mono(d, crate):
    files = glob.glob(os.path.join(d, "mono-" + crate + "-*.json"))
    if not files:
        return None
    with open(files[0]) as fh:
        text = fh.read()
    text = re.sub(r"\bcrate::", crate + "::", text)
    return json.loads(text)


def load_syn(d):
    p = os.path.join(d, "syn.json")
    if not os.path.exists(p):
        return None
    with open(p) as fh:
        return json.load(fh)
