"""C25 Computed schedules are as-soon-as-possible and frame-exclusive.

Decides (thin): the structural skeleton on which any correct schedule computation rests:
  R1 (K8/K2, sibling tables) instruction_duration_seconds has an explicit arm for exactly the instruction kinds the
          default handler schedules (role RFControl and is_scheduled): waveform duration for PULSE/CAPTURE, the
          `duration` expression for DELAY/RAW-CAPTURE, zero for FENCE/SET-*/SHIFT-*/SWAP-PHASES, None otherwise;
  R2 (K4) the topological traversal filter and the predecessor filter of as_schedule test the same edge kind,
          ExecutionDependency::Scheduled;
  R3 (K7/K5) for every InstructionIndex node visited, exactly one schedule item is pushed and its end time is
          recorded on every non-error path; end = start + duration; start is the fold (max) over predecessor end
          times starting from zero; the schedule duration is raised to the latest end.
Not decided: ASAP-ness, exclusivity, span unions - numeric properties of run-time graphs."""
from qv.engine import callee_path, fn_expr_operand, walk_expr, expr_calls
from qv.props import sched
from qv.props.common import aggregates, in_span, require_fn
from qv.report import Result
from qv.rules import k2_coverage as k2
from qv.rules.guards import same_origin
from qv.synq import find_all, src

INSTRUCTION = "quil_rs::instruction::Instruction"
ZERO = {"Fence", "SetFrequency", "SetPhase", "SetScale", "ShiftFrequency", "ShiftPhase", "SwapPhases"}
WAVE = {"Capture", "Pulse"}
DUR = {"Delay", "RawCapture"}


def run(ctx):
    res = Result("C25")
    db = ctx.db("quil_rs")
    syn = ctx.syn()
    res.rules += ["R1 duration table vs handler role table", "R2 same edge kind in both filters", "R3 one item per timed node; end = start + duration"]
    ids = [f for f in db.fns if f.name == "instruction_duration_seconds" and f.kind == "AssocFn"]
    role = [f for f in db.fns if f.path == "<quil_rs::instruction::DefaultHandler as quil_rs::instruction::InstructionHandler>::role"]
    issch = [f for f in db.fns if f.path == "<quil_rs::instruction::DefaultHandler as quil_rs::instruction::InstructionHandler>::is_scheduled"]
    asch = [f for f in db.fns if f.name == "as_schedule" and "ScheduledBasicBlock" in f.path and f.kind == "AssocFn"]
    if not (len(ids) == 1 and role and issch and len(asch) == 1):
        res.missing_anchor("instruction_duration_seconds / DefaultHandler::role / is_scheduled / ScheduledBasicBlock::as_schedule")
        return res
    ids, role, issch, asch = ids[0], role[0], issch[0], asch[0]
    # role table
    rf = set()
    mr = k2.match_on(db, role, INSTRUCTION)
    for a in mr[0]["arms"] if mr else []:
        vs, _ = k2.arm_variants(a, INSTRUCTION)
        kinds = {s["rv"]["a"]["variant"] for bb, s in aggregates(role) if in_span(s["sp"], a["body_sp"])}
        if kinds == {"RFControl"}:
            rf |= vs
    # is_scheduled exceptions: explicit arms returning constants
    unsched = set()
    sfi = syn.fn_for(issch)
    if sfi:
        for m in find_all(sfi["body"], lambda n: n.get("k") == "match"):
            for a in m["arms"]:
                b = a["body"]
                if b.get("k") == "lit" and b["t"] == "bool" and b["v"] is False:
                    for q in find_all(a["pat"], lambda n: n.get("k") in ("tstruct", "path")):
                        unsched.add((q.get("path") or q.get("p")).split("::")[-1])
    scheduled = rf - unsched
    # shape-independent reading of is_scheduled from its MIR: per Instruction variant, follow the switch on the
    # discriminant to the value returned: a constant, or `role(instruction) == RFControl`
    variants = [v["n"] for v in db.adts[INSTRUCTION]["variants"]]
    by_mir = None
    b0 = issch.blocks[0]["t"]
    if b0["k"] == "switch" and fn_expr_operand(issch, b0["d"])[0] == "discr":
        by_mir = {}
        for idx, vname in enumerate(variants):
            tgt = next((t_ for v_, t_ in b0["ts"] if int(v_) == idx), b0["else"])
            verdict = None
            seen_ = set()
            bb_ = tgt
            while bb_ is not None and bb_ not in seen_ and verdict is None:
                seen_.add(bb_)
                blk = issch.blocks[bb_]
                for st in blk["s"]:
                    if st["k"] == "assign" and st["p"]["l"] == 0 and not st["p"]["pr"] and st["rv"]["k"] == "use" and "k" in st["rv"]["o"]:
                        verdict = st["rv"]["o"]["k"].get("s") == "true"
                t_ = blk["t"]
                if verdict is not None:
                    break
                if t_["k"] == "goto":
                    bb_ = t_["t"]
                elif t_["k"] == "call":
                    c_ = t_.get("f", {}).get("k", {}).get("fn", {})
                    nm = c_.get("name")
                    if nm == "eq" and t_["dest"]["l"] == 0:
                        e_ = fn_expr_operand(issch, t_["args"][0])
                        verdict = "role" if (e_[0] == "call" and e_[1].endswith("::role")) else "?"
                        break
                    bb_ = t_.get("t")
                else:
                    verdict = "?"
            by_mir[vname] = verdict
        if any(v_ == "?" or v_ is None for v_ in by_mir.values()):
            by_mir = None
    if by_mir is not None:
        scheduled = {v_ for v_, r_ in by_mir.items() if r_ is True or (r_ == "role" and v_ in rf)}
        # WAIT is scheduled by the handler but is not an instruction with a duration (the graph builder rejects it)
        scheduled.discard("Wait")
    else:
        res.undecided.append("is_scheduled: shape not recognised from MIR; fell back to the role table minus literal `false` arms")
    res.analysed["scheduled_rf_kinds"] = sorted(scheduled)
    res.count("scheduled_rf_kinds", len(scheduled), floor=10)
    # duration table from syntax
    sfd = syn.fn_for(ids)
    tab = {}
    if sfd:
        ms = [m for m in find_all(sfd["body"], lambda n: n.get("k") == "match") if src(m["e"]) == "instruction"]
        for a in (ms[0]["arms"] if ms else []):
            names = {(q.get("path") or q.get("p")).split("::")[1] for q in find_all(a["pat"], lambda n: n.get("k") in ("tstruct", "path", "struct") and (n.get("path") or n.get("p") or "").startswith("Instruction::"))}
            body = src(a["body"]).replace(" ", "")
            kind = "waveform" if "waveform_duration_seconds" in body else ("duration-expr" if "duration.to_real" in body else ("zero" if "Seconds(0.0)" in body or "zero()" in body else ("none" if body == "None" else body[:40])))
            for n in names:
                tab[n] = kind
            if a["pat"]["k"] == "wild":
                tab["_"] = kind
    for v in sorted(scheduled | set(k for k in tab if k != "_")):
        want = "waveform" if v in WAVE else "duration-expr" if v in DUR else "zero" if v in ZERO else None
        got = tab.get(v)
        key = "K8|duration-table|%s" % v
        ok = v in scheduled and got == want and want is not None
        res.site(key, True, {"variant": v, "scheduled_by_handler": v in scheduled, "duration_rule": got, "expected": want, "verdict": "ok" if ok else "VIOLATION"})
        if not ok:
            res.find(key, ids.loc(), "Instruction::%s: the default handler %s it, instruction_duration_seconds gives it %s (documented: %s)" % (v, "schedules" if v in scheduled else "does not schedule", got or "no explicit arm (None)", want), "a block containing a %s cannot be scheduled in seconds, or gets a wrong duration" % v)
    key = "K8|duration-table|default"
    ok = tab.get("_") == "none"
    res.site(key, True, {"default": tab.get("_"), "verdict": "ok" if ok else "VIOLATION"})
    if not ok:
        res.find(key, ids.loc(), "the default arm of instruction_duration_seconds is %s instead of None" % tab.get("_"))
    # R2 edge kind
    kinds = []
    for g in [asch] + db.closures_of(asch):
        for bb, s in aggregates(g, sched.EDEP):
            kinds.append(s["rv"]["a"]["variant"])
        # promoted constants (`&ExecutionDependency::Scheduled`) are separate bodies
    for g in db.fns:
        if g.kind == "Promoted" and g.raw.get("root", "").startswith(asch.path):
            for bb, s in aggregates(g, sched.EDEP):
                kinds.append(s["rv"]["a"]["variant"])
    key = "K4|edge-filter-kind"
    ok = len(kinds) >= 2 and set(kinds) == {"Scheduled"}
    res.site(key, True, {"edge_kinds_tested": kinds, "verdict": "ok" if ok else "VIOLATION"})
    if not ok:
        res.find(key, asch.loc(), "the traversal filter and the predecessor filter of as_schedule do not both (and only) test ExecutionDependency::Scheduled: %s" % kinds, "an instruction starts before a timed predecessor ends, or waits for an untimed one")
    # R2b the start time is the LATEST end among the timed predecessors: the fold over their end times keeps the larger
    # of (accumulator, element), starting from zero
    from qv.rules import truth as _truth

    key = "K9|start-is-latest-predecessor-end"
    folds = [(bb, t) for bb, t, c in asch.calls() if c and c.get("name") == "fold" and len(t["args"]) == 3]
    ok = False
    detail = {"folds": len(folds)}
    if len(folds) == 1:
        init = fn_expr_operand(asch, folds[0][1]["args"][1])
        clo = fn_expr_operand(asch, folds[0][1]["args"][2])
        gs = db.by_path.get(clo[1], []) if clo[0] == "closure" else []
        if len(gs) == 1:
            g = gs[0]
            sel = _truth.select_of(g, 0)
            same = lambda a, b: a == b or (a[0] == "param" and b[0] == "param" and a[1] == b[1])
            mm = _truth.minmax_of(sel, same)
            both = mm is not None and {mm[1][1] if mm[1][0] == "param" else None, mm[2][1] if mm[2][0] == "param" else None} == {2, 3}
            init_zero = init[0] == "call" and init[1].rsplit("::", 1)[-1] == "zero"
            ok = bool(mm) and mm[0] == "max" and both and init_zero
            detail.update({"combination": mm[0] if mm else None, "of_accumulator_and_element": both, "starts_from_zero": init_zero})
        elif clo[0] in ("fnconst",) and clo[1].rsplit("::", 1)[-1] == "max":
            ok = True
            detail["combination"] = "max (function)"
    res.site(key, True, dict(detail, verdict="ok" if ok else "VIOLATION"))
    if not ok:
        res.find(key, asch.loc(), "the start time of an instruction is not the maximum of its timed predecessors' end times (fold from zero keeping the larger value): %s" % detail, "an instruction with two timed predecessors of different length starts when the shorter one ends")
    # R2c the schedule's duration is the latest end time: it is overwritten with an item's end time exactly when that end
    # time is later
    key = "K7|duration-is-latest-end"
    stores = []
    for i, j, st in asch.stmts():
        if st["k"] == "assign" and any(isinstance(pr, dict) and pr.get("n") == "duration" and str(pr.get("o", "")).endswith("::Schedule") for pr in st["p"]["pr"]):
            deps = sorted(asch.control_deps(i, transitive=False))
            if deps:
                stores.append((i, st, deps))
    ok = False
    detail = {"conditional_duration_stores": len(stores)}
    if len(stores) == 1:
        i, st, deps = stores[0]
        from qv.engine import fn_expr_rvalue as _rv25

        val = _rv25(asch, st["rv"])
        while val[0] == "call" and val[1].rsplit("::", 1)[-1] == "clone" and val[2]:
            val = val[2][0]
        if len(deps) == 1:
            sb, tgt = deps[0]
            tt = asch.blocks[sb]["t"]
            cond = fn_expr_operand(asch, tt["d"]) if tt["k"] == "switch" else ("x",)
            if cond[0] == "call" and cond[1].rsplit("::", 1)[-1] in ("lt", "gt", "le", "ge") and len(cond[2]) == 2:
                op = cond[1].rsplit("::", 1)[-1]
                a0, a1 = cond[2]
                strip = lambda e: e[2][0] if e[0] == "call" and e[1].rsplit("::", 1)[-1] == "clone" and e[2] else e
                a0, a1 = strip(a0), strip(a1)
                is_dur = lambda e: e[0] == "field" and e[2] == "duration"
                false_targets = [target for v, target in tt["ts"] if int(v) == 0]
                on_true = bool(false_targets) and tgt not in false_targets
                # stored when duration < end  (or end > duration)
                if is_dur(a0) and a1 == val:
                    later = (op in ("lt", "le")) == on_true
                elif is_dur(a1) and a0 == val:
                    later = (op in ("gt", "ge")) == on_true
                else:
                    later = None
                ok = later is True and val[0] == "call" and val[1].rsplit("::", 1)[-1] == "add"
                detail.update({"comparison": op, "stored_when_end_is_later": later, "stored_value_is_end_time": val[0] == "call" and val[1].rsplit("::", 1)[-1] == "add"})
    res.site(key, True, dict(detail, verdict="ok" if ok else "VIOLATION"))
    if not ok:
        res.find(key, asch.loc(), "Schedule::duration is not raised to an item's end time exactly when that end time is later (%s)" % detail, "a block whose last scheduled item ends before an earlier, longer one reports the shorter duration")
    # R3 items
    pushes = [(bb, t) for bb, t, c in asch.calls() if c and c.get("name") == "push" and "Vec" in callee_path(c)]
    inserts = [(bb, t) for bb, t, c in asch.calls() if c and c.get("name") == "insert" and "HashMap" in callee_path(c)]
    adds = [(bb, t) for bb, t, c in asch.calls() if c and c.get("trait") == "std::ops::Add" and c.get("name") == "add"]
    key = "K7|one-item-per-node"
    ok = len(pushes) == 1 and len(inserts) == 1 and len(adds) == 1
    detail = {"pushes": len(pushes), "end_time_inserts": len(inserts), "additions": len(adds)}
    if ok:
        # same straight-line region: push and insert dominate/post-dominate each other
        pb, ib = pushes[0][0], inserts[0][0]
        dom = asch.dominators()
        ok = ib in dom.get(pb, set()) or pb in dom.get(ib, set()) or ib == pb
        # end = start + duration: the Add's operands are the fold result and the duration
        a0 = fn_expr_operand(asch, adds[0][1]["args"][0])
        a1 = fn_expr_operand(asch, adds[0][1]["args"][1])
        c0 = [c[1].rsplit("::", 1)[-1] for c in expr_calls(a0)]
        detail["start_from_fold"] = "fold" in c0
        ok = ok and "fold" in c0
        # the inserted end time is the Add result
        ins_val = fn_expr_operand(asch, inserts[0][1]["args"][2]) if len(inserts[0][1]["args"]) > 2 else ("x",)
        detail["end_is_start_plus_duration"] = any(c[1].endswith("::add") for c in expr_calls(ins_val))
        ok = ok and detail["end_is_start_plus_duration"]
    res.site(key, True, dict(detail, verdict="ok" if ok else "VIOLATION"))
    if not ok:
        res.find(key, asch.loc(), "as_schedule does not (push exactly one item and record exactly one end time per timed node, with end = fold(max of predecessor ends) + duration): %s" % detail, "a timed instruction appears twice / not at all, or starts at the wrong time")
    # fold keeps the larger; schedule.duration raised with `<`
    folds = [g for g in db.closures_of(asch) if any(s["k"] == "assign" and s["rv"]["k"] == "bin" and s["rv"]["op"] in ("Gt", "Lt", "Ge", "Le") for i, j, s in g.stmts()) or any(c and c.get("name") in ("gt", "lt", "ge", "le") for bb, t, c in g.calls())]
    key = "K8|max-fold"
    ok = bool(folds)
    res.site(key, True, {"comparison_closures": len(folds), "verdict": "ok" if ok else "VIOLATION"})
    if not ok:
        res.find(key, asch.loc(), "no comparison closure (running maximum of predecessor end times) found in as_schedule", "an instruction starts when its *first* rather than its *last* timed predecessor ends")
    # R4 TimeSpan::union = [min(starts), max(ends)): on every path the returned start is one of the two starts and the
    #    path condition contains the comparison that makes it the smaller one; likewise the end is the larger end
    from qv.rules import pathsym
    un = [f for f in db.fns if f.name == "union" and "schedule::TimeSpan" in f.path and f.kind == "AssocFn"]
    if len(un) != 1:
        res.missing_anchor("TimeSpan::union")
    else:
        u = un[0]
        S = {w: ("field", ("param", i_, w), "start_time", None) for i_, w in ((1, "self"), (2, "rhs"))}
        D = {w: ("field", ("param", i_, w), "duration", None) for i_, w in ((1, "self"), (2, "rhs"))}

        def same(a, b):
            a, b = pathsym._strip_clone(a), pathsym._strip_clone(b)
            if a[0] == "field" and b[0] == "field":
                return a[2] == b[2] and same(a[1], b[1])
            if a[0] == "param" and b[0] == "param":
                return a[1] == b[1]
            if a[0] == "call" and b[0] == "call":
                return a[1] == b[1] and len(a[2]) == len(b[2]) and all(same(x, y) for x, y in zip(a[2], b[2]))
            return a == b

        def which_start(e):
            return [w for w in S if same(e, S[w])]

        def which_end(e):
            e = pathsym._strip_clone(e)
            if e[0] == "call" and e[1].endswith("::add") and len(e[2]) == 2:
                return [w for w in S if same(e[2][0], S[w]) and same(e[2][1], D[w])]
            return []

        verdict, detail = "ok", {"paths": 0, "bad": []}
        try:
            ps = pathsym.paths(u)
            detail["paths"] = len(ps)
            for conds, env, blocks in ps:
                r = env.get(0, ("undef", 0))
                if not (r[0] == "agg" and r[1].endswith("schedule::TimeSpan")):
                    verdict = "undecided: result shape"
                    break
                st, du = r[3]["start_time"], pathsym._strip_clone(r[3]["duration"])
                ws = which_start(st)
                if not (du[0] == "call" and du[1].endswith("::sub") and len(du[2]) == 2):
                    detail["bad"].append("duration is not end - start")
                    continue
                we = which_end(du[2][0])
                if not ws or not we or not same(du[2][1], st):
                    detail["bad"].append("start/end are not one of the operands' start/end")
                    continue
                other_s = [w for w in S if w != ws[0]][0]
                other_e = [w for w in S if w != we[0]][0]
                end_of = lambda w: ("call", "std::ops::Add::add", [S[w], D[w]], 0)
                if not pathsym.implies_le(conds, S[ws[0]], S[other_s], same):
                    detail["bad"].append("returns %s.start on a path that does not establish %s.start <= %s.start" % (ws[0], ws[0], other_s))
                if not pathsym.implies_le(conds, end_of(other_e), end_of(we[0]), same):
                    detail["bad"].append("ends at %s's end on a path that does not establish %s.end <= %s.end" % (we[0], other_e, we[0]))
            if detail["bad"]:
                verdict = "VIOLATION"
        except pathsym.TooComplex as ex:
            verdict = "undecided: %s" % ex
        res.site("K9|timespan-union", True, dict(detail, verdict=verdict))
        if verdict == "VIOLATION":
            res.find("K9|timespan-union", u.loc(), "TimeSpan::union is not {start: min(self.start, rhs.start), duration: max(self.end, rhs.end) - start}: %s" % sorted(set(detail["bad"])), "union of (0,10) and (0,1) - a short span nested in a long one - comes out as (0,1)")
        elif verdict != "ok":
            res.undecided.append("K9|timespan-union " + verdict)
    # R5 calibrated scheduling maps times back through `first calibrated index -> source index`
    bas = [f for f in db.fns if f.name == "as_schedule" and "control_flow_graph::BasicBlock" in f.path and f.kind == "AssocFn"]
    if len(bas) != 1:
        res.missing_anchor("BasicBlock::as_schedule")
    else:
        b_ = bas[0]
        dom = b_.dominators()
        cn = lambda name: [(bb, t, [fn_expr_operand(b_, a) for a in t["args"]]) for bb, t, c in b_.calls() if c and c.get("name") == name]
        ins = [x for x in cn("insert") if len(x[2]) == 3]
        ext, psh = cn("extend"), cn("push")
        ok = len(ins) == 1 and len(ext) == 1 and len(psh) == 1
        if ok:
            key_e, val_e = ins[0][2][1], ins[0][2][2]
            ok = key_e[0] == "call" and key_e[1].endswith("::len") and same_origin(key_e[2][0], ext[0][2][0]) and key_e[3] in dom.get(ext[0][0], set()) and key_e[3] in dom.get(psh[0][0], set()) \
                and val_e[0] == "field" and val_e[2] == "0" and any(n[0] == "call" and n[1].endswith("::enumerate") for n in _nodes(val_e))
            # the insert happens for every source instruction
            ok = ok and not [c for c in b_.control_deps(ins[0][0], transitive=False) if not _is_loop_or_try(b_, c[0])]
        res.site("K5|calibrated-index-map", True, {"verdict": "ok" if ok else "VIOLATION"})
        if not ok:
            res.find("K5|calibrated-index-map", b_.loc(), "BasicBlock::as_schedule does not record, for every source instruction, (number of calibrated instructions emitted before it) -> (its index)", "the time span of an expanded instruction is attributed to its neighbour")
        fold = [g for g in db.closures_of(b_) if any(c and c.get("name") == "union" for bb, t, c in g.calls())]
        ok = False
        if len(fold) == 1:
            g = fold[0]
            gc = lambda name: [(bb, t, [fn_expr_operand(g, a) for a in t["args"]]) for bb, t, c in g.calls() if c and c.get("name") == name]
            rng, nb, un_, in_ = gc("range"), gc("next_back"), gc("union"), gc("insert")
            if len(rng) == 1 and len(nb) == 1 and len(un_) == 1 and len(in_) == 1:
                r = rng[0][2][1]
                upto = r[0] == "agg" and r[1].endswith("RangeToInclusive") and r[3]["end"][0] == "field" and r[3]["end"][2] == "instruction_index"
                uargs = un_[0][2]
                merged = any(n[0] == "call" and n[1].endswith("::get_mut") for n in _nodes(uargs[0])) and uargs[1][0] == "field" and uargs[1][2] == "time_span"
                # result of union is stored back into the existing entry
                stored = any(s_["k"] == "assign" and s_["p"]["pr"] and fn_expr_operand(g, {"m": {"l": s_["p"]["l"], "pr": []}})[0] in ("field", "as", "call") and any(c[1].endswith("::union") for c in expr_calls(__import__("qv.engine", fromlist=["fn_expr_rvalue"]).fn_expr_rvalue(g, s_["rv"]))) for i_, j_, s_ in g.stmts())
                fresh = in_[0][2][2][0] == "field" and in_[0][2][2][2] == "time_span"
                ok = upto and merged and stored and fresh
        res.site("K5|calibrated-span-merge", True, {"verdict": "ok" if ok else "VIOLATION"})
        if not ok:
            res.find("K5|calibrated-span-merge", b_.loc(), "BasicBlock::as_schedule does not merge the spans of a source instruction's calibrated instructions (lookup of the greatest recorded index <= the calibrated index; union into the existing span, or insert)", "a gate calibrated to two pulses is reported with the span of only one of them")
    # R6 documented duration of a waveform: a waveform *defined* in the program (DEFWAVEFORM) lasts samples / sample rate; the
    #    template parameter `duration` is consulted only when the name is not defined
    wd = [f_ for f_ in db.fns if f_.name == "waveform_duration_seconds" and "schedule" in f_.path and f_.kind in ("AssocFn", "Fn")]
    key = "K7|defined-waveform-before-template-duration"
    if len(wd) != 1:
        res.missing_anchor("waveform_duration_seconds")
    else:
        w_ = wd[0]
        dur_sites = []
        for bb, t, c in w_.calls():
            for a in t["args"]:
                e = fn_expr_operand(w_, a)
                if any(n[0] == "const" and n[1] == "duration" for n in _nodes(e)):
                    dur_sites.append(bb)
        ok = bool(dur_sites)
        for bb in dur_sites:
            guarded = False
            for sb, tgt in w_.control_deps(bb):
                tt = w_.blocks[sb]["t"]
                if tt["k"] == "switch":
                    de = fn_expr_operand(w_, tt["d"])
                    if de[0] == "discr" and de[1][0] == "call" and de[1][1].endswith("::get") and any(n[0] == "field" and n[2] == "waveforms" for n in _nodes(de[1])):
                        taken = [int(v) for v, x in tt["ts"] if x == tgt]
                        guarded = guarded or taken == [0] or (not taken and [int(v) for v, x in tt["ts"]] == [1])
            ok = ok and guarded
        res.site(key, True, {"template_duration_sites": len(dur_sites), "verdict": "ok" if ok else "VIOLATION"})
        if not ok:
            res.find(key, w_.loc(), "waveform_duration_seconds reads the template parameter `duration` without first finding that the waveform is not defined in the program: a defined waveform with a parameter of that name gets the wrong duration", "`DEFWAVEFORM custom(%duration): ...` used as `PULSE 0 \"a\" custom(duration: 3.0)`")
    res.explanation = "Sibling-table agreement between the default handler's role/is_scheduled tables and the duration table, equality of the edge kind tested by the two filters of as_schedule, and the one-item-per-node / end = start + duration skeleton."
    res.assumptions = ["petgraph Topo over EdgeFiltered visits every node once in a topological order of the filtered edges"]
    return res


def _nodes(e):
    out = []
    walk_expr(e, out.append)
    return out


def _is_loop_or_try(f, sb):
    t = f.blocks[sb]["t"]
    if t["k"] != "switch":
        return False
    e = fn_expr_operand(f, t["d"])
    return e[0] == "discr" and e[1][0] == "call" and (e[1][1].endswith("::next") or e[1][1].endswith("Try>::branch"))
