"""C01 Parsing never panics or aborts on any input text.

Rule K1 (panic reachability) over the *monomorphic* call graph from the parse entry
points.  Every panic-capable site in a reachable local function is an obligation; it
is discharged only by a typed, machine-checked guard (qv/rules/guards.py).  Input-driven
recursion cycles (unbounded recursive descent = stack overflow = abort) are
obligations too."""
import re

from qv.report import Result
from qv.rules import guards
from qv.rules.k1_panic import sites_in

ENTRY_TYPES = [
    "quil_rs::program::Program",
    "quil_rs::instruction::Instruction",
    "quil_rs::expression::Expression",
    "quil_rs::instruction::declaration::MemoryReference",
    "quil_rs::instruction::frame::FrameIdentifier",
]
IGNORED_ASSERTS = ("MisalignedPointerDereference", "NullPointerDereference", "InvalidEnumConstruction")
PARSER_INPUT = re.compile(r"TokenWithLocation|nom_locate::LocatedSpan")


def streaming_refs(db, mono):
    refs = set()
    for n in mono.nodes:
        if "::streaming::" in n["path"]:
            refs.add(n["path"])
    for f in db.fns:
        for _, t, c in f.calls():
            if c and "::streaming::" in c["path"]:
                refs.add(c["path"])
    return sorted(refs)


def discharge(db, mono, fn, s, stream):
    if s.kind == "assert" and s.detail in IGNORED_ASSERTS:
        return "debug-build pointer/enum validity check inserted by rustc, not a property of the input"
    if s.kind == "assert":
        return guards.discharge_add_small(db, fn, s) or guards.discharge_sum_of_lens(db, fn, s)
    if s.kind == "partial" and s.detail == "Index::index":
        return guards.discharge_index(db, fn, s) or guards.discharge_indexed_by_position(db, fn, s)
    if s.kind == "partial" and s.detail == "Result::unwrap/expect":
        return guards.discharge_unwrap_const_utf8(db, mono, fn, s) or guards.discharge_unwrap_always_some(db, fn, s) or guards.discharge_constant_initializer(db, fn, s)
    if s.kind == "partial" and s.detail == "Option::unwrap/expect":
        return guards.discharge_unwrap_always_some(db, fn, s)
    if s.kind == "partial" and "byte-offset slice" in s.detail:
        return guards.discharge_slice(db, fn, s)
    if s.kind == "panic":
        return guards.discharge_incomplete_unreachable(db, fn, s, stream)
    return None


NONDESC_STATS = {"edges": 0}
FMT_ARG = re.compile(r"^core::fmt::rt::Argument::<'_>::new_(display|debug|lower_exp|upper_exp|lower_hex|upper_hex|octal|binary|pointer)$")
FMT_TRAIT = {"display": "std::fmt::Display", "debug": "std::fmt::Debug", "lower_exp": "std::fmt::LowerExp"}


def nondescending_cycles(db, local_dps):
    """cycles over local functions where each edge passes param 1 itself as the callee's first argument"""
    from qv.engine import callee_of, callee_path, fn_expr_operand
    from qv.rules.guards import root

    edges = {}
    for dp in local_dps:
        f = db.by_dp.get(dp)
        if f is None or f.argc < 1:
            continue
        for bb, t, c in f.calls():
            if c is None or not t["args"]:
                continue
            p = callee_path(c)
            target = None
            m = FMT_ARG.match(p)
            if m:
                tr = FMT_TRAIT.get(m.group(1))
                # T is the first generic arg; strip references
                if tr and c.get("args"):
                    ty = db.types[c["args"][0]]
                    while ty["k"] == "ref":
                        ty = db.types[ty["t"]]
                    if ty["k"] == "adt":
                        hs = db.trait_impl(tr, ty["path"], "fmt")
                        if len(hs) == 1:
                            target = hs[0]
            else:
                hs = db.by_path.get(p, [])
                if len(hs) == 1 and hs[0].dp in local_dps:
                    target = hs[0]
            if target is None:
                continue
            NONDESC_STATS["edges"] += 1
            # same-value edge: every argument is one of the caller's own parameters, unchanged
            # (no field projection, no computed value); a descending or fresh argument breaks the cycle
            same = True
            nparams = 0
            for a in (t["args"][:1] if m else t["args"]):
                e = fn_expr_operand(f, a)
                r, path = root(e)
                if r[0] == "param" and not path:
                    nparams += 1
                elif r[0] == "const":
                    continue
                else:
                    same = False
            if same and nparams:
                edges.setdefault(f.path, set()).add(target.path)
    # cycles in the same-value graph
    cycles = []
    seen_in_cycle = set()
    for start in sorted(edges):
        if start in seen_in_cycle:
            continue
        stack = [(start, [start])]
        visited = set()
        while stack:
            node, pth = stack.pop()
            for nxt in sorted(edges.get(node, ())):
                if nxt == start:
                    cycles.append(set(pth))
                    seen_in_cycle.update(pth)
                    stack = []
                    break
                if nxt not in visited and nxt in edges:
                    visited.add(nxt)
                    stack.append((nxt, pth + [nxt]))
    return cycles


WITNESS = {
    "todo": "a program starting with `NONBLOCKING` followed by anything but PULSE/CAPTURE/RAW-CAPTURE, e.g. `NONBLOCKING X 0`",
    "panic": "a signed operand that is not a literal, e.g. `ADD ro +ro`",
    "Overflow(Mul)": "`MOVE ro -9223372036854775808` (u64 literal cast to i64 then multiplied by the sign)",
}


def run(ctx):
    res = Result("C01")
    db = ctx.db("quil_rs")
    mono = ctx.mono("quil_rs")
    res.rules.append("K1 panic reachability from the parse entry points over the monomorphic call graph; every Assert terminator, panic entry call, partial std API call and input-driven recursion cycle in a reachable local function is an obligation; discharged only by a machine-checked guard")

    entries = []
    for ty in ENTRY_TYPES:
        e = db.trait_impl("std::str::FromStr", ty, "from_str")
        if len(e) != 1:
            res.missing_anchor("<%s as FromStr>::from_str" % ty)
            continue
        entries.append(e[0])
    if ctx.tier == "thorough":
        for f in db.trait_methods.get(("std::str::FromStr", "from_str"), []):
            if f not in entries:
                entries.append(f)
    roots = mono.roots([e.dp for e in entries])
    if len(roots) < len(entries):
        res.missing_anchor("mono-graph roots for parse entries")
    parent = mono.reach(roots)
    local = mono.local_dps(parent)

    # quil-cli parse: reachable quil_rs functions seen from the CLI's own mono graph
    cli_extra = 0
    try:
        cdb = ctx.db("quil_cli")
        cmono = ctx.mono("quil_cli")
        hp = [f for f in cdb.fns if f.path == "quil_cli::handle_parse"]
        if not hp:
            res.missing_anchor("quil_cli::handle_parse")
        else:
            cpar = cmono.reach(cmono.roots([hp[0].dp]))
            for i in cpar:
                n = cmono.nodes[i]
                if n["dp"].startswith("quil_rs::") and n["dp"] in db.by_dp and n["dp"] not in local:
                    local.add(n["dp"])
                    cli_extra += 1
            # sites in the CLI crate itself
            for i in cpar:
                n = cmono.nodes[i]
                if n["local"] and n["dp"] in cdb.by_dp:
                    for s in sites_in(cdb.by_dp[n["dp"]]):
                        if s.kind == "assert" and s.detail in IGNORED_ASSERTS:
                            continue
                        res.site(s.key, True)
                        res.find(s.key, s.loc, "panic-capable site in quil-cli parse path: %s %s" % (s.kind, s.detail))
    except Exception as e:  # noqa: BLE001
        res.missing_anchor("quil_cli facts (%s)" % e)

    stream = streaming_refs(db, mono)
    nsites = 0
    discharged = 0
    for dp in sorted(local):
        f = db.by_dp.get(dp)
        if f is None:
            continue  # constructors
        for s in sites_in(f):
            nsites += 1
            why = discharge(db, mono, f, s, stream)
            nontrivial = not (s.kind == "assert" and s.detail in IGNORED_ASSERTS)
            res.site(s.key, nontrivial, {"site": s.key, "loc": s.loc, "verdict": "discharged" if why else "VIOLATION", "reason": why} if nontrivial else None)
            if why:
                discharged += 1
                if nontrivial:
                    res.exceptions.append((s.key, why))
                continue
            chain = mono.chain_to_dp(parent, dp)
            wit = WITNESS.get(s.detail)
            res.find(s.key, s.loc, "%s `%s` reachable from a parse entry point via %s" % (s.kind, s.detail, " > ".join(x.replace("quil_rs::", "") for x in chain[-4:])), wit)

    # recursion cycles driven by the input
    sccs = mono.cyclic_sccs(parent.keys())
    nrec = 0
    for comp in sccs:
        members = sorted({mono.nodes[i]["dp"] for i in comp if mono.nodes[i]["local"]})
        fns = [db.by_dp[m] for m in members if m in db.by_dp]
        named = sorted(f.path for f in fns if f.kind != "Closure")
        if not named:
            continue
        consumes_input = any(PARSER_INPUT.search(db.ty_s(t)) for f in fns for t in f.raw.get("inputs", []))
        key = "K1|recursion|" + named[0]
        res.site(key, consumes_input, {"cycle": named, "input_driven": consumes_input})
        if consumes_input:
            nrec += 1
            res.find(key, fns[0].loc(), "unbounded input-driven recursion (no depth bound): cycle {%s}; deeply nested input overflows the stack, which aborts the process" % ", ".join(x.replace("quil_rs::", "") for x in named), "an expression of 10000 nested parentheses / deeply nested DEFCAL blocks")

    # non-descending recursion: a cycle of local functions in which every call passes the caller's own
    # first argument unchanged (no field projection) recurses forever on every value reaching it
    nd = nondescending_cycles(db, local)
    for cyc in nd:
        key = "K1|nondescending-recursion|" + sorted(cyc)[0]
        f0 = db.by_path[sorted(cyc)[0]][0]
        res.site(key, True, {"cycle": sorted(cyc), "verdict": "VIOLATION"})
        res.find(key, f0.loc(), "recursion cycle in which each function passes its own `self` on unchanged: {%s}; any value reaching it overflows the stack (process abort)" % ", ".join(x.replace("quil_rs::", "") for x in sorted(cyc)), "a parse error positioned at a token that takes this path")
    res.count("same_value_call_edges_examined", NONDESC_STATS["edges"])

    res.count("reachable_local_functions", len(local), floor=300)
    res.count("panic_capable_sites", nsites, floor=15)
    res.count("discharged_sites", discharged)
    res.count("input_driven_recursion_cycles", nrec)
    res.count("cli_extra_functions", cli_extra)
    res.analysed = {"entries": [e.path for e in entries] + ["quil_cli::handle_parse"], "mono_nodes_reachable": len(parent), "streaming_refs": stream, "mono_skipped": mono.skipped}
    res.explanation = (
        "Static panic-reachability (rule K1).  The monomorphic call graph (instances resolved as codegen would, external generic bodies walked) "
        "from the five FromStr parse entry points and quil-cli's handle_parse reaches %d local functions; in them %d panic-capable sites "
        "(MIR Assert terminators, calls to panic entry points, partial std APIs) were enumerated, %d discharged by machine-checked guards, "
        "the rest reported.  Recursion cycles whose members consume parser input are reported as unbounded recursion.  "
        "Not decided: panics inside external crates other than through the partial-API list; memory exhaustion." % (len(local), nsites, discharged)
    )
    res.assumptions = [
        "rustc type checking / MIR construction for default features, cfg(test) off",
        "nom complete combinators never return Err::Incomplete",
        "lexical::parse_partial returns a consumed length <= input length on a char boundary (ASCII digits)",
        "panics inside external crates are seen only through the partial-API deny list",
    ]
    return res
