"""C23 Memory accesses are sequentially consistent in the dependency graph.

Decides the queue protocol and its wiring:
  R1 (K7) DependencyQueue::record_access_and_get_dependencies: the result is seeded from the pending write on every
          path; in the Write arm all pending reads are moved into the result (drain / take / clear idioms) and the
          pending write is replaced by the current action; in the Read arm the action is added to the pending reads
          and the pending write is not assigned; into_pending_dependencies returns reads and write;
  R2 (K8) MemoryAccessType::classify: Read -> Read, Write | Capture -> Write; initial_writer() = None;
  R3 (K8) wiring in ScheduledBasicBlock::build: accesses.reads/writes/captures are paired with
          MemoryAccessType::Read/Write/Capture; one queue per region (entry(region)); every returned dependency
          becomes an AwaitMemoryAccess edge to the current node, except the node itself.
(N) if the Write path does not report pending reads, `MOVE a b; MOVE b 1` loses the write-after-read edge.
Not decided: transitivity arguments; that memory_accesses is right (C27)."""
from qv.engine import callee_path, fn_expr_operand, fn_expr_local, walk_expr
from qv.props import sched
from qv.props.common import aggregates, in_span
from qv.report import Result
from qv.rules import k2_coverage as k2

DQ = "quil_rs::program::scheduling::graph::dependency_queue::DependencyQueue"
AA = "quil_rs::program::scheduling::graph::dependency_queue::AccessingAction"


def field_stores(f, adt, field):
    return [(i, s) for i, j, s in f.stmts() if s["k"] == "assign" and any(isinstance(pr, dict) and pr.get("o") == adt and pr.get("n") == field for pr in s["p"]["pr"])]


def calls_on_field(f, adt, field):
    """(bb, term, name) for calls whose first argument borrows self.<field>"""
    out = []
    for bb, t, c in f.calls():
        if not c or not t["args"]:
            continue
        p = t["args"][0].get("m") or t["args"][0].get("c")
        names = []
        depth = 0
        while p is not None and depth < 3:
            names += [pr["n"] for pr in p["pr"] if isinstance(pr, dict) and pr.get("o") == adt]
            ds = f.defs().get(p["l"], [])
            p = ds[0][3]["rv"].get("p") if len(ds) == 1 and ds[0][0] == "s" and ds[0][3]["k"] == "assign" and ds[0][3]["rv"]["k"] in ("ref", "copyderef") else None
            depth += 1
        if field in names:
            out.append((bb, t, c.get("name")))
    return out


def run(ctx):
    res = Result("C23")
    db = ctx.db("quil_rs")
    res.rules += ["R1 (K7) queue protocol", "R2 (K8) classify table for memory accesses", "R3 (K8) wiring of access kinds, per-region queues and AwaitMemoryAccess edges"]
    rec = [f for f in db.fns if f.name == "record_access_and_get_dependencies" and "DependencyQueue" in f.path]
    ipd = [f for f in db.fns if f.name == "into_pending_dependencies" and "DependencyQueue" in f.path]
    if len(rec) != 1 or len(ipd) != 1:
        res.missing_anchor("DependencyQueue::record_access_and_get_dependencies / into_pending_dependencies")
        return res
    rec, ipd = rec[0], ipd[0]
    # R1 seeded from write on every path: the returned local is initialised from self.write before the match
    ret = fn_expr_local(rec, 0)
    names = []
    walk_expr(ret, lambda n: names.append(n[2]) if n[0] == "field" else None)
    key = "K7|result-seeded-from-pending-write"
    ok = "write" in names
    res.site(key, True, {"result_origin_fields": sorted(set(names)), "verdict": "ok" if ok else "VIOLATION"})
    if not ok:
        res.find(key, rec.loc(), "the dependencies returned by record_access_and_get_dependencies are not seeded from the pending write: an access after a write is not ordered after it", "`MOVE a 1; MOVE b a`: the read of a does not depend on the write")
    ms = k2.match_on(db, rec, AA)
    if not ms:
        res.missing_anchor("match on AccessingAction in record_access_and_get_dependencies")
        return res
    m = ms[0]
    arms = {}
    for a in m["arms"]:
        vs, _ = k2.arm_variants(a, AA)
        for v in vs:
            arms[v] = a
    wstores = field_stores(rec, DQ, "write")
    rcalls = calls_on_field(rec, DQ, "reads")
    for v, want_store, want_calls, forbid_calls, msg, wit in (
        ("Write", True, {"drain", "take", "clear", "into_iter"}, set(), "the Write arm does not move the pending reads into the result and replace the pending write", "`MOVE a b; MOVE b 1`: the write to b is not ordered after the earlier read of b"),
        ("Read", False, {"insert", "push", "extend"}, {"drain", "clear", "take"}, "the Read arm does not (only) add the action to the pending reads", "`MOVE a b; MOVE c b; MOVE b 1`: the write is ordered after only one of the reads, or two reads get ordered"),
    ):
        a = arms.get(v)
        key = "K7|queue-protocol|%s" % v
        if not a:
            res.find(key, rec.loc(), "no arm for AccessingAction::%s" % v)
            continue
        st = [1 for bb, s in wstores if in_span(s["sp"], a["body_sp"])]
        cl = {nm for bb, t, nm in rcalls if in_span(t["sp"], a["body_sp"])}
        ok = (bool(st) == want_store) and bool(cl & want_calls) and not (cl & forbid_calls)
        if v == "Write":
            # the drained reads must reach the result: an extend of the result in the arm
            ok = ok and any(c and c.get("name") in ("extend", "insert", "union", "append") and in_span(t["sp"], a["body_sp"]) for bb, t, c in rec.calls())
        res.site(key, True, {"arm": v, "assigns_pending_write": bool(st), "calls_on_pending_reads": sorted(x for x in cl if x), "verdict": "ok" if ok else "VIOLATION"})
        if not ok:
            res.find(key, rec.loc(a["sp"]), "%s (assigns write: %s; calls on reads: %s)" % (msg, bool(st), sorted(x for x in cl if x)), wit)
    # the pending write survives reads: it is mutated (assigned, or mutably borrowed: take / replace / insert ...) only
    # inside the Write arm
    key = "K7|pending-write-kept-across-reads"
    warm = arms.get("Write")
    outside = []
    for bb, s_ in wstores:
        if not (warm and in_span(s_["sp"], warm["body_sp"])):
            outside.append("assignment")
    for i, j, s_ in rec.stmts():
        if s_["k"] == "assign" and s_["rv"]["k"] == "ref" and s_["rv"].get("m") == "mut" and any(isinstance(pr, dict) and pr.get("o") == DQ and pr.get("n") == "write" for pr in s_["rv"]["p"]["pr"]):
            if not (warm and in_span(s_["sp"], warm["body_sp"])):
                l_ = s_["p"]["l"]
                used = [c.get("name") for bb, t, c in rec.calls() if c and any((a.get("m") or a.get("c") or {}).get("l") == l_ for a in t["args"])]
                outside.append("&mut borrow (%s)" % ", ".join(x for x in used if x))
    ok = not outside
    res.site(key, True, {"mutations_outside_write_arm": outside, "verdict": "ok" if ok else "VIOLATION"})
    if not ok:
        res.find(key, rec.loc(), "the pending write of a DependencyQueue is modified outside the Write arm (%s): a read clears or replaces it, so later accesses are no longer ordered after that write" % outside, "`MOVE x 1; MOVE a x; MOVE b x`: the second read of x does not depend on the write")
    # into_pending_dependencies
    reads = k2.deep_read_paths(db, ipd, 1)
    key = "K3|pending-dependencies"
    ok = k2.has_prefix(reads, ("reads",)) and k2.has_prefix(reads, ("write",))
    res.site(key, True, {"reads": sorted(".".join(p) for p in reads)[:6], "verdict": "ok" if ok else "VIOLATION"})
    if not ok:
        res.find(key, ipd.loc(), "into_pending_dependencies does not return both the pending reads and the pending write", "a trailing read is not linked to the block end")
    # R2 classify for MemoryAccessType
    cl = [f for f in db.fns if f.name == "classify" and "MemoryAccessType" in (f.impl_self_path() or "")]
    iw = [f for f in db.fns if f.name == "initial_writer" and "MemoryAccessType" in (f.impl_self_path() or "")]
    if not cl or not iw:
        res.missing_anchor("MemoryAccessType::classify / initial_writer")
    else:
        g = cl[0]
        mm = k2.match_on(db, g, sched.MAT)
        table = {}
        if mm:
            for a in mm[0]["arms"]:
                vs, _ = k2.arm_variants(a, sched.MAT)
                built = {s["rv"]["a"]["variant"] for bb, s in aggregates(g, AA) if in_span(s["sp"], a["body_sp"])}
                for v in vs:
                    table[v] = built
        want = {"Read": {"Read"}, "Write": {"Write"}, "Capture": {"Write"}}
        for v, w in want.items():
            key = "K8|memory-classify|%s" % v
            ok = table.get(v) == w
            res.site(key, True, {"access": v, "classified_as": sorted(table.get(v, [])), "expected": sorted(w), "verdict": "ok" if ok else "VIOLATION"})
            if not ok:
                res.find(key, g.loc(), "MemoryAccessType::%s is classified as %s, expected %s" % (v, sorted(table.get(v, [])), sorted(w)), "two captures into one region are left unordered" if v == "Capture" else "reads/writes of one region are mis-ordered")
        e = fn_expr_local(iw[0], 0)
        key = "K8|memory-initial-writer"
        ok = e[0] == "agg" and e[2] == "None"
        res.site(key, True, {"value": str(e)[:60], "verdict": "ok" if ok else "VIOLATION"})
        if not ok:
            res.find(key, iw[0].loc(), "memory queues start with an initial writer %s instead of None: every first access gets a memory edge from a node that does not touch the region" % str(e)[:60], "a memory edge that links no conflicting pair")
    # R3 wiring
    b = sched.find_build(db)
    if not b:
        res.missing_anchor("ScheduledBasicBlock::build")
        return res
    pairs = {}
    for g in [b] + db.closures_of(b):
        for i, j, s in g.stmts():
            if s["k"] == "assign" and s["rv"]["k"] == "agg" and s["rv"]["a"]["k"] == "tuple" and len(s["rv"]["ops"]) == 2:
                e0 = fn_expr_operand(g, s["rv"]["ops"][0])
                e1 = fn_expr_operand(g, s["rv"]["ops"][1])
                if e1[0] == "agg" and e1[1] == sched.MAT:
                    fl = []
                    walk_expr(e0, lambda n: fl.append(n[2]) if n[0] == "field" and n[2] in ("reads", "writes", "captures") else None)
                    if fl:
                        pairs[fl[0]] = e1[2]
    want = {"reads": "Read", "writes": "Write", "captures": "Capture"}
    for k_, w in want.items():
        key = "K8|access-kind-wiring|%s" % k_
        ok = pairs.get(k_) == w
        res.site(key, True, {"field": k_, "paired_with": pairs.get(k_), "verdict": "ok" if ok else "VIOLATION"})
        if not ok:
            res.find(key, b.loc(), "accesses.%s is recorded in the per-region queue as MemoryAccessType::%s, expected %s" % (k_, pairs.get(k_), w), "`MOVE a 1; MOVE b a`: the write is recorded as a read, so the later read is not ordered after it")
    # per-region queue: entry(region) on the pending_memory_access map in the closure that records
    recs = [r for r in sched.record_sites(db, b) if r["fn"] is not b]
    key = "K8|per-region-queue"
    ok = False
    for r in recs:
        e = r["recv"]
        calls = [c[1] for c in __import__("qv.engine", fromlist=["expr_calls"]).expr_calls(e)]
        if any(x.endswith("::entry") for x in calls) and any("or_default" in x or "or_insert" in x for x in calls):
            ok = True
    res.site(key, True, {"closure_record_sites": len(recs), "verdict": "ok" if ok else "VIOLATION"})
    if not ok:
        res.find(key, b.loc(), "memory accesses are not recorded in a queue looked up by region name (entry(region).or_default())", "accesses to different regions are serialised, or accesses to one region are not")
    # R3c every access is recorded: the kind table flows to the record call through order/element-preserving adaptors only,
    #     unconditionally for every instruction of the block
    key = "K7|every-access-recorded"
    from qv.engine import expr_calls
    KEEP = {"into_iter", "iter", "flat_map", "map", "collect", "flatten", "chain"}
    DROP = {"filter", "skip", "take", "take_while", "skip_while", "step_by", "filter_map", "nth", "last", "find", "rev", "zip", "peekable", "fuse", "scan", "map_while"}

    def chain_names(e, stop):
        names, cur = [], e
        while cur[0] == "call" and cur[2] and not stop(cur):
            names.append(cur[1].rsplit("::", 1)[-1])
            cur = cur[2][0]
        return names, cur

    consumers = []
    for bb, t, c in b.calls():
        if c and c.get("name") == "next":
            e = fn_expr_operand(b, t["args"][0])
            hit = []
            walk_expr(e, lambda n: hit.append(n) if n[0] == "array" and len(n[1]) == 3 and all(x[0] == "tuple" for x in n[1]) else None)
            if hit:
                consumers.append((bb, e))
    verdict, detail = "undecided: consumer loop of the access table not found", {}
    if len(consumers) == 1:
        bb0, e = consumers[0]
        names, root_ = chain_names(e, lambda n: False)
        clos = []
        walk_expr(e, lambda n: clos.append(n) if n[0] == "closure" else None)
        bad = set(names) & DROP
        unknown = set(names) - KEEP - DROP
        inner_ok = False
        inner_names = set()
        for cl in clos:
            for h in db.by_path.get(cl[1], []):
                for hh in [h] + db.closures_of(h):
                    inner_names |= {c.get("name") for b2, t2, c in hh.calls() if c}
                    rs = [b2 for b2, t2, c in hh.calls() if c and c.get("name") == "record_access_and_get_dependencies"]
                    if rs and all(rs[0] in hh.dominators().get(rb, set()) for rb in hh.return_blocks()) and not hh.control_deps(rs[0]):
                        inner_ok = True
        bad |= inner_names & DROP
        # the table is built and consumed for every instruction: the flat_map is control dependent only on the loop and on `?`
        fm = [b2 for b2, t2, c in b.calls() if c and c.get("name") == "flat_map" and any(n[0] == "array" for n in _nodes(fn_expr_operand(b, t2["args"][0])))]
        extra = []
        for b2 in fm[:1]:
            def is_loop_next(a):
                tt = b.blocks[a]["t"]
                de = fn_expr_operand(b, tt["d"]) if tt["k"] == "switch" else ("x",)
                return de[0] == "discr" and de[1][0] == "call" and de[1][1].endswith("::next")

            for sb, tgt in b.control_deps(b2, stop=is_loop_next):
                tt = b.blocks[sb]["t"]
                de = fn_expr_operand(b, tt["d"]) if tt["k"] == "switch" else ("x",)
                inner = de[1] if de[0] == "discr" else ("x",)
                if inner[0] == "call" and (inner[1].endswith("::next") or inner[1].endswith("Try>::branch")):
                    continue
                extra.append(str(de[:2])[:80])
        detail = {"adaptors": names, "dropping_adaptors": sorted(bad), "unknown_adaptors": sorted(unknown), "record_unconditional_in_closure": inner_ok, "extra_conditions": extra}
        if bad or extra or not inner_ok or not fm:
            verdict = "VIOLATION"
        elif unknown:
            verdict = "undecided: adaptors %s" % sorted(unknown)
        else:
            verdict = "ok"
    res.site(key, True, dict(detail, verdict=verdict))
    if verdict == "VIOLATION":
        res.find(key, b.loc(), "ScheduledBasicBlock::build does not record every (region, access kind) of every instruction in the per-region queue: %s" % detail, "`SHIFT-PHASE 0 \"rf\" theta; MOVE theta 0.5`: the leading read is never registered, so the later write is not ordered after it")
    elif verdict != "ok":
        res.undecided.append(key + " " + verdict)
    # AwaitMemoryAccess edge built from the dependency's access type
    key = "K8|await-memory-edge"
    ok = any(s["rv"]["a"]["variant"] == "AwaitMemoryAccess" for bb, s in aggregates(b, sched.EDEP))
    res.site(key, True, {"verdict": "ok" if ok else "VIOLATION"})
    if not ok:
        res.find(key, b.loc(), "no AwaitMemoryAccess edge is created for memory dependencies", "memory conflicts are not ordered at all")
    res.explanation = "Structure of the dependency-queue protocol (per-arm field stores and calls on the pending reads, MIR), the classify tables, and the wiring of access kinds to queue accesses in ScheduledBasicBlock::build."
    res.assumptions = ["HashSet::drain/insert semantics; GraphMap edges as added"]
    return res


def _nodes(e):
    out = []
    walk_expr(e, out.append)
    return out
