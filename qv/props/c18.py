"""C18 Calibration expansion always terminates without crashing.

Decides:
  R1 (K7) in the recursion cycle {expand_inner, recursively_expand_inner} every recursive call is dominated by the
          breadcrumb membership test whose true branch returns RecursiveCalibration, and the trail passed down
          contains the current instruction and the received trail;
  R2 the membership guard can bound the recursion only if its key ranges over a finite set fixed by the program:
          the key type must not contain a type (Expression) of which the expansion step itself creates new values
          (substitute_variables output flows into the re-expanded instruction);
Not decided: the "iff" direction of the error clause; panics other than stack exhaustion on the expansion path
(index/length arithmetic guarded by the matcher's arity checks) are not part of this check."""
from qv.engine import callee_path, fn_expr_operand, walk_expr, expr_calls
from qv.props.common import aggregates, require_fn
from qv.report import Result
from qv.rules import guards
from qv.rules.k1_panic import sites_in

CAL = "quil_rs::program::calibration::Calibrations"
EXPRESSION = "quil_rs::expression::Expression"
IGNORED_ASSERTS = ("MisalignedPointerDereference", "NullPointerDereference", "InvalidEnumConstruction")


def run(ctx):
    res = Result("C18")
    db = ctx.db("quil_rs")
    mono = ctx.mono("quil_rs")
    res.rules += ["R1 (K7) recursion guarded by a dominating breadcrumb membership test with an error exit", "R2 the guard key type cannot grow under the expansion step"]
    ei = require_fn(db, res, CAL + "::expand_inner")
    rei = require_fn(db, res, CAL + "::recursively_expand_inner")
    ec = require_fn(db, res, "quil_rs::program::Program::expand_calibrations")
    if not (ei and rei and ec):
        return res
    # cycle membership
    parent = mono.reach(mono.roots([ec.dp]))
    sccs = mono.cyclic_sccs(parent.keys())
    cyc = None
    for comp in sccs:
        dps = {mono.nodes[i]["dp"] for i in comp}
        if ei.dp in dps:
            cyc = dps
    key = "K7|expansion-cycle"
    res.site(key, True, {"cycle": sorted(db.by_dp[d].path for d in (cyc or []) if d in db.by_dp), "verdict": "found" if cyc else "none"})
    if not cyc:
        res.missing_anchor("recursion cycle through expand_inner")
        return res
    # ---- R1: guard in expand_inner: contains(previous, instruction) -> Err(RecursiveCalibration)
    guard_bb = None
    for bb, t, c in ei.calls():
        if c and c.get("name") == "contains" and len(t["args"]) == 2:
            a0 = fn_expr_operand(ei, t["args"][0])
            a1 = fn_expr_operand(ei, t["args"][1])
            r0, _ = guards.root(a0)
            r1, _ = guards.root(a1)
            if r0[0] == "param" and r1[0] == "param" and r0[1] != r1[1]:
                guard_bb = (bb, t, r0, r1)
        # the same membership test spelled `trail.iter().any(|p| p == instruction)`
        if c and c.get("name") == "any" and len(t["args"]) == 2 and guard_bb is None:
            a0 = fn_expr_operand(ei, t["args"][0])
            a1 = fn_expr_operand(ei, t["args"][1])
            r0, _ = guards.root(a0)
            if r0[0] == "param" and a1[0] == "closure":
                caps = [guards.root(x)[0] for x in a1[2]]
                caps = [x for x in caps if x[0] == "param" and x[1] != r0[1]]
                hs = db.by_path.get(a1[1], [])
                compares = any(c2 and c2.get("name") in ("eq", "ne") for h in hs for b2, t2, c2 in h.calls())
                if caps and compares:
                    guard_bb = (bb, t, r0, caps[0])
    key = "K7|breadcrumb-guard"
    ok = False
    detail = {}
    if guard_bb:
        bb, t, trail, cur = guard_bb
        # the switch on the contains() result: true side constructs RecursiveCalibration and returns without recursing
        sw = t["t"]
        st = ei.blocks[sw]["t"] if sw is not None else None
        # walk to the switch block (the call's target may be the switch itself)
        true_side = false_side = None
        if st and st["k"] == "switch":
            for v, b in st["ts"]:
                if v == "0":
                    false_side = b
            true_side = st["else"] if false_side is not None else None
        rec_calls = [b2 for b2, t2, c2 in ei.calls() if c2 and db.by_path.get(callee_path(c2)) and db.by_path[callee_path(c2)][0].dp in cyc]
        errs = [b2 for b2, s2 in aggregates(ei, None, "RecursiveCalibration") if s2["rv"]["a"]["path"].endswith("ProgramError")]
        dom = ei.dominators()
        ok = bool(false_side is not None and rec_calls and errs and all(false_side in dom.get(b2, set()) or b2 == false_side for b2 in rec_calls) and all(true_side in dom.get(b2, set()) or b2 == true_side for b2 in errs) and not any(true_side in dom.get(b2, set()) for b2 in rec_calls))
        detail = {"guard_line": t["sp"][0], "recursive_calls": len(rec_calls), "error_constructions": len(errs)}
    res.site(key, True, dict(detail, verdict="ok" if ok else "VIOLATION"))
    if not ok:
        res.find(key, ei.loc(), "the recursive expansion in expand_inner is not dominated by a breadcrumb membership test whose true branch returns ProgramError::RecursiveCalibration", "`DEFCAL X 0:\\n\\tX 0` then `X 0`: expansion recurses until the stack overflows")
    # trail passed down contains the current instruction and the received trail
    key = "K5|trail-extended"
    ok = False
    for bb, t, c in ei.calls():
        if c and db.by_path.get(callee_path(c)) and db.by_path[callee_path(c)][0].dp in cyc and len(t["args"]) >= 3:
            e = fn_expr_operand(ei, t["args"][2])
            # the path vector is built by with_capacity + push(clone(instruction)) + extend_from_slice(previous)
            pushes = [(b2, t2) for b2, t2, c2 in ei.calls() if c2 and c2.get("name") in ("push", "extend_from_slice", "extend", "insert")]
            srcs = set()
            for b2, t2 in pushes:
                for a in t2["args"][1:]:
                    r, _ = guards.root(fn_expr_operand(ei, a))
                    if r[0] == "param":
                        srcs.add(r[2])
            ok = len(srcs) >= 2
            res.site(key, True, {"trail_sources": sorted(x for x in srcs if x), "verdict": "ok" if ok else "VIOLATION"})
    if not ok:
        res.find(key, ei.loc(), "the breadcrumb trail handed to the recursive expansion is not built from both the current instruction and the received trail", "an indirect cycle A -> B -> A is not detected")
    # ---- R2: key type
    contains_t = guard_bb[1] if guard_bb else None
    key = "R2|guard-key-finite"
    if contains_t:
        elem_ty = None
        c = None
        for bb, t, c_ in ei.calls():
            if t is contains_t:
                c = c_
        tys = [db.types[a] for a in (c.get("args") or [])]
        elem = next((a for a in (c.get("args") or []) if db.types[a]["k"] == "adt"), None)
        grows = elem is not None and db.ty_contains(elem, _expr_pred)
        creates = any(callee_path(c2) == EXPRESSION + "::substitute_variables" for g in [ei] + db.closures_of(ei) for bb, t2, c2 in g.calls() if c2)
        ok = not (grows and creates)
        res.site(key, True, {"key_type": db.ty_s(elem) if elem is not None else None, "key_contains_Expression": grows, "expansion_creates_new_Expressions": creates, "verdict": "ok" if ok else "VIOLATION"})
        if not ok:
            res.find(key, ei.loc(contains_t["sp"]), "the recursion guard compares whole instructions (type %s, which contains Expression) while each expansion step builds new expressions by substitute_variables: the set of possible keys is not finite, so membership in the trail cannot bound the recursion" % db.ty_s(elem), "`DEFCAL RX(%t) 0:\\n\\tRX(%t+1) 0` then `RX(0) 0`: every level is a new instruction RX(0+1+1+...) 0; expand_calibrations overflows the stack")
    local = mono.local_dps(parent)
    res.count("reachable_local_functions", len(local), floor=40)
    # R3 (K7) the recursive-calibration error is never swallowed: at every call in the expansion cycle (and in the public
    #    wrappers down to it) whose callee returns Result<_, ProgramError>, the Err outcome leads to an Err return: either the
    #    `?` idiom (Try::branch, Break side -> from_residual) or the result itself is what the function returns / maps
    cycle_paths = {ei.path, rei.path}
    wrappers = [f for f in db.fns if f.path.startswith(CAL + "::") and f.name in ("expand", "expand_with_detail")] + [f for f in db.fns if f.path.startswith("quil_rs::program::Program::") and f.name in ("expand_calibrations_inner",)]
    targets = cycle_paths | {f.path for f in wrappers}
    nprop = 0
    for f in [ei, rei] + wrappers:
        for g in [f] + db.closures_of(f):
            for bb, t, c in g.calls():
                if not c or callee_path(c) not in targets:
                    continue
                nprop += 1
                key = "K7|expansion-error-propagated|%s->%s" % (f.path.rsplit("::", 1)[-1], callee_path(c).rsplit("::", 1)[-1])
                dest = t["dest"]["l"]
                how = None
                # (a) `?`: a Try::branch call on the result whose Break side reaches from_residual
                for b2, t2, c2 in g.calls():
                    if c2 and callee_path(c2).endswith("Try>::branch"):
                        a0 = fn_expr_operand(g, t2["args"][0])
                        if a0[0] == "call" and a0[1] == callee_path(c) and a0[3] == bb:
                            how = "?"
                # (b) the result is returned / mapped as a whole: it flows into _0 through map/and_then/map_err only
                if how is None and dest == 0 and not t["dest"]["pr"]:
                    how = "returned"
                if how is None:
                    r0 = fn_expr_operand(g, {"m": {"l": 0, "pr": []}})
                    for alt in (r0[1] if r0[0] == "phi" else [r0]):
                        cur = alt
                        hops = 0
                        while cur[0] == "call" and cur[1].rsplit("::", 1)[-1] in ("map", "and_then", "map_err") and cur[2] and hops < 4:
                            cur = cur[2][0]
                            hops += 1
                        if cur[0] == "call" and cur[1] == callee_path(c) and cur[3] == bb:
                            how = "returned"
                # (c) an explicit match whose Err arm returns an Err
                if how is None:
                    for sb in range(len(g.blocks)):
                        tt = g.blocks[sb]["t"]
                        if tt["k"] != "switch":
                            continue
                        e = fn_expr_operand(g, tt["d"])
                        if e[0] == "discr" and e[1][0] == "call" and e[1][1] == callee_path(c) and e[1][3] == bb:
                            # Result: Ok = 0, Err = 1
                            err_t = [x for v, x in tt["ts"] if v == "1"] or ([tt["else"]] if [v for v, x in tt["ts"]] == ["0"] else [])
                            errs = {b3 for b3, s3 in aggregates(g) if s3["rv"]["a"]["path"] == "std::result::Result" and s3["rv"]["a"]["variant"] == "Err"}
                            if err_t and errs and g.all_paths_pass(err_t[0], errs):
                                how = "match"
                res.site(key, True, {"how": how, "verdict": "ok" if how else "VIOLATION"})
                if not how:
                    res.find(key, g.loc(t.get("sp")), "%s calls %s but does not propagate its error (no `?`, not returned, no Err arm that returns): a RecursiveCalibration reported by the nested expansion is dropped" % (f.path.replace("quil_rs::", ""), callee_path(c).rsplit("::", 1)[-1]),
                             "`DEFCAL X 0: X 0` then Calibrations::expand(X 0) returns Ok(..) with the instruction left in place instead of RecursiveCalibration")
    res.count("expansion_call_sites", nprop, floor=4)
    # the substitution applied to every expanded instruction terminates because it recurses on the children of the node
    # it was given and on nothing else; recursing on a value taken from the substitution map (e.g. to resolve replacements
    # "transitively") does not terminate when a replacement mentions the variable it replaces (`RX(%theta) 0` against
    # `DEFCAL RX(%theta) q`)
    key = "K9|substitution-recursion-structural"
    sv = [f_ for f_ in db.fns if f_.path == "quil_rs::expression::Expression::substitute_variables"]
    if len(sv) != 1:
        res.missing_anchor("Expression::substitute_variables")
    else:
        sv = sv[0]
        rec = [(bb, t) for bb, t, c in sv.calls() if c and callee_path(c) == sv.path]
        bad = []
        for bb, t in rec:
            e = fn_expr_operand(sv, t["args"][0])
            r_ = e
            while r_[0] in ("field", "as") or (r_[0] == "call" and r_[1].rsplit("::", 1)[-1] in ("deref", "as_ref", "borrow") and r_[2]):
                r_ = r_[1] if r_[0] != "call" else r_[2][0]
            if not (r_[0] == "param" and r_[1] == 1):
                bad.append(str(r_[:2])[:80])
        ok = bool(rec) and not bad
        res.site(key, True, {"recursive_calls": len(rec), "not_on_a_child_of_self": bad, "verdict": "ok" if ok else "VIOLATION"})
        if not ok:
            res.find(key, sv.loc(), "substitute_variables recurses on a value that is not a sub-expression of the node it was given (%s): the recursion is no longer bounded by the size of the expression" % bad, "`DEFCAL RX(%theta) q: SHIFT-PHASE q \"rf\" %theta` and `RX(2*%theta) 0`: expand_calibrations overflows the stack")
    res.explanation = "Guard dominance on the recursion cycle of calibration expansion (MIR dominators), provenance of the trail, and a finiteness argument on the guard key type (type containment against the values the step creates); %d functions are reachable from expand_calibrations." % len(local)
    res.assumptions = ["slice::contains uses PartialEq of the element type"]
    return res


def _expr_pred(t):
    return t["k"] == "adt" and t["path"] == EXPRESSION


def _index_by_enumerate_of_zip_len(db, f, s):
    return None
