"""C24 Frame conflicts are ordered and every frame edge is justified.

Decides the wiring table between matched frames, queues and edge kinds in the RFControl arm of
ScheduledBasicBlock::build: four record_access_and_get_dependencies call sites
  (used,    timed queue,   Using,    Scheduled)        [only if handler.is_scheduled(instruction)]
  (used,    untimed queue, Using,    StableOrdering)
  (blocked, timed queue,   Blocking, Scheduled)        [only if is_scheduled]
  (blocked, untimed queue, Blocking, StableOrdering)
with per-frame keying (entry(frame.clone())), and InstructionFrameInteraction::classify: Blocking -> Read,
Using -> Write (so blockers are mutually unordered under the C23 protocol).
Not decided: transitive ordering; correctness of matching_frames (C26)."""
from qv.engine import callee_path, fn_expr_operand, walk_expr, expr_calls
from qv.props import sched
from qv.props.common import aggregates, in_span
from qv.report import Result
from qv.rules import k2_coverage as k2
from qv.rules.guards import root

AA = "quil_rs::program::scheduling::graph::dependency_queue::AccessingAction"


def run(ctx):
    res = Result("C24")
    db = ctx.db("quil_rs")
    res.rules += ["K8 wiring table of the four frame-queue call sites", "K8 InstructionFrameInteraction::classify"]
    b = sched.find_build(db)
    if not b:
        res.missing_anchor("ScheduledBasicBlock::build")
        return res
    recs = [r for r in sched.record_sites(db, b) if r["fn"] is b]
    sites = sched.edge_sites(db, b)
    rows = []
    for r in recs:
        acc = r["access"]
        if not (acc[0] == "agg" and acc[1] == sched.IFI):
            continue
        interaction = acc[2]
        # which frame set is iterated: `used` or `blocked` of the matching_frames result
        fl = []
        walk_expr(r["recv"], lambda n: fl.append(n[2]) if n[0] == "field" and n[2] in ("used", "blocked") else None)
        # which map: identified by the construction site of the HashMap the entry() call acts on
        maps = [c for c in expr_calls(r["recv"]) if c[1].endswith("HashMap::<K, V>::new") or c[1].endswith("HashMap::<K, V, S>::default") or "HashMap" in c[1] and c[1].endswith("::new")]
        map_id = maps[-1][3] if maps else None
        keyed = any(c[1].endswith("::entry") for c in expr_calls(r["recv"]))
        # conditional on is_scheduled?
        cond = False
        for d in b.dominators().get(r["bb"], set()):
            tt = b.blocks[d]["t"]
            if tt["k"] == "switch":
                e = fn_expr_operand(b, tt["d"])
                if e[0] == "call" and e[1].endswith("::is_scheduled"):
                    # on the true side: the true target dominates the call site
                    true_t = tt["else"]
                    for v, x in tt["ts"]:
                        if v == "1":
                            true_t = x
                    zero = [x for v, x in tt["ts"] if v == "0"]
                    if true_t not in zero and (true_t in b.dominators().get(r["bb"], set()) or true_t == r["bb"]):
                        cond = True
        # the edge kind of the add_edge whose source is drawn from this call's result
        kinds = set()
        for (bb2, line, sc, tc, ks, se, t2) in sites:
            if any(c[1].endswith("record_access_and_get_dependencies") and c[3] == r["bb"] for c in expr_calls(se)):
                kinds |= ks
        rows.append({"frames": sorted(set(fl)), "interaction": interaction, "map": map_id, "keyed_by_frame": keyed, "only_if_scheduled": cond, "edge_kinds": sorted(kinds), "line": r["t"]["sp"][0]})
    res.count("frame_queue_sites", len(rows), floor=4)
    timed_maps = {r["map"] for r in rows if r["only_if_scheduled"]}
    untimed_maps = {r["map"] for r in rows if not r["only_if_scheduled"]}
    key = "K8|frame-queues-distinct"
    ok = len(timed_maps) == 1 and len(untimed_maps) == 1 and timed_maps != untimed_maps
    res.site(key, True, {"timed_queue_map": sorted(map(str, timed_maps)), "untimed_queue_map": sorted(map(str, untimed_maps)), "verdict": "ok" if ok else "VIOLATION"})
    if not ok:
        res.find(key, b.loc(), "the timed and untimed frame queues are not two distinct maps, each used consistently (timed: %s, untimed: %s)" % (sorted(map(str, timed_maps)), sorted(map(str, untimed_maps))), "untimed instructions (e.g. SET-FREQUENCY) appear on Scheduled edges, or timed ones miss them")
    want = {("used", "Using", True): "Scheduled", ("used", "Using", False): "StableOrdering", ("blocked", "Blocking", True): "Scheduled", ("blocked", "Blocking", False): "StableOrdering"}
    got = {}
    for r in rows:
        k_ = (r["frames"][0] if len(r["frames"]) == 1 else str(r["frames"]), r["interaction"], r["only_if_scheduled"])
        got[k_] = r
    for k_, w in want.items():
        key = "K8|frame-wiring|%s|%s|%s" % (k_[0], k_[1], "timed" if k_[2] else "untimed")
        r = got.get(k_)
        ok = r is not None and r["edge_kinds"] == [w] and r["keyed_by_frame"]
        res.site(key, True, dict(r or {}, expected_edge=w, verdict="ok" if ok else "VIOLATION"))
        if not ok:
            res.find(key, b.loc(), "no call site records (%s frames, %s, %s queue) with %s edges keyed per frame; found rows: %s" % (k_[0], k_[1], "timed" if k_[2] else "untimed", w, [(x["frames"], x["interaction"], x["only_if_scheduled"], x["edge_kinds"]) for x in rows]), "two PULSEs on one frame are not ordered by Scheduled edges, or a blocked frame is recorded as used")
    # the queues are keyed by the frame's full identity (name and ordered qubit list)
    FRAMEID = "quil_rs::instruction::frame::FrameIdentifier"
    key = "K10|frame-queue-key-type"
    keys_ = []
    for l_, decl in enumerate(b.locals):
        ty = db.types[decl["t"]]
        if ty["k"] == "adt" and ty["path"].endswith("HashMap") and len(ty.get("args", [])) >= 2 and "InstructionFrameInteraction" in db.ty_s(ty["args"][1]) and "DependencyQueue" in db.ty_s(ty["args"][1]):
            keys_.append(ty["args"][0])
    keys_ = sorted(set(keys_))
    verdict = "undecided: no frame-queue map found" if not keys_ else "ok"
    shown = [db.ty_s(k_)[:90] for k_ in keys_]
    for k_ in keys_:
        if db.ty_contains(k_, db.adt_pred(FRAMEID)):
            continue
        lossy = db.ty_contains(k_, lambda t: t["k"] == "adt" and t["path"].rsplit("::", 1)[-1] in ("BTreeSet", "HashSet", "IndexSet", "BTreeMap", "HashMap"))
        verdict = "VIOLATION" if lossy else "undecided: key type %s" % db.ty_s(k_)[:60]
    res.site(key, True, {"key_types": shown, "verdict": verdict})
    if verdict == "VIOLATION":
        res.find(key, b.loc(), "the per-frame queues are keyed by %s, which forgets the order of a frame's qubits: distinct frames such as `0 1 \"cz\"` and `1 0 \"cz\"` share one queue" % shown, "non-blocking pulses on `0 1 \"cz\"` and `1 0 \"cz\"` get a frame edge although they use different frames")
    elif verdict != "ok":
        res.undecided.append(key + " " + verdict)
    extra = [k_ for k_ in got if k_ not in want]
    if extra:
        res.find("K8|frame-wiring|unexpected", b.loc(), "unexpected frame-queue call sites: %s" % extra)
    # classify
    cl = [f for f in db.fns if f.name == "classify" and "InstructionFrameInteraction" in (f.impl_self_path() or "")]
    if not cl:
        res.missing_anchor("InstructionFrameInteraction::classify")
    else:
        g = cl[0]
        mm = k2.match_on(db, g, sched.IFI)
        table = {}
        if mm:
            for a in mm[0]["arms"]:
                vs, _ = k2.arm_variants(a, sched.IFI)
                built = {s["rv"]["a"]["variant"] for bb, s in aggregates(g, AA) if in_span(s["sp"], a["body_sp"])}
                for v in vs:
                    table[v] = built
        for v, w in (("Blocking", {"Read"}), ("Using", {"Write"})):
            key = "K8|frame-classify|%s" % v
            ok = table.get(v) == w
            res.site(key, True, {"interaction": v, "classified_as": sorted(table.get(v, [])), "verdict": "ok" if ok else "VIOLATION"})
            if not ok:
                res.find(key, g.loc(), "InstructionFrameInteraction::%s is classified as %s, expected %s" % (v, sorted(table.get(v, [])), sorted(w)), "two instructions that only block the same frame get ordered, or two uses do not")
    res.explanation = "Wiring table of the %d frame-queue call sites of ScheduledBasicBlock::build: frame set iterated, interaction constant, queue map identity, is_scheduled control dependence, and the kind of edge created from each call's result." % len(rows)
    res.assumptions = ["queue protocol as decided under C23"]
    return res
