"""C14 Standard gate unitaries match the Quil specification.

Decides (proof-style): the two gate tables CONSTANT_GATE_MATRICES and PARAMETERIZED_GATE_MATRICES
equal the specification's matrices entry by entry, symbolically in the parameter.  The static
initialisers are read from the un-expanded source (qsyn), the straight-line bodies are evaluated to
sympy matrices by a small interpreter (real!/imag!, array!, Array2::eye, indexed assignment,
Complex64::cis, cos/sin, + - * /), and sympy proves each equal to the oracle in
qv/oracles/quil_spec_gates.py.  The key sets must equal the property's list of gates.
Not decided: the lifting to n qubits (lifted_gate_matrix, permutation_arbitrary, ...): numerical
linear algebra over run-time qubit placements."""
import sympy as sp

from qv.oracles import quil_spec_gates as oracle
from qv.report import Result
from qv.synq import find_all, src, unparen


class Undecided(Exception):
    pass


F64_CONSTS = {
    "std::f64::consts::FRAC_1_SQRT_2": 1 / sp.sqrt(2),
    "std::f64::consts::FRAC_PI_4": sp.pi / 4,
    "std::f64::consts::FRAC_PI_2": sp.pi / 2,
    "std::f64::consts::PI": sp.pi,
    "std::f64::consts::SQRT_2": sp.sqrt(2),
    "f64::consts::FRAC_1_SQRT_2": 1 / sp.sqrt(2),
}


def ev(e, env):
    """evaluate a scalar or matrix expression"""
    e = unparen(e)
    k = e["k"]
    if k == "path":
        if e["p"] in env:
            return env[e["p"]]
        if e["p"] in F64_CONSTS:
            return F64_CONSTS[e["p"]]
        raise Undecided("unbound " + e["p"])
    if k == "lit":
        if e["t"] in ("int", "float"):
            return sp.nsimplify(e["v"], rational=True)
        raise Undecided("literal " + e["t"])
    if k == "macro":
        n = e["name"].split("::")[-1]
        a = e.get("args") or []
        if n == "real":
            return ev(a[0], env)
        if n == "imag":
            return sp.I * ev(a[0], env)
        if n == "array":
            rows = a[0]["es"] if len(a) == 1 and a[0].get("k") == "array" and a[0]["es"] and unparen(a[0]["es"][0]).get("k") == "array" else a
            return sp.Matrix([[ev(x, env) for x in unparen(r)["es"]] for r in rows])
        raise Undecided("macro " + n)
    if k == "un" and e["op"] == "-":
        return -ev(e["e"], env)
    if k == "bin":
        l, r = ev(e["l"], env), ev(e["r"], env)
        op = e["op"]
        if op == "+":
            return l + r
        if op == "-":
            return l - r
        if op == "*":
            return l * r
        if op == "/":
            return l / r
        raise Undecided("operator " + op)
    if k == "mcall":
        recv = ev(e["recv"], env)
        m = e["m"]
        if m == "cos":
            return sp.cos(recv)
        if m == "sin":
            return sp.sin(recv)
        if m == "exp":
            return sp.exp(recv)
        if m == "sqrt":
            return sp.sqrt(recv)
        if m == "conj":
            return sp.conjugate(recv)
        if m in ("clone", "into"):
            return recv
        raise Undecided("method " + m)
    if k == "call":
        f = src(e["f"])
        if f.endswith("Array2::eye") or f.endswith("Array::eye"):
            return sp.eye(int(ev(e["args"][0], env)))
        if f.endswith("Complex64::cis") or f.endswith("Complex::cis"):
            return sp.exp(sp.I * ev(e["args"][0], env))
        if f.endswith("Complex64::new") or f.endswith("Complex::new"):
            return ev(e["args"][0], env) + sp.I * ev(e["args"][1], env)
        raise Undecided("call " + f)
    if k == "block":
        return run_block(e, env)
    if k == "cast":
        return ev(e["e"], env)
    if k == "tuple":
        return tuple(ev(x, env) for x in e["es"])
    if k == "closure":
        return ("closure", e)
    raise Undecided("expr " + k)


def run_block(b, env):
    env = dict(env)
    stmts = b["stmts"]
    val = None
    for i, st in enumerate(stmts):
        if st["k"] == "local":
            v = ev(st["init"], env)
            p = st["pat"]
            if p["k"] == "ident":
                env[p["name"]] = v
            elif p["k"] == "tuple":
                for q, x in zip(p["ps"], v):
                    if q["k"] != "ident":
                        raise Undecided("tuple pattern")
                    env[q["name"]] = x
            else:
                raise Undecided("let pattern " + p["k"])
        elif st["k"] == "expr":
            e = unparen(st["e"])
            if e["k"] == "assign":
                tgt = unparen(e["l"])
                if tgt["k"] != "index":
                    raise Undecided("assignment target")
                name = src(tgt["e"])
                ix = unparen(tgt["i"])
                if ix["k"] != "array" or len(ix["es"]) != 2:
                    raise Undecided("index form")
                r, c = int(ev(ix["es"][0], env)), int(ev(ix["es"][1], env))
                m = env[name].copy()
                m[r, c] = ev(e["r"], env)
                env[name] = m
            elif i == len(stmts) - 1:
                val = ev(e, env)
            else:
                raise Undecided("statement")
        else:
            raise Undecided("statement " + st["k"])
    return val


def table_entries(static):
    """[(gate name, expr, env)] from `Lazy::new(|| { lets; HashMap::from([(name.to_string(), expr), ..]) })`"""
    init = static["init"]
    clos = find_all(init, lambda n: n.get("k") == "closure")
    if not clos:
        raise Undecided("no initialiser closure")
    body = clos[0]["body"]
    env = {}
    tail = body
    if body["k"] == "block":
        pre = {"k": "block", "stmts": body["stmts"][:-1] + [{"k": "expr", "e": {"k": "tuple", "es": []}, "semi": False}]}
        # evaluate the leading lets
        for st in body["stmts"][:-1]:
            if st["k"] != "local" or st["pat"]["k"] != "ident":
                raise Undecided("table prelude")
            env[st["pat"]["name"]] = ev(st["init"], env)
        tail = body["stmts"][-1]["e"]
    tail = unparen(tail)
    if not (tail["k"] == "call" and src(tail["f"]).endswith("HashMap::from") and unparen(tail["args"][0])["k"] == "array"):
        raise Undecided("table is not HashMap::from([...])")
    out = []
    for ent in unparen(tail["args"][0])["es"]:
        ent = unparen(ent)
        if ent["k"] != "tuple" or len(ent["es"]) != 2:
            raise Undecided("table entry shape")
        kx = unparen(ent["es"][0])
        if kx["k"] == "mcall" and kx["m"] in ("to_string", "to_owned", "into"):
            kx = unparen(kx["recv"])
        if kx["k"] != "lit" or kx["t"] != "str":
            raise Undecided("table key")
        out.append((kx["v"], ent["es"][1], env, ent.get("ln", 0)))
    return out


def mat_equal(a, b):
    if a.shape != b.shape:
        return False
    d = (a - b).applyfunc(lambda x: sp.simplify(sp.expand_complex(x.rewrite(sp.exp))))
    return all(x == 0 for x in d)


def run(ctx):
    res = Result("C14", level="proof")
    syn = ctx.syn()
    db = ctx.db("quil_rs")
    res.rules += ["K8/K9: every entry of CONSTANT_GATE_MATRICES / PARAMETERIZED_GATE_MATRICES equals the Quil specification matrix (sympy), key sets equal the property's gate list"]
    obligations = discharged = 0
    for sname, orc, param in (("CONSTANT_GATE_MATRICES", oracle.CONSTANT, False), ("PARAMETERIZED_GATE_MATRICES", oracle.PARAMETERIZED, True)):
        st = syn.static(sname)
        if st is None:
            res.missing_anchor(sname)
            continue
        # the table must be the one Gate::to_unitary reads: referenced from the gate module's matrix code
        try:
            ents = table_entries(st)
        except Undecided as u:
            res.find("K9|table-shape|" + sname, "%s:%d" % (st["file"], st["ln"]), "gate table %s has a shape the extractor does not understand (%s): its entries cannot be established" % (sname, u))
            continue
        names = [n for n, _, _, _ in ents]
        obligations += 1
        key = "K8|gate-set|" + sname
        if sorted(names) == sorted(orc):
            discharged += 1
            res.site(key, True, {"table": sname, "gates": sorted(names), "verdict": "ok"})
        else:
            res.site(key, True, {"table": sname, "gates": sorted(names), "expected": sorted(orc), "verdict": "VIOLATION"})
            res.find(key, "%s:%d" % (st["file"], st["ln"]), "%s defines gates %s but the specification list is %s (missing %s, extra %s)" % (sname, sorted(names), sorted(orc), sorted(set(orc) - set(names)), sorted(set(names) - set(orc))), "a standard gate without a matrix fails to_unitary; a duplicate key silently overrides")
        if len(set(names)) != len(names):
            res.find("K8|gate-set-duplicate|" + sname, "%s:%d" % (st["file"], st["ln"]), "duplicate gate name in %s: a later entry silently replaces an earlier one" % sname)
        for name, ex, env, ln in ents:
            if name not in orc:
                continue
            obligations += 1
            key = "K9|gate-matrix|" + name
            loc = "%s:%d" % (st["file"], ln or st["ln"])
            try:
                if param:
                    ex2 = unparen(ex)
                    while ex2["k"] in ("cast", "paren"):
                        ex2 = unparen(ex2["e"])
                    if ex2["k"] != "closure" or len(ex2["params"]) != 1:
                        raise Undecided("not a one-parameter closure")
                    pname = ex2["params"][0].get("name")
                    env2 = dict(env)
                    env2[pname] = oracle.t
                    m = ev(ex2["body"], env2)
                else:
                    m = ev(ex, env)
                if not isinstance(m, sp.MatrixBase):
                    raise Undecided("does not evaluate to a matrix")
            except Undecided as u:
                res.undecided.append("%s: %s" % (name, u))
                res.site(key, False, {"gate": name, "verdict": "undecided: %s" % u})
                discharged += 1
                continue
            ok = mat_equal(m, orc[name])
            res.site(key, True, {"gate": name, "code": str(m.tolist()), "spec": str(orc[name].tolist()), "verdict": "equal" if ok else "DIFFERENT"} if (not ok or name in ("H", "T", "RX", "CPHASE01", "ISWAP")) else None)
            if ok:
                discharged += 1
            else:
                diffs = [(i, j, m[i, j], orc[name][i, j]) for i in range(m.shape[0]) for j in range(m.shape[1]) if m.shape == orc[name].shape and sp.simplify(sp.expand_complex((m[i, j] - orc[name][i, j]).rewrite(sp.exp))) != 0]
                res.find(key, loc, "the matrix of gate %s differs from the Quil specification%s" % (name, (": entry [%d,%d] is %s, specification says %s" % diffs[0]) if diffs else " (shape)"), "`%s%s` : to_unitary returns a different matrix than the specification" % (name, "(1)" if param else ""))
    # the tables must be the ones Gate::to_unitary reads (static nodes of the monomorphic graph)
    mono = ctx.mono("quil_rs")
    tu = [f for f in db.fns if f.path == "quil_rs::instruction::gate::Gate::to_unitary"]
    refs = 0
    if not tu:
        res.missing_anchor("Gate::to_unitary")
    else:
        parent = mono.reach(mono.roots([tu[0].dp]))
        for i in parent:
            n = mono.nodes[i]
            if n["k"] == "static" and n["path"].rsplit("::", 1)[-1] in ("CONSTANT_GATE_MATRICES", "PARAMETERIZED_GATE_MATRICES"):
                refs += 1
    res.count("gate_tables_reachable_from_to_unitary", refs, floor=2)
    res.obligations = obligations
    res.discharged = discharged
    res.count("obligations", obligations, floor=24)
    res.trusted_base = ["qv/oracles/quil_spec_gates.py (transcribed from the Quil specification, Standard Gate Definitions)", "sympy", "qsyn extraction + the matrix interpreter in qv/props/c14.py", "ndarray's array!/eye/index-assignment semantics"]
    # R5 (K4) permutation accumulation: in two_swap_helper and permutation_arbitrary every step multiplies the new factor on
    #    the left of the accumulated permutation (`factor.dot(&perm)`), in every branch alike; the qubit map is updated by
    #    the same steps, so a branch accumulating on the other side yields a matrix that disagrees with the map
    from qv.engine import fn_expr_operand as _op, walk_expr as _wx, callee_path as _cp
    nacc = 0
    for hname, factor in (("two_swap_helper", "qubit_adjacent_lifted_gate"), ("permutation_arbitrary", "two_swap_helper")):
        hs = [f_ for f_ in db.fns if f_.name == hname and f_.path.startswith("quil_rs::instruction::gate::")]
        if len(hs) != 1:
            res.missing_anchor(hname)
            continue
        h = hs[0]
        dots = [(bb, t) for bb, t, c in h.calls() if c and c.get("name") == "dot"]
        for k_, (bb, t) in enumerate(dots):
            nacc += 1
            recv, arg = _op(h, t["args"][0]), _op(h, t["args"][1])

            def has_call(e, suffix):
                out = []
                _wx(e, lambda n: out.append(1) if n[0] == "call" and n[1] and n[1].endswith("::" + suffix) else None)
                return bool(out)

            recv_is_factor = has_call(recv, factor) and recv[0] != "phi"
            arg_is_acc = arg[0] == "phi" or has_call(arg, "eye") or arg[0] == "cycle"
            ok = recv_is_factor and arg_is_acc
            key = "K4|permutation-accumulation|%s#%d" % (hname, k_)
            res.site(key, True, {"receiver_is_new_factor": recv_is_factor, "argument_is_accumulator": arg_is_acc, "verdict": "ok" if ok else "VIOLATION"})
            if not ok:
                res.find(key, h.loc(t.get("sp")), "%s accumulates a permutation step on the right of the accumulated matrix (or not onto the accumulator) in one branch, while the qubit map is updated as for left multiplication" % hname, "CCNOT 0 1 3 in a 4-qubit space acts on the wrong qubits")
    res.count("permutation_accumulation_steps", nacc, floor=3)
    # R6 (K5) the angle handed to a parameterised gate's matrix function is the gate's (simplified) parameter itself
    gmx = [f_ for f_ in db.fns if f_.path == "quil_rs::instruction::gate::gate_matrix"]
    key = "K5|parameter-passed-unchanged"
    verdict = "undecided: call of the table function not found"
    if len(gmx) == 1:
        g_ = gmx[0]
        for bb, t, c in g_.calls():
            if c and c.get("name") == "map" and len(t["args"]) == 2:
                clo = _op(g_, t["args"][1])
                if clo[0] == "closure" and clo[2]:
                    for hh in db.by_path.get(clo[1], []):
                        if any(c2 is None for b2, t2, c2 in hh.calls()):  # calls the fn pointer taken from the table
                            cap = clo[2][0]
                            ns = []
                            _wx(cap, ns.append)
                            arith = [n for n in ns if n[0] in ("bin", "un") or (n[0] == "call" and n[1] and n[1].rsplit("::", 1)[-1] not in ("into_simplified", "index", "clone", "deref"))]
                            from_param = any(n[0] == "field" and n[2] == "parameters" for n in ns) and any(n[0] == "as" and n[2] == "Number" for n in ns)
                            verdict = "ok" if from_param and not arith else "VIOLATION"
                            detail_ = [str(n[:2])[:60] for n in arith][:3]
                            # ... and what the lookup yields IS the table function's result, for every angle: no branch
                            # in the closure, its return value is the call through the table's function pointer
                            branches = [b3 for b3 in hh.blocks if b3["t"]["k"] == "switch"]
                            ret_ = _op(hh, {"m": {"l": 0, "pr": []}})
                            key2 = "K5|table-result-unconditional"
                            ok2 = not branches and ret_[0] == "callv"
                            res.site(key2, True, {"branches_in_lookup_closure": len(branches), "returns_table_call": ret_[0] == "callv", "verdict": "ok" if ok2 else "VIOLATION"})
                            if not ok2:
                                res.find(key2, hh.loc(), "gate_matrix does not return the table function's result for every parameter value (a special case for some angle replaces it)", "PSWAP(0) comes back as the identity instead of SWAP")
    res.site(key, True, {"verdict": verdict})
    if verdict == "VIOLATION":
        res.find(key, gmx[0].loc(), "gate_matrix transforms the gate's parameter before handing it to the gate's matrix function (%s)" % detail_, "RX(2*pi) 0 comes back as +I instead of -I (half-angle gates have period 4*pi)")
    elif verdict != "ok":
        res.undecided.append(key + " " + verdict)
    res.explanation = "Table agreement by algebra: %d obligations (2 key sets + one per gate); each table entry is evaluated symbolically from the source and proven equal to the specification matrix. The lifting code is not decided." % obligations
    res.assumptions = ["HashMap::from keeps the last of duplicate keys (duplicates are reported)", "Complex64::cis(x) = exp(i x)"]
    return res
