"""C26 Default frame matching follows the Quil-T frame rules.

Decides:
  R1 (K8) Instruction::default_frame_match_condition has no catch-all arm and, per variant, constructs exactly the
          condition kinds of the Quil-T rules (oracle table below) for `used` and `blocked`;
  R2 (K8) FrameSet::get_matching_keys_for_condition implements each condition kind with the right quantifier:
          AnyOfQubits -> any, ExactQubits -> set equality, AnyOfNames -> membership, And -> intersection (reduce +
          contains), Or -> union (flat_map), Specific -> key lookup, All -> all keys;
  R3 (K7) FrameSet::filter removes `used` frames from `blocked` before returning (disjointness);
  R4 (K11, type level) the frames reported are the program's own: in the signatures of
          InstructionHandler::matching_frames / DefaultHandler::matching_frames / FrameSet::filter /
          get_matching_keys_for_condition the region of the returned references is the region of the Program / FrameSet
          borrow and differs from the region of the instruction / condition argument, so the borrow checker forbids
          returning identifiers that live in the instruction.
Not decided: set contents for concrete frame sets."""
import re

from qv.engine import callee_path, fn_expr_operand, walk_expr
from qv.props.common import in_span, require_fn, aggregates
from qv.report import Result
from qv.rules import k2_coverage as k2
from qv.synq import find_all, src

INSTRUCTION = "quil_rs::instruction::Instruction"
FMC = "quil_rs::program::frame::FrameMatchCondition"
FMCS = "quil_rs::program::frame::FrameMatchConditions"
# variant -> (kinds that may appear in `used`, kinds that may appear in `blocked`)
ORACLE = {
    "Pulse": ({"Specific"}, {"AnyOfQubits"}),
    "Capture": ({"Specific"}, {"AnyOfQubits"}),
    "RawCapture": ({"Specific"}, {"AnyOfQubits"}),
    "Delay": ({"ExactQubits", "And", "AnyOfNames"}, set()),
    "Fence": ({"All", "AnyOfQubits"}, set()),
    "Reset": ({"ExactQubits"}, {"AnyOfQubits"}),
    "SetFrequency": ({"Specific"}, set()),
    "SetPhase": ({"Specific"}, set()),
    "SetScale": ({"Specific"}, set()),
    "ShiftFrequency": ({"Specific"}, set()),
    "ShiftPhase": ({"Specific"}, set()),
    "SwapPhases": ({"Or", "Specific"}, set()),
}
KEYS_ORACLE = {
    "All": (["collect"], []),
    "AnyOfNames": (["filter|retain", "contains"], []),
    "AnyOfQubits": (["filter|retain", "any|is_disjoint", "contains|is_disjoint"], ["all", "is_subset", "=="]),
    "ExactQubits": (["filter|retain", "==|eq"], ["any", "is_disjoint"]),
    "Specific": (["get_key_value|get"], []),
    # every operand takes part in the intersection: an adaptor that drops operand results (take_while on "non-empty" drops
    # exactly the empty operand that should have emptied the result) is forbidden
    "And": (["reduce|fold|try_fold|intersection|retain", "contains|intersection|retain"], ["flat_map", "union", "take_while", "skip_while", "map_while", "skip", "take", "step_by", "nth", "last", "find"]),
    # a union must evaluate every alternative: an early exit once the accumulated set is empty is an intersection shortcut
    "Or": (["flat_map|union|extend"], ["reduce", "intersection", "retain", "<early-exit>", "take_while", "skip_while", "map_while", "skip", "take", "step_by", "nth", "last", "find"]),
}


def kinds_in(db, f, e, depth=0):
    """FrameMatchCondition variants constructed anywhere in the origin expression (closures followed)"""
    out = set()

    def v(n):
        if n[0] == "agg" and n[1] == FMC:
            out.add(n[2])
        if n[0] == "closure":
            for g in db.by_path.get(n[1], []):
                for bb, s in aggregates(g, FMC):
                    out.add(s["rv"]["a"]["variant"])

    walk_expr(e, v)
    return out


def run(ctx):
    res = Result("C26")
    db = ctx.db("quil_rs")
    syn = ctx.syn()
    res.rules += ["R1 (K8) per-instruction condition table", "R2 (K8) quantifier of each condition kind", "R3 (K7) blocked minus used", "R4 (K11) region of the result is the program's"]
    dfm = require_fn(db, res, INSTRUCTION + "::default_frame_match_condition")
    gmk = require_fn(db, res, "quil_rs::program::frame::FrameSet::get_matching_keys_for_condition")
    flt = require_fn(db, res, "quil_rs::program::frame::FrameSet::filter")
    if not (dfm and gmk and flt):
        return res
    ms = k2.match_on(db, dfm, INSTRUCTION)
    if not ms:
        res.missing_anchor("match in default_frame_match_condition")
        return res
    m = max(ms, key=lambda x: len(x["arms"]))
    any_catch = any(k2.arm_variants(a, INSTRUCTION)[1] for a in m["arms"])
    key = "K8|frame-conditions|catch-all"
    res.site(key, True, {"catch_all": any_catch, "verdict": "ok" if not any_catch else "VIOLATION"})
    if any_catch:
        res.find(key, dfm.loc(), "default_frame_match_condition has a catch-all arm: a new instruction kind silently uses no frames", "a new RF instruction kind")
    allv = {v["n"] for v in db.adts[INSTRUCTION]["variants"]}
    nrows = 0
    # the condition kinds per arm are read from the un-expanded source (vec![..] hides them from MIR provenance)
    sfd = syn.fn_for(dfm)
    sm = None
    if sfd:
        cands = [mm for mm in find_all(sfd["body"], lambda n: n.get("k") == "match") if src(mm["e"]) == "self"]
        sm = cands[0] if cands else None
    if sm is None:
        res.missing_anchor("syntax of default_frame_match_condition")
        return res

    def pat_variants(p):
        out = set()
        for q in find_all(p, lambda n: n.get("k") in ("tstruct", "path", "struct")):
            pth = (q.get("path") or q.get("p") or "")
            if pth.startswith("Instruction::"):
                out.add(pth.split("::")[1])
        return out

    def kinds(e):
        out = set()
        if e is None:
            return out
        for q in find_all(e, lambda n: n.get("k") in ("path", "call")):
            pth = q.get("p") or (src(q["f"]) if q.get("k") == "call" else "")
            if pth.startswith("FrameMatchCondition::"):
                out.add(pth.split("::")[1])
        return out

    for arm in sm["arms"]:
        vs = pat_variants(arm["pat"])
        used, blocked = set(), set()
        structs = find_all(arm["body"], lambda n: n.get("k") == "struct" and n.get("path", "").endswith("FrameMatchConditions") and "fields" in n)
        has_conditions = bool(structs)
        for st in structs:
            for fl in st["fields"]:
                if fl["n"] == "used":
                    used |= kinds(fl["e"])
                elif fl["n"] == "blocked":
                    blocked |= kinds(fl["e"])
        for v in sorted(vs):
            nrows += 1
            key = "K8|frame-conditions|%s" % v
            want = ORACLE.get(v)
            if want is None:
                ok = not has_conditions
                res.site(key, False, None)
                if not ok:
                    res.find(key, "%s:%d" % (sfd["file"], arm["ln"]), "Instruction::%s is given frame conditions (used %s, blocked %s) but the Quil-T rules give it none" % (v, sorted(used), sorted(blocked)), "a classical / control instruction now blocks or uses frames")
                continue
            ok = has_conditions and used == want[0] and blocked == want[1]
            res.site(key, True, {"variant": v, "used": sorted(used), "blocked": sorted(blocked), "expected_used": sorted(want[0]), "expected_blocked": sorted(want[1]), "verdict": "ok" if ok else "VIOLATION"})
            if not ok:
                res.find(key, "%s:%d" % (sfd["file"], arm["ln"]), "Instruction::%s: default frame conditions are used=%s blocked=%s, the Quil-T rules require used=%s blocked=%s" % (v, sorted(used), sorted(blocked), sorted(want[0]), sorted(want[1])), "a program with two frames sharing a qubit and a %s instruction: the reported used/blocked sets differ from the rule" % v)
    res.count("instruction_variants_classified", nrows, floor=40)
    covered = set()
    for arm in m["arms"]:
        covered |= k2.arm_variants(arm, INSTRUCTION)[0]
    if covered != allv:
        res.find("K8|frame-conditions|uncovered", dfm.loc(), "variants %s are not named in default_frame_match_condition" % sorted(allv - covered))
    # per-variant blocking dependence: every construction of the conditions for PULSE / CAPTURE / RAW-CAPTURE takes its
    # `blocked` side from that instruction's own `blocking` flag
    iadt = db.adts[INSTRUCTION]
    vname = {v["i"]: v["n"] for v in iadt["variants"]}
    nblk = 0
    for bb, s_ in aggregates(dfm, FMCS):
        sel = set()
        for sb, tgt in dfm.control_deps(bb):
            tt = dfm.blocks[sb]["t"]
            if tt["k"] == "switch":
                de = fn_expr_operand(dfm, tt["d"])
                if de[0] == "discr" and de[1][0] == "param" and de[1][1] == 1:
                    for v_, x in tt["ts"]:
                        if x == tgt:
                            sel.add(vname.get(int(v_)))
        sel &= {"Pulse", "Capture", "RawCapture"}
        if not sel:
            continue
        nblk += 1
        ops = dict(zip(s_["rv"]["a"]["fields"], s_["rv"]["ops"]))
        e = fn_expr_operand(dfm, ops["blocked"])
        names = []
        walk_expr(e, lambda n: names.append(n[2]) if n[0] == "field" else None)
        dep = "blocking" in names
        if not dep:
            for sb, tgt in dfm.control_deps(bb, transitive=False):
                tt = dfm.blocks[sb]["t"]
                if tt["k"] == "switch":
                    nm = []
                    walk_expr(fn_expr_operand(dfm, tt["d"]), lambda n: nm.append(n[2]) if n[0] == "field" else None)
                    dep = dep or "blocking" in nm
        for v_ in sorted(sel):
            key = "K5|blocked-iff-blocking|%s" % v_
            res.site(key, True, {"verdict": "ok" if dep else "VIOLATION"})
            if not dep:
                res.find(key, dfm.loc(s_["sp"]), "the blocked frames of Instruction::%s do not depend on its `blocking` flag" % v_, "NONBLOCKING %s blocks every other frame on its qubits" % {"Pulse": "PULSE", "Capture": "CAPTURE", "RawCapture": "RAW-CAPTURE"}[v_])
    res.count("blocking_instruction_condition_sites", nblk, floor=1)
    # blocking dependence: blocked of PULSE/CAPTURE/RAW-CAPTURE must depend on `blocking`
    key = "K5|blocked-iff-blocking"
    ok = False
    for bb, t, c in dfm.calls():
        if c and callee_path(c) == "core::bool::<impl bool>::then":
            e = fn_expr_operand(dfm, t["args"][0])
            names = []
            walk_expr(e, lambda n: names.append(n[2]) if n[0] == "field" else None)
            if "blocking" in names:
                ok = True
    if not ok:
        # alternative spelling: a switch on the blocking field dominating the AnyOfQubits construction
        for bb, s in aggregates(dfm, FMC, "AnyOfQubits"):
            for d in dfm.dominators().get(bb, set()):
                t = dfm.blocks[d]["t"]
                if t["k"] == "switch":
                    names = []
                    walk_expr(fn_expr_operand(dfm, t["d"]), lambda n: names.append(n[2]) if n[0] == "field" else None)
                    if "blocking" in names:
                        ok = True
    res.site(key, True, {"verdict": "ok" if ok else "VIOLATION"})
    if not ok:
        res.find(key, dfm.loc(), "the blocked condition of PULSE/CAPTURE/RAW-CAPTURE does not depend on the instruction's `blocking` flag", "a NONBLOCKING PULSE blocks the other frames on its qubits (or a blocking one does not)")

    # R2
    sf = syn.fn_for(gmk)
    tab = None
    if sf:
        for mm in find_all(sf["body"], lambda n: n.get("k") == "match"):
            if src(mm["e"]) == "condition":
                tab = mm
    if not tab:
        res.missing_anchor("match condition in get_matching_keys_for_condition")
    else:
        seen = set()
        for arm in tab["arms"]:
            name = (arm["pat"].get("path") or arm["pat"].get("p") or "").split("::")[-1]
            if name not in KEYS_ORACLE:
                continue
            seen.add(name)
            body = arm["body"]
            meths = {c["m"] for c in find_all(body, lambda n: n.get("k") == "mcall")}
            ops = {b["op"] for b in find_all(body, lambda n: n.get("k") == "bin")}
            # local helper methods called on self are part of the evaluation (one level)
            for c in find_all(body, lambda n: n.get("k") == "mcall" and n["recv"].get("k") == "path" and n["recv"].get("p") == "self"):
                for hf in syn.by_name.get(c["m"], []):
                    if hf["file"] == sf["file"] and hf["name"] != sf["name"]:
                        meths |= {x["m"] for x in find_all(hf["body"], lambda n: n.get("k") == "mcall")}
                        ops |= {b["op"] for b in find_all(hf["body"], lambda n: n.get("k") == "bin")}
                        if find_all(hf["body"], lambda n: n.get("k") in ("break", "return", "continue")):
                            meths.add("<early-exit>")
            if find_all(body, lambda n: n.get("k") in ("break", "continue")):
                meths.add("<early-exit>")
            have = meths | ops
            need, forbid = KEYS_ORACLE[name]
            ok = all(any(alt in have for alt in n_.split("|")) for n_ in need) and not any(x in have for x in forbid)
            key = "K8|condition-semantics|%s" % name
            res.site(key, True, {"condition": name, "uses": sorted(have & {"any", "all", "==", "contains", "reduce", "flat_map", "filter", "get_key_value", "get", "collect"}), "verdict": "ok" if ok else "VIOLATION"})
            if not ok:
                res.find(key, "%s:%d" % (sf["file"], arm["ln"]), "FrameMatchCondition::%s is evaluated with %s; the rule needs %s and must not use %s" % (name, sorted(have & ({"any", "all", "==", "contains", "reduce", "flat_map", "filter"} | set(forbid))), need, forbid), "a frame on qubits {0,1} and a condition on {0}: %s gives the wrong answer" % name)
        if seen != set(KEYS_ORACLE):
            res.find("K8|condition-semantics|missing", gmk.loc(), "condition kinds %s have no arm in get_matching_keys_for_condition" % sorted(set(KEYS_ORACLE) - seen))
        res.count("condition_kinds", len(seen), floor=7)

    # R3 filter: blocked.retain(|f| !used.contains(f))
    key = "K7|blocked-minus-used"
    ok = False
    for g in [flt] + db.closures_of(flt):
        for bb, t, c in g.calls():
            if c and c.get("name") == "retain":
                for h in db.closures_of(flt):
                    has_contains = any(c2 and c2.get("name") == "contains" for b2, t2, c2 in h.calls())
                    negated = any(s["k"] == "assign" and s["rv"]["k"] == "un" and s["rv"]["op"] == "Not" for i, j, s in h.stmts())
                    if has_contains and negated:
                        ok = True
    res.site(key, True, {"verdict": "ok" if ok else "VIOLATION"})
    if not ok:
        res.find(key, flt.loc(), "FrameSet::filter does not remove the used frames from the blocked set (retain(|f| !used.contains(f)))", "a blocking PULSE reports its own frame both as used and as blocked")

    # R3b each side is evaluated whenever its condition is present: MatchedFrames.{used,blocked} =
    #     <Option adaptor>(condition.<side>, .., closure) with the closure calling get_matching_keys_for_condition unconditionally
    mf = [s_ for bb, s_ in aggregates(flt) if s_["rv"]["a"]["path"].endswith("MatchedFrames")]
    OPTION_OK = {"map_or_else", "map", "unwrap_or_default", "unwrap_or_else", "unwrap_or", "map_or"}
    OPTION_BAD = {"filter", "and_then", "take_if", "xor", "and", "zip", "or"}
    if len(mf) != 1:
        res.missing_anchor("the MatchedFrames construction in FrameSet::filter")
    else:
        for side, o in zip(mf[0]["rv"]["a"]["fields"], mf[0]["rv"]["ops"]):
            key = "K7|side-evaluated-when-present|" + side
            e = fn_expr_operand(flt, o)
            chain = []
            cur = e
            while cur[0] == "call" and cur[2]:
                chain.append(cur)
                cur = cur[2][0]
            root_ok = cur[0] == "field" and cur[2] == side and cur[1][0] == "param"
            names = [c[1].rsplit("::", 1)[-1] for c in chain]
            clos = [a for c in chain for a in c[2][1:] if a[0] == "closure"]
            uncond = False
            for cl in clos:
                for h in db.by_path.get(cl[1], []):
                    cs = [bb for bb, t, c in h.calls() if c and c.get("name") == "get_matching_keys_for_condition"]
                    if cs and all(cs[0] in h.dominators().get(rb, set()) for rb in h.return_blocks()):
                        uncond = True
            if not root_ok or not chain:
                res.site(key, False, {"verdict": "undecided: shape"})
                res.undecided.append(key)
                continue
            ok = not (set(names) & OPTION_BAD) and set(names) <= OPTION_OK and uncond
            res.site(key, True, {"adaptors": names, "evaluation_unconditional": uncond, "verdict": "ok" if ok else "VIOLATION"})
            if not ok:
                res.find(key, flt.loc(), "FrameSet::filter: the `%s` frames are not computed from condition.%s whenever it is present (adaptors %s, unconditional evaluation: %s)" % (side, side, names, uncond), "`RESET 0` with only a frame `0 1 \"cz\"` defined: nothing is used, and the frame must still be reported as blocked")
    # R4 regions
    def regions(sig):
        m_ = re.match(r"Binder \{ value: fn\((.*)\) -> (.*), bound_vars:", sig, re.S)
        if not m_:
            return None
        ins, out = m_.group(1), m_.group(2)
        # split inputs at top-level ", &" / ", " boundaries: regions in order of appearance per input
        parts = re.split(r", (?=&|quil_rs|std)", ins)
        return [re.findall(r"'\^(\d+)", p) for p in parts], set(re.findall(r"'\^(\d+)", out))

    nsig = 0
    for f, owner_idx, other_idx, label in [(x, 1, 2, "matching_frames") for x in db.fns if x.name == "matching_frames" and x.kind == "AssocFn" and len(x.raw.get("inputs", [])) == 3] + [(flt, 0, 1, "FrameSet::filter"), (gmk, 0, 1, "get_matching_keys_for_condition")]:
        r = regions(f.raw.get("sig_s", ""))
        key = "K11|result-region|%s" % f.path
        if not r:
            res.site(key, False, None)
            res.undecided.append(key)
            continue
        nsig += 1
        ins, out = r
        ok = len(ins) > max(owner_idx, other_idx) and bool(out) and out <= set(ins[owner_idx]) and not (out & set(ins[other_idx]))
        res.site(key, True, {"fn": f.path, "input_regions": ins, "output_regions": sorted(out), "verdict": "ok" if ok else "VIOLATION"})
        if not ok:
            res.find(key, f.loc(), "%s: the returned frame references are not tied to the program / frame-set borrow only (input regions %s, output regions %s): frames that are not the program's own could be returned" % (label, ins, sorted(out)), "matching_frames returning the instruction's own FrameIdentifier for an undefined frame")
    res.count("signatures_checked", nsig, floor=3)
    res.explanation = "Table agreement of default_frame_match_condition (condition kinds constructed per arm, closures followed) with the Quil-T rules, quantifier check of every condition kind, disjointness filter, and a type-level argument from the functions' region signatures that reported frames are borrowed from the program."
    res.assumptions = ["oracle table transcribed from Quil-T (Annex T) as summarised in the property statement"]
    return res
