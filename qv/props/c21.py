"""C21 Gate-sequence source maps agree with the expansion.

  R1 (K4) expand_with_source_map_impl and expand_without_source_map_impl are siblings: the same ordered traversal,
          the same calls to gate_sequence_from_instruction / with_gate_sequence / self-recursion, and the same effects on
          the output vector (extend(recursive result) in the expanded branch, push(clone of the source) otherwise);
  R2 (K5) exactly one source-map entry is pushed in each branch; its source_location is the enumerate index; an
          Unmodified entry's target is len(output)-1 read after the push; a Rewritten entry's range is
          len(output) read before the extend .. that + len(the value extended), its nested map is the one filled by the
          nested call, its signature is the one returned for the expanded definition;
  R3 (K3) the two Program-level entry points build the new program from the same field sources, add the expander's
          instructions through add_instructions, and hand the expander the program's body.
Not decided: equality of concrete output for concrete programs."""
from qv.engine import callee_path, fn_expr_operand, walk_expr, expr_calls
from qv.props.common import aggregates, require_fn
from qv.report import Result

EXP = "quil_rs::program::defgate_sequence_expansion"


def nodes(e):
    out = []
    walk_expr(e, out.append)
    return out


def is_output_vec(e):
    return e[0] == "call" and e[1].endswith("Vec::<T>::new")


def call_named(f, name, pred=None):
    out = []
    for bb, t, c in f.calls():
        if c and c.get("name") == name:
            args = [fn_expr_operand(f, a) for a in t["args"]]
            if pred is None or pred(args):
                out.append((bb, t, args))
    return out


def skeleton(db, f, gsf, wgs):
    """effects on the output vector and the calls that produce them"""
    sk = {}
    g = [(bb, t) for bb, t, c in f.calls() if c and callee_path(c) == gsf.path]
    w = [(bb, t) for bb, t, c in f.calls() if c and callee_path(c) == wgs.path]
    sk["gsf_calls"] = len(g)
    sk["wgs_calls"] = len(w)
    ext = call_named(f, "extend", lambda a: is_output_vec(a[0]))
    psh = call_named(f, "push", lambda a: is_output_vec(a[0]))
    sk["extend"] = len(ext)
    sk["push"] = len(psh)
    sk["iterates_param"] = any(c and c.get("name") == "next" and any(n[0] == "param" and n[2] == "source_instructions" for n in nodes(fn_expr_operand(f, t["args"][0]))) for bb, t, c in f.calls())
    sk["reordering"] = sorted({c.get("name") for bb, t, c in f.calls() if c} & {"rev", "skip", "take", "filter", "step_by", "insert", "swap", "reverse", "truncate", "pop", "remove", "retain", "drain"})
    if len(ext) == 1 and len(w) == 1:
        e = ext[0][2][1]
        sk["extend_from_guarded_recursion"] = any(c[1] == wgs.path for c in expr_calls(e))
        wargs = [fn_expr_operand(f, a) for a in w[0][1]["args"]]
        clo = wargs[2]
        sk["recursion_input"] = "expanded-elements" if clo[0] == "closure" and len(clo[2]) >= 2 and any(c[1] == gsf.path for c in expr_calls(clo[2][1])) and any(n[0] == "field" and n[2] == "0" for n in nodes(clo[2][1])) else "other"
    if len(psh) == 1:
        e = psh[0][2][1]
        sk["push_is_source_instruction"] = any(n[0] == "call" and n[1].endswith("::next") for n in nodes(e)) and not any(c[1] == gsf.path for c in expr_calls(e))
    if len(g) == 1:
        a = [fn_expr_operand(f, x) for x in g[0][1]["args"]]
        sk["gsf_on_current_instruction"] = any(n[0] == "call" and n[1].endswith("::next") for n in nodes(a[1])) and a[2][0] == "param"
        # branch structure: extend is control dependent on the Some side, push on the None side
        dom = f.dominators()
        if len(ext) == 1 and len(psh) == 1:
            sk["branches_disjoint"] = ext[0][0] not in dom.get(psh[0][0], set()) and psh[0][0] not in dom.get(ext[0][0], set())
    ret = [s for bb, s in aggregates(f) if s["rv"]["a"]["path"] == "std::result::Result" and s["rv"]["a"]["variant"] == "Ok"]
    sk["returns_output"] = len(ret) == 1 and is_output_vec(fn_expr_operand(f, ret[0]["rv"]["ops"][0]))
    return sk, ext, psh, w, g


def run(ctx):
    res = Result("C21")
    db = ctx.db("quil_rs")
    res.rules += ["R1 (K4) with/without-source-map siblings agree on output effects", "R2 (K5) source-map entry provenance", "R3 (K3) Program-level entry points agree"]
    byname = lambda n: [f for f in db.fns if f.name == n and f.kind == "AssocFn" and f.path.startswith(EXP)]
    fw, fo, gsf, wgs = byname("expand_with_source_map_impl"), byname("expand_without_source_map_impl"), byname("gate_sequence_from_instruction"), byname("with_gate_sequence")
    if not all(len(x) == 1 for x in (fw, fo, gsf, wgs)):
        res.missing_anchor("expand_with(out)_source_map_impl / gate_sequence_from_instruction / with_gate_sequence")
        return res
    fw, fo, gsf, wgs = fw[0], fo[0], gsf[0], wgs[0]
    skw, extw, pshw, ww, gw = skeleton(db, fw, gsf, wgs)
    sko, exto, psho, wo, go = skeleton(db, fo, gsf, wgs)
    want = {"gsf_calls": 1, "wgs_calls": 1, "extend": 1, "push": 1, "iterates_param": True, "reordering": [], "extend_from_guarded_recursion": True, "recursion_input": "expanded-elements",
            "push_is_source_instruction": True, "gsf_on_current_instruction": True, "branches_disjoint": True, "returns_output": True}
    for k in want:
        key = "K4|sibling|%s" % k
        ok = skw.get(k) == sko.get(k) == want[k]
        res.site(key, True, {"with_map": skw.get(k), "without_map": sko.get(k), "expected": want[k], "verdict": "ok" if ok else "VIOLATION"})
        if not ok:
            res.find(key, (fw if skw.get(k) != want[k] else fo).loc(), "expansion skeleton `%s`: with source map = %r, without = %r, expected %r" % (k, skw.get(k), sko.get(k), want[k]), "Program::expand_defgate_sequences and expand_defgate_sequences_with_source_map produce different instruction lists for a program using a sequence gate")
    # R2 entries
    pushes = call_named(fw, "push", lambda a: any(n[0] == "field" and n[2] == "entries" for n in nodes(a[0])) and not is_output_vec(a[0]))
    key = "K5|entry-per-branch"
    dom = fw.dominators()
    kinds = {}
    for bb, t, a in pushes:
        e = a[1]
        if e[0] == "agg" and e[1].endswith("SourceMapEntry"):
            tl = e[3].get("target_location")
            kinds[tl[2] if tl and tl[0] == "agg" else "?"] = (bb, e)
    ok = len(pushes) == 2 and set(kinds) == {"Rewritten", "Unmodified"} and len(extw) == 1 and len(pshw) == 1
    if ok:
        rb, ub = kinds["Rewritten"][0], kinds["Unmodified"][0]
        eb, pb = extw[0][0], pshw[0][0]
        # each entry push shares its branch with the matching output effect: one dominates the other, and neither crosses
        same = lambda x, y: x in dom.get(y, set()) or y in dom.get(x, set())
        ok = same(rb, eb) and same(ub, pb) and not same(rb, pb) and not same(ub, eb)
        # and neither is inside a nested conditional relative to the effect: every path from the branch head to the loop latch passes both
        ok = ok and fw.all_paths_pass(min(rb, eb), {max(rb, eb)}, ends=None) is not False
    res.site(key, True, {"entry_pushes": len(pushes), "kinds": sorted(kinds), "verdict": "ok" if ok else "VIOLATION"})
    if not ok:
        res.find(key, fw.loc(), "expand_with_source_map_impl does not push exactly one Rewritten entry in the expanded branch and one Unmodified entry in the other (%d pushes: %s)" % (len(pushes), sorted(kinds)), "a source instruction has no entry (or two) in the returned source map")
        return res

    def check(key, ok, detail, msg, manifest):
        res.site(key, True, dict(detail, verdict="ok" if ok else "VIOLATION"))
        if not ok:
            res.find(key, fw.loc(), msg, manifest)

    # every effect (output extend/push, entry push) of one iteration depends only on: the loop, the `?`s, and which arm of the
    # Option returned by gate_sequence_from_instruction is taken - nothing else may skip it
    def extra_conditions(fn, bb):
        inside = fn.reachable_blocks(bb)
        out_ = []

        def is_next(a):
            tt = fn.blocks[a]["t"]
            de = fn_expr_operand(fn, tt["d"]) if tt["k"] == "switch" else ("x",)
            return de[0] == "discr" and de[1][0] == "call" and de[1][1].endswith("::next")

        for sb, tgt in fn.control_deps(bb, stop=lambda a: is_next(a) and a in inside):
            tt = fn.blocks[sb]["t"]
            if tt["k"] != "switch":
                out_.append(tt["k"])
                continue
            de = fn_expr_operand(fn, tt["d"])
            if de[0] == "discr":
                inner = de[1]
                if inner[0] == "call" and (inner[1].endswith("::next") or inner[1].endswith("Try>::branch")):
                    continue
                if any(c[1] == gsf.path for c in expr_calls(inner)):
                    continue
            out_.append((de[1] if de[0] == "call" else str(de[:2]))[-60:])
        return out_

    for label, fn, sites in (("with_map", fw, [("extend", extw[0][0]), ("push", pshw[0][0]), ("entry:Rewritten", kinds["Rewritten"][0]), ("entry:Unmodified", kinds["Unmodified"][0])]),
                             ("without_map", fo, [("extend", exto[0][0]), ("push", psho[0][0])] if len(exto) == 1 and len(psho) == 1 else [])):
        for what, bb in sites:
            ex = extra_conditions(fn, bb)
            check("K7|unconditional-effect|%s|%s" % (label, what), not ex, {"extra_conditions": ex}, "%s: the %s of an iteration is skipped under an additional condition (%s)" % (fn.name, what, ex),
                  "a sequence invocation that expands to no gates gets no source-map entry, so the map no longer has one entry per source instruction")
    for kind in ("Rewritten", "Unmodified"):
        bb, e = kinds[kind]
        sl = e[3]["source_location"]
        ok = sl[0] == "agg" and sl[1].endswith("InstructionIndex") and (lambda v: v[0] == "field" and v[2] == "0" and any(n[0] == "call" and n[1].endswith("::next") and any(m[0] == "call" and m[1].endswith("::enumerate") for m in nodes(n)) for n in nodes(v)) and not any(n[0] == "bin" for n in nodes(v)))(sl[3]["0"])
        check("K5|source_location|" + kind, ok, {}, "the %s entry's source_location is not the plain enumerate index of the source instruction" % kind, "source map entries point at the wrong source instruction")
    # Unmodified target = len(output) - 1, with len read after the push
    bb, e = kinds["Unmodified"]
    tgt = e[3]["target_location"][3]["0"]
    v = tgt[3]["0"] if tgt[0] == "agg" and tgt[1].endswith("InstructionIndex") else ("x",)
    while v[0] == "field" and v[2] == "0" and v[1][0] == "bin":
        v = v[1]
    ok = v[0] == "bin" and v[1].startswith("Sub") and v[3][0] == "const" and v[3][1] == 1 and v[2][0] == "call" and v[2][1].endswith("::len") and is_output_vec(v[2][2][0])
    if ok:
        lenbb = v[2][3]
        ok = pshw[0][0] in dom.get(lenbb, set())
    check("K5|unmodified-target", ok, {}, "the Unmodified entry's target is not len(output)-1 read after the instruction was pushed", "`H 0; S 0` with S unexpanded: the entry for an unmodified instruction points one off")
    # Rewritten
    bb, e = kinds["Rewritten"]
    d = e[3]["target_location"][3]["0"]
    ok = d[0] == "agg" and d[1].endswith("DefGateSequenceExpansion")
    if ok:
        # read the Range's operands at its own construction site (the nested entry expression is depth-limited)
        rngs = [s_ for b_, s_ in aggregates(fw) if s_["rv"]["a"]["path"].endswith("ops::Range")]
        if len(rngs) == 1:
            rops = dict(zip(rngs[0]["rv"]["a"]["fields"], rngs[0]["rv"]["ops"]))
            rng = ("agg", "Range", "Range", {k_: fn_expr_operand(fw, v_) for k_, v_ in rops.items()})
        else:
            rng = d[3]["range"]
        st = rng[3]["start"][3]["0"] if rng[0] == "agg" and rng[3]["start"][0] == "agg" else ("x",)
        en = rng[3]["end"][3]["0"] if rng[0] == "agg" and rng[3]["end"][0] == "agg" else ("x",)
        st_ok = st[0] == "call" and st[1].endswith("::len") and is_output_vec(st[2][0]) and extw[0][0] not in dom.get(st[3], set()) and st[3] in dom.get(extw[0][0], set())
        while en[0] == "field" and en[2] == "0" and en[1][0] == "bin":
            en = en[1]
        ext_val = extw[0][2][1]
        same_call = lambda a, b: a[0] == "call" and b[0] == "call" and a[1] == b[1] and a[3] == b[3]  # same call site (depth-limited arguments may differ)
        en_ok = en[0] == "bin" and en[1].startswith("Add") and ((same_call(en[2], st) and en[3][0] == "call" and en[3][1].endswith("::len") and same_value(en[3][2][0], ext_val)) or (same_call(en[3], st) and en[2][0] == "call" and en[2][1].endswith("::len") and same_value(en[2][2][0], ext_val)))
        check("K5|rewritten-range-start", st_ok, {}, "the Rewritten entry's range does not start at len(output) read before the expansion is appended", "the reported range of an expanded gate is shifted by the length of its own expansion")
        check("K5|rewritten-range-end", en_ok, {}, "the Rewritten entry's range does not end at start + len(the instructions appended)", "the reported range of an expanded gate does not cover exactly the instructions it was replaced by")
        sig = d[3]["source_signature"]
        sig_ok = any(c[1] == gsf.path for c in expr_calls(sig)) and sig[0] == "field" and sig[2] == "1"
        check("K5|rewritten-signature", sig_ok, {}, "the Rewritten entry's source_signature is not the signature returned for the expanded definition", "the source map names the wrong gate definition")
        ne = d[3]["nested_expansions"]
        wargs = [fn_expr_operand(fw, a) for a in ww[0][1]["args"]]
        clo = wargs[2]
        ne_ok = ne[0] == "call" and ne[1].endswith("::default") and clo[0] == "closure" and any(same_value(ne, c) for c in clo[2])
        if ne_ok:
            # inside the closure the captured map is what the nested call receives as its source_map argument
            h = [x for x in db.closures_of(fw) if x.path == clo[1]][0]
            rc = [(b2, t2) for b2, t2, c in h.calls() if c and callee_path(c) == fw.path]
            ne_ok = len(rc) == 1 and (lambda a: a[0] == "field" and str(a[2]).startswith("cap"))(fn_expr_operand(h, rc[0][1]["args"][2]))
            if ne_ok:
                capi = int(fn_expr_operand(h, rc[0][1]["args"][2])[2][3:])
                ne_ok = same_value(clo[2][capi], ne)
        check("K5|rewritten-nested-map", ne_ok, {}, "the Rewritten entry's nested_expansions is not the map filled by the nested expansion", "nested sequence expansions are missing from the source map")
    else:
        check("K5|rewritten-shape", False, {}, "the Rewritten entry does not carry a DefGateSequenceExpansion", "-")
    # R3 Program-level siblings
    p1 = require_fn(db, res, "quil_rs::program::Program::expand_defgate_sequences")
    p2 = require_fn(db, res, "quil_rs::program::Program::expand_defgate_sequences_with_source_map")
    e1 = byname("expand")
    e2 = byname("expand_with_source_map")
    if p1 and p2 and len(e1) == 1 and len(e2) == 1:
        rows = {}
        for p in (p1, p2):
            ags = [s for bb, s in aggregates(p, "quil_rs::program::Program")]
            row = {}
            if len(ags) == 1:
                for n, o in zip(ags[0]["rv"]["a"]["fields"], ags[0]["rv"]["ops"]):
                    e = fn_expr_operand(p, o)
                    flds = sorted({x[2] for x in nodes(e) if x[0] == "field" and not str(x[2]).isdigit()})
                    cs = sorted({c[1].rsplit("::", 1)[-1] for c in expr_calls(e)})
                    row[n] = (tuple(flds), tuple(cs))
                    if n in ("instructions", "used_qubits"):
                        # only whether the collection starts empty matters (Vec::new / with_capacity(..) / default)
                        import re as _re21
                        fresh = e[0] == "call" and bool(_re21.search(r"(::new$|::default$|::with_capacity$|::with_capacity_and_hasher$|::with_hasher$)", e[1]))
                        row[n] = ("<fresh empty>",) if fresh else (tuple(flds), tuple(cs))
            adds = call_named(p, "add_instructions")
            row["#add_instructions"] = len(adds)
            if len(adds) == 1:
                a = adds[0][2][1]
                row["#added_from"] = tuple(sorted({c[1].rsplit("::", 1)[-1] for c in expr_calls(a)} & {"expand", "expand_with_source_map"}))
                exp = [c for c in expr_calls(a) if c[1].rsplit("::", 1)[-1] in ("expand", "expand_with_source_map")]
                row["#expander_input"] = tuple(sorted({x[2] for c in exp for x in nodes(c[2][1]) if x[0] == "field"})) if exp else ()
            row["#rebuild_used_qubits"] = len(call_named(p, "rebuild_used_qubits"))
            rows[p.name] = row
        r1, r2 = rows[p1.name], rows[p2.name]
        for k in sorted(set(r1) | set(r2)):
            key = "K3|program-sibling|%s" % k
            a, b = r1.get(k), r2.get(k)
            if k == "#added_from":
                ok = a == ("expand",) and b == ("expand_with_source_map",)
            elif k == "#expander_input":
                ok = a == b == ("instructions",)
            elif k.startswith("#"):
                ok = a == b == 1
            elif k in ("instructions", "used_qubits"):
                ok = a == b == ("<fresh empty>",)
            elif k == "gate_definitions":
                ok = a == b and a is not None and "initialize_defgate_sequence_expander" in a[1]
            else:
                ok = a is not None and b is not None and a[0] == b[0] == (k,)
            res.site(key, True, {"without_map": a, "with_map": b, "verdict": "ok" if ok else "VIOLATION"})
            if not ok:
                res.find(key, p2.loc(), "Program-level expansion entry points disagree or deviate on `%s`: %r vs %r" % (k, a, b), "the program returned with a source map differs from the one returned without (a field is dropped or taken from elsewhere)")
        for p in (p1, p2):
            key = "K3|program-sibling|returns-built-program|" + p.name
            oks = [s_ for bb, s_ in aggregates(p) if s_["rv"]["a"]["path"] == "std::result::Result" and s_["rv"]["a"]["variant"] == "Ok"]
            bad = []
            for s_ in oks:
                e = fn_expr_operand(p, s_["rv"]["ops"][0])
                parts = e[1] if e[0] == "tuple" else [e]
                prog = parts[0]
                if not (prog[0] == "agg" and prog[1] == "quil_rs::program::Program") and not (prog[0] == "partial" or any(n[0] == "agg" and n[1] == "quil_rs::program::Program" for n in nodes(prog))):
                    bad.append(str(prog[:3])[:80])
            ok = bool(oks) and not bad
            res.site(key, True, {"ok_returns": len(oks), "not_the_built_program": bad, "verdict": "ok" if ok else "VIOLATION"})
            if not ok:
                res.find(key, p.loc(), "%s has a success return that is not the program it built from the expander's output (%s)" % (p.name, bad), "with `outer` unselected and referencing the selected `inner`, one entry point expands `inner 1` and the other returns the program untouched")
        # expand / expand_with_source_map start their impl with a fresh stack on their argument
        for ef, impl in ((e1[0], fo), (e2[0], fw)):
            key = "K3|entry-calls-impl|" + ef.name
            cs = [(bb, t) for bb, t, c in ef.calls() if c and callee_path(c) == impl.path]
            ok = len(cs) == 1 and (lambda a: a[0] == "param")(fn_expr_operand(ef, cs[0][1]["args"][1])) and any(c[1].endswith("ExpansionStack::new") for c in expr_calls(fn_expr_operand(ef, cs[0][1]["args"][-1])))
            res.site(key, True, {"verdict": "ok" if ok else "VIOLATION"})
            if not ok:
                res.find(key, ef.loc(), "%s does not run %s on its argument with a fresh expansion stack" % (ef.name, impl.name), "-")
    # reverse lookups: the expansion record contains an index iff its half-open range does (shared with C19)
    from qv.props.c19 import range_contains_rule
    range_contains_rule(db, res, ("defgate_sequence_expansion::DefGateSequenceExpansion",))
    res.count("sites", res.sites, floor=30)
    res.explanation = "Sibling agreement of the two expansion loops by effect skeleton, provenance of every field of the pushed source-map entries (origin expressions + dominance for read-before/after-write), and agreement of the two Program-level constructors."
    return res


def same_value(a, b):
    from qv.rules.guards import same_origin
    return same_origin(a, b)
