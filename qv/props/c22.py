"""C22 Every block's dependency graph is a well-formed DAG.

Decides: every edge created by ScheduledBasicBlock::build goes from {BlockStart, or a node drawn from a dependency
queue / the pending-memory results / the trailing set} to {the loop's current node, or BlockEnd}; queues and the
trailing set only ever receive the current node (so everything drawn from them is an earlier node); memory edges are
guarded against self-edges; the frame queues start from BlockStart; after the loop both frame maps and the trailing
set are linked to BlockEnd; a leading classical instruction is linked from BlockStart; the empty block is linked.
Hence every edge points forward (BlockStart < instructions in order < BlockEnd) and the graph is acyclic.
Not decided: reachability for RF instructions that match no frame; graph contents."""
from qv.engine import callee_path, fn_expr_operand, expr_calls, walk_expr
from qv.props import sched
from qv.props.common import aggregates
from qv.report import Result
from qv.rules.guards import root


def _nodes22(e):
    out = []
    walk_expr(e, out.append)
    return out


def run(ctx):
    res = Result("C22")
    db = ctx.db("quil_rs")
    res.rules += ["K5 provenance of source/target at every add_edge site", "K6 only the current node is inserted into queues / the trailing set", "K8 boundary links exist"]
    f = sched.find_build(db)
    if not f:
        res.missing_anchor("ScheduledBasicBlock::build")
        return res
    sites = sched.edge_sites(db, f)
    res.count("add_edge_sites", len(sites), floor=10)
    seen = {"start_to_node": False, "to_end_from_drawn": 0, "start_to_end": False}
    for i, (bb, line, sc, tc, kinds, se, t) in enumerate(sites):
        key = "K5|edge-direction|%s->%s#%d" % (sc if isinstance(sc, str) else sc[0], tc if isinstance(tc, str) else tc[0], i)
        src_ok = sc == "BlockStart" or (isinstance(sc, tuple) and sc[0] == "drawn")
        tgt_ok = tc == "BlockEnd" or (isinstance(tc, tuple) and tc[0] == "loop")
        ok = src_ok and tgt_ok
        # a drawn source must come from a queue result / pending deps / the trailing set
        if ok and isinstance(sc, tuple):
            names = " ".join(sc[1])
            ok = any(x in names for x in ("record_access_and_get_dependencies", "into_pending_dependencies", "HashSet::<T>::new", "collect", "into_values"))
        res.site(key, True, {"line": line, "source": str(sc)[:80], "target": str(tc)[:60], "edge_kinds": sorted(kinds), "verdict": "ok" if ok else "VIOLATION"})
        if not ok:
            res.find(key, f.loc(t["sp"]), "an edge is created from %s to %s: edges must go from BlockStart / an earlier node (drawn from a dependency queue or the trailing set) to the current node / BlockEnd" % (str(sc)[:80], str(tc)[:60]), "a block in which that edge points backwards (cycle) or out of BlockEnd")
        if sc == "BlockStart" and isinstance(tc, tuple):
            seen["start_to_node"] = True
        if tc == "BlockEnd" and isinstance(sc, tuple):
            seen["to_end_from_drawn"] += 1
        if sc == "BlockStart" and tc == "BlockEnd":
            seen["start_to_end"] = True
    for name, ok, msg in (("leading-classical-from-start", seen["start_to_node"], "no edge BlockStart -> current node exists (leading classical instructions are unreachable from the block start)"), ("pending-linked-to-end", seen["to_end_from_drawn"] >= 3, "fewer than three kinds of pending nodes (trailing classical, timed frame queue, frame queue) are linked to BlockEnd"), ("empty-block-link", seen["start_to_end"], "the BlockStart -> BlockEnd link for empty blocks is missing")):
        key = "K8|boundary|" + name
        res.site(key, True, {"verdict": "ok" if ok else "VIOLATION"})
        if not ok:
            res.find(key, f.loc(), msg, "a block whose last instruction is a classical one / an empty block: BlockEnd is not reachable")
    # every per-frame queue map that receives nodes during the loop is flushed to BlockEnd afterwards: the maps are
    # identified by their construction site; a map recorded into but never drained leaves its last users without a path
    # to the block end
    def map_ids(e):
        return {c_[3] for c_ in expr_calls(e) if c_[1] and ("HashMap" in c_[1]) and c_[1].rsplit("::", 1)[-1] in ("new", "default", "with_capacity")}

    recorded = set()
    for r in sched.record_sites(db, f):
        if r["fn"] is f:  # frame queues are recorded in build itself; the memory queues inside closures are drained by value per access
            recorded |= map_ids(r["recv"])
    flushed = set()
    for (bb, line, sc, tc, kinds, se, t) in sites:
        if tc == "BlockEnd":
            flushed |= map_ids(se)
    key = "K8|boundary|every-frame-queue-flushed"
    ok = bool(recorded) and recorded <= flushed
    res.site(key, True, {"queue_maps_recorded_into": sorted(recorded), "queue_maps_flushed_to_block_end": sorted(flushed), "verdict": "ok" if ok else "VIOLATION"})
    if not ok:
        res.find(key, f.loc(), "a per-frame dependency queue map that is recorded into during the block (constructed at bb %s) is not drained into edges to BlockEnd (flushed: %s)" % (sorted(recorded - flushed), sorted(flushed)), "`PULSE 0 \"rf\"; RESET 0`: the RESET is the last user of the frame in the untimed queue only and never reaches the block end")
    # only the current node enters queues / trailing set
    recs = sched.record_sites(db, f)
    res.count("record_access_sites", len(recs), floor=5)
    for i, r in enumerate(recs):
        nc = sched.classify_node_expr(r["node"])
        e = r["node"]
        is_cap_node = e[0] == "field" and e[1][0] == "param" and str(e[3]) == "node"  # closure capture of the loop's `node`
        ok = (isinstance(nc, tuple) and nc[0] == "loop") or is_cap_node
        key = "K6|queue-receives-current-node#%d" % i
        res.site(key, True, {"fn": r["fn"].path[-40:], "node": str(nc)[:60] if not is_cap_node else "captured loop node", "verdict": "ok" if ok else "VIOLATION"})
        if not ok:
            res.find(key, r["fn"].loc(r["t"]["sp"]), "a dependency queue records a node other than the instruction currently being processed: later edges drawn from the queue may point backwards", "a cycle between two instructions of one block")
    # self-edge guard for memory edges: a `ne` comparison on node ids dominating the memory add_edge
    # the memory-dependency edge site: its source is drawn from the collected results of the per-region queues
    mem = [s for s in sites if isinstance(s[2], tuple) and s[2][0] == "drawn" and any("flat_map" in x for x in s[2][1]) and isinstance(s[3], tuple)]
    key = "K7|memory-self-edge-guard"
    ok = False
    def _climb(bb0, levels=4):
        """(switch block, taken target) pairs met when climbing the direct control dependences of bb0 (nearest first);
        transitive dependences inside a loop contain both sides of every branch, so they cannot tell the polarity"""
        out, frontier, seen_ = [], [bb0], set()
        for _ in range(levels):
            nxt = []
            for b_ in frontier:
                for sb_, tgt_ in sorted(f.control_deps(b_, transitive=False)):
                    if (sb_, tgt_) in seen_:
                        continue
                    seen_.add((sb_, tgt_))
                    out.append((sb_, tgt_))
                    nxt.append(sb_)
            frontier = nxt
        return out

    for (bb, line, sc, tc, kinds, se, t) in mem:
        for sb, tgt in _climb(bb):
            tt = f.blocks[sb]["t"]
            if tt["k"] == "switch":
                e = fn_expr_operand(f, tt["d"])
                if e[0] == "call" and e[1].rsplit("::", 1)[-1] in ("ne", "eq") and any(n_[0] == "field" and n_[2] == "node_id" for a_ in e[2] for n_ in _nodes22(a_)):
                    # the edge is drawn on the side where the dependency is a DIFFERENT node
                    false_targets = [target for v, target in tt["ts"] if int(v) == 0]
                    on_true = bool(false_targets) and tgt not in false_targets
                    if on_true == (e[1].rsplit("::", 1)[-1] == "ne"):
                        ok = True
                    break  # only the nearest comparison counts: farther ones are reached around the loop from both sides
    res.site(key, True, {"memory_edge_sites": len(mem), "verdict": "ok" if ok and mem else "VIOLATION"})
    if not (ok and mem):
        res.find(key, f.loc(), "memory-dependency edges are not drawn exactly when `dependency.node_id != node`: an instruction that reads and writes one region gets an edge to itself (or every real dependency is dropped)", "`ADD a 1` (reads and writes a): self-loop, the graph is not a DAG")
    # a classical instruction gets its BlockStart edge exactly when no memory edge was drawn into it: the flag that guards
    # the BlockStart -> node edge is cleared where (and only under the same self-edge guard as) the memory edge is added,
    # or is computed from that comparison.  Deriving it from "the dependency list is empty" is wrong: an in-place update
    # (ADD x 1) lists itself, the self-dependency is filtered out, and the node ends up without any incoming edge.
    key = "K7|classical-start-edge-iff-no-incoming"
    starts = [s_ for s_ in sites if s_[2] == "BlockStart" and isinstance(s_[3], tuple) and s_[3][0] == "loop"]
    ok = False
    detail = {"start_edge_sites": len(starts)}
    if len(starts) == 1 and mem:
        sbb = starts[0][0]
        guard_switches = set()
        for (mbb, line, sc, tc, kinds, se, t) in mem:
            for sb, tgt in f.control_deps(mbb, transitive=True):
                tt = f.blocks[sb]["t"]
                if tt["k"] == "switch":
                    e = fn_expr_operand(f, tt["d"])
                    if e[0] == "call" and e[1].rsplit("::", 1)[-1] in ("ne", "eq"):
                        guard_switches.add(sb)
        # climb the control dependences of the edge site (through the `edge already present?` test of add_dependency!)
        # to the nearest switch on a boolean local
        flag_sw = []
        frontier, seen_sw = [sbb], set()
        while frontier and not flag_sw:
            nxt = []
            for b_ in frontier:
                for sb, tgt in sorted(f.control_deps(b_, transitive=False)):
                    if sb in seen_sw:
                        continue
                    seen_sw.add(sb)
                    tt = f.blocks[sb]["t"]
                    if tt["k"] != "switch":
                        continue
                    pl = tt["d"].get("m") or tt["d"].get("c")
                    e = fn_expr_operand(f, tt["d"])
                    if pl and not pl["pr"] and f.local_ty(pl["l"])["s"] == "bool" and e[0] != "call":
                        flag_sw.append((sb, pl["l"], e))
                    else:
                        nxt.append(sb)
            frontier = nxt
        detail["flag_switches"] = len(flag_sw)
        if len(flag_sw) == 1:
            sb, fl, e = flag_sw[0]
            # (i) cleared under the self-edge guard
            chain = f.backward_slice([fl], through_calls=False) if hasattr(f, "backward_slice") else [fl]
            cleared_under_guard = False
            set_true = False
            for i, j, st in f.stmts():
                if st["k"] == "assign" and st["p"]["l"] in chain and not st["p"]["pr"] and st["rv"]["k"] == "use" and "k" in st["rv"]["o"]:
                    val = st["rv"]["o"]["k"].get("s")
                    if val == "true":
                        set_true = True
                    if val == "false":
                        deps = {x[0] for x in f.control_deps(i, transitive=True)}
                        if deps & guard_switches:
                            cleared_under_guard = True
            # (ii) computed from the comparison
            hit = []
            walk_expr(e, lambda n: hit.append(1) if (n[0] == "call" and n[1].rsplit("::", 1)[-1] in ("ne", "eq")) else None)
            clo_cmp = False
            for n_ in _nodes22(e):
                if n_[0] == "closure":
                    for g in db.by_path.get(n_[1], []):
                        if any(c and c.get("name") in ("ne", "eq") for bb, t, c in g.calls()):
                            clo_cmp = True
            ok = (set_true and cleared_under_guard) or bool(hit) or clo_cmp
            detail.update({"initialised_true": set_true, "cleared_under_self_edge_guard": cleared_under_guard, "computed_from_comparison": bool(hit) or clo_cmp})
    res.site(key, True, dict(detail, verdict="ok" if ok else "VIOLATION"))
    if not ok:
        res.find(key, f.loc(), "the BlockStart edge of a classical instruction is not decided by whether a memory edge was actually drawn into it (%s)" % detail, "`SUB x 1` as the first instruction of a block to touch x: it lists itself as a dependency, gets neither a memory edge nor the BlockStart edge, and is unreachable from the block start")
    # frame queues start from BlockStart
    iw = [g for g in db.fns if g.name == "initial_writer" and "InstructionFrameInteraction" in (g.impl_self_path() or "")]
    key = "K8|frame-initial-writer"
    ok = False
    if iw:
        from qv.engine import fn_expr_local

        e = fn_expr_local(iw[0], 0)
        ok = e[0] == "agg" and e[2] == "Some" and e[3].get("0", ("x",))[0] == "agg" and e[3]["0"][2] == "BlockStart"
    res.site(key, True, {"verdict": "ok" if ok else "VIOLATION"})
    if not ok:
        res.find(key, iw[0].loc() if iw else f.loc(), "the implicit initial writer of a frame queue is not Some(BlockStart): the first instruction on a frame is not reachable from the block start", "a single PULSE in a block has no incoming edge")
    res.explanation = "Provenance of source and target at all %d add_edge sites of ScheduledBasicBlock::build (MIR origin expressions), the insertion discipline of the %d dependency-queue call sites, the self-edge guard and the boundary links. Forward-only edges imply acyclicity." % (len(sites), len(recs))
    res.assumptions = ["petgraph GraphMap::add_edge adds exactly the given edge", "used and blocked frame sets of one instruction are disjoint (C26)"]
    return res
