"""C06 Names are preserved exactly and consistently by parsing.

Decides (K5 must-not-flow): no case-mapped / normalised copy of program text can reach the
parsed program.  Sources: results of str/String/char case-mapping and normalising functions in
any function reachable from the parse entry points.  Sinks: any operand of an aggregate
(struct/enum/tuple construction), a value returned from the function, or an argument of a
call that is not a pure comparison.  Flow into comparisons / `match` scrutinees is allowed
(that is how the reserved words pi, i, sin ... are recognised case-insensitively).
Also (K8): keyword enums are recognised case-sensitively (no strum ascii_case_insensitive)."""
import re

from qv.engine import callee_of, callee_path
from qv.props.common import parse_reach
from qv.report import Result

SOURCES = re.compile(
    r"(::to_lowercase$|::to_uppercase$|::to_ascii_lowercase$|::to_ascii_uppercase$|::make_ascii_lowercase$|::make_ascii_uppercase$"
    r"|impl str>::trim(_start|_end|_matches|_start_matches|_end_matches|_left|_right)?$|impl str>::replace(n)?$|impl str>::repeat$"
    r"|impl char>::to_(ascii_)?(lower|upper)case$|::nfc$|::nfkc$|::nfd$"
    # taking a name apart: the pieces are no longer the identifier that was written
    r"|impl str>::(r?split_once|r?split|r?splitn|split_terminator|split_at|split_at_checked|split_whitespace|split_inclusive|strip_prefix|strip_suffix|r?split_off)$"
    r"|std::string::String::(truncate|pop|remove|drain|split_off|retain|insert|insert_str|push|push_str)$)"
)
# calls through which a tainted value stays the same text
TRANSPARENT = re.compile(
    r"(::as_str$|as std::ops::Deref>::deref$|as std::borrow::ToOwned>::to_owned$|::to_owned$|as std::clone::Clone>::clone$|as std::string::ToString>::to_string$|::to_string$"
    r"|as std::convert::From<.*>>::from$|as std::convert::Into<.*>>::into$|as std::convert::AsRef<.*>>::as_ref$|::as_ref$|::into_boxed_str$|::into_string$|as std::borrow::Borrow<.*>>::borrow$"
    r"|std::string::String::from_utf8|::collect$|::chars$|::map$|::into_iter$|::iter$|::as_bytes$|::into_bytes$)"
)
COMPARISONS = re.compile(
    r"(as std::cmp::PartialEq.*>::(eq|ne)$|as std::cmp::PartialOrd.*>::(partial_cmp|lt|le|gt|ge)$|as std::cmp::Ord>::cmp$|::eq_ignore_ascii_case$|::starts_with$|::ends_with$|::contains$|::is_empty$|::len$"
    r"|::is_some$|::is_none$|impl str>::find$|::is_char_boundary$|as std::hash::Hash>::hash$|::contains_key$|::get$|::binary_search.*$|core::str::traits::.*::(eq|ne)$)"
)


# one named symbol each, with the reason
EXCEPTIONS = {
    ("quil_rs::parser::common::parse_pauli_word::{closure#0}", "split"): "a Pauli word (e.g. `ZXZ`) is decoded letter by letter into PauliGate enum values; no part of it is stored as a name",
}

UNESCAPE_PAIRS = {('\\"', '"'), ("\\\\", "\\")}


def is_unescape_replace(f, t, c):
    """`s.replace("\\\"", "\"")` / `s.replace("\\\\", "\\")`: the quoted-string un-escaper (decided under C07), not a name normalisation"""
    from qv.engine import fn_expr_operand

    if not callee_path(c).endswith("impl str>::replace") or len(t["args"]) < 3:
        return False
    a = fn_expr_operand(f, t["args"][1])
    b = fn_expr_operand(f, t["args"][2])
    return a[0] == "const" and b[0] == "const" and (a[1], b[1]) in UNESCAPE_PAIRS


def taint_flows(db, f):
    """yield (source term, sink description, span) for flows of case-mapped text into sinks within f"""
    srcs = []
    for bb, t, c in f.calls():
        if c and (SOURCES.search(callee_path(c)) or SOURCES.search(c["path"])):
            if is_unescape_replace(f, t, c):
                continue
            srcs.append((bb, t, callee_path(c)))
            # in-place mutators taint their receiver
    for bb, t, spath in srcs:
        tainted = {t["dest"]["l"]}
        if "make_ascii" in spath and t["args"]:
            p = t["args"][0].get("m") or t["args"][0].get("c")
            if p:
                tainted.add(p["l"])
        sinks = []
        changed = True
        guard = 0
        while changed and guard < 50:
            changed = False
            guard += 1
            for i, j, s in f.stmts():
                if s["k"] != "assign":
                    continue
                used = [o for o in f.rvalue_operands(s["rv"]) if any(l in tainted for l in f.operand_locals(o))]
                if not used:
                    continue
                rv = s["rv"]
                dst = s["p"]["l"]
                if rv["k"] == "agg":
                    a = rv["a"]
                    if a["k"] in ("adt", "tuple", "array"):
                        if a["k"] == "adt" and a["path"] in ("std::ops::Range", "std::ops::RangeTo", "std::ops::RangeFrom"):
                            continue
                        desc = "construction of %s" % (a.get("path", a["k"]) + ("::" + a["variant"] if a.get("variant") and a.get("variant") != a.get("path", "").rsplit("::", 1)[-1] else ""))
                        sinks.append((desc, s["sp"]))
                        continue
                    if a["k"] == "closure":
                        if dst not in tainted:
                            tainted.add(dst)
                            changed = True
                        continue
                if dst == 0:
                    sinks.append(("returned from the function", s["sp"]))
                    continue
                if dst not in tainted:
                    tainted.add(dst)
                    changed = True
            for b2, t2, c2 in f.calls():
                if t2 is t:
                    continue
                argl = [l for a in t2["args"] for l in f.operand_locals(a)]
                if not any(l in tainted for l in argl):
                    continue
                p = callee_path(c2) if c2 else ""
                if c2 and (COMPARISONS.search(p) or COMPARISONS.search(c2["path"])):
                    continue
                if c2 and (TRANSPARENT.search(p) or TRANSPARENT.search(c2["path"]) or SOURCES.search(p)):
                    d = t2["dest"]["l"]
                    if d == 0:
                        sinks.append(("returned from the function", t2["sp"]))
                    elif d not in tainted:
                        tainted.add(d)
                        changed = True
                    continue
                if p.endswith("::drop") or p.startswith("core::fmt::rt::Argument") or p.startswith("std::mem::drop"):
                    continue
                sinks.append(("argument of %s" % (p or "an indirect call"), t2["sp"]))
        seen = set()
        for d, sp in sinks:
            if d not in seen:
                seen.add(d)
                yield (bb, t, spath), d, sp


def run(ctx):
    res = Result("C06")
    db = ctx.db("quil_rs")
    syn = ctx.syn()
    entries, parent, local = parse_reach(ctx, res)
    res.rules += [
        "K5 must-not-flow: case-mapped / normalised text -> constructed values, return values, non-comparison calls (in parse-reachable functions)",
        "K5 names stored by the parser derive from token text, never from string constants",
        "K8 lexer keyword enums derive EnumString without ascii_case_insensitive",
    ]
    nsrc_crate = 0
    nsrc = 0
    for f in db.fns:
        has = [1 for bb, t, c in f.calls() if c and (SOURCES.search(callee_path(c)) or SOURCES.search(c["path"])) and not is_unescape_replace(f, t, c)]
        nsrc_crate += len(has)
        if f.dp not in local or not has:
            continue
        nsrc += len(has)
        flows = list(taint_flows(db, f))
        per_src = {}
        for (bb, t, spath), d, sp in flows:
            per_src.setdefault((bb, spath), []).append((d, sp))
        for bb, t, c in f.calls():
            if not (c and (SOURCES.search(callee_path(c)) or SOURCES.search(c["path"]))) or is_unescape_replace(f, t, c):
                continue
            spath = callee_path(c)
            fl = per_src.get((bb, spath), [])
            n = sum(1 for k in res.nontrivial if k.startswith("K5|case-taint|%s|" % f.path))
            key = "K5|case-taint|%s|%s#%d" % (f.path, spath.rsplit("::", 1)[-1], n)
            exc = EXCEPTIONS.get((f.path, spath.rsplit("::", 1)[-1]))
            if fl and exc:
                res.site(key, True, {"fn": f.path, "source": spath, "verdict": "exception: " + exc})
                res.exceptions.append((key, exc))
                continue
            res.site(key, True, {"fn": f.path, "source": spath, "loc": f.loc(t["sp"]), "sinks": [d for d, _ in fl], "verdict": "comparison only" if not fl else "VIOLATION"})
            if fl:
                res.find(key, f.loc(fl[0][1]), "the result of %s (a case-mapped / normalised copy of program text) flows into %s in %s: the parsed program holds a name that differs from the text" % (spath, "; ".join(d for d, _ in fl), f.path.replace("quil_rs::", "")), "`DECLARE Theta REAL; RX(Theta) 0` refers to region `theta` after parsing")
    res.count("normalising_calls_in_crate (positive control)", nsrc_crate, floor=1)
    res.count("normalising_calls_on_parse_paths", nsrc, floor=1)

    # K5 must-flow-from-text: a String the parser stores into an instruction / expression value is never a string constant
    from qv.engine import expr_leaves, fn_expr_operand

    nstr = 0
    for f in db.fns:
        if not f.path.startswith("quil_rs::parser::") or f.is_derived():
            continue
        for i, j, s in f.stmts():
            if not (s["k"] == "assign" and s["rv"]["k"] == "agg" and s["rv"]["a"]["k"] == "adt"):
                continue
            a = s["rv"]["a"]
            if not a["path"].startswith("quil_rs::") or "::parser::" in a["path"]:
                continue
            for name, op in zip(a["fields"], s["rv"]["ops"]):
                pl = op.get("m") or op.get("c")
                if not pl or pl["pr"] or "String" not in f.local_ty(pl["l"])["s"]:
                    continue
                nstr += 1
                consts = [l[1] for l in expr_leaves(fn_expr_operand(f, op)) if l[0] == "const" and isinstance(l[1], str) and l[2] in ("&str", "std::string::String")]
                key = "K5|name-from-constant|%s|%s.%s" % (f.path, a["path"].rsplit("::", 1)[-1], name)
                res.site(key, True, {"fn": f.path, "field": "%s.%s" % (a["path"].rsplit("::", 1)[-1], name), "verdict": "from token text" if not consts else "VIOLATION"} if (consts or nstr % 8 == 0) else None)
                if consts:
                    res.find(key, f.loc(s["sp"]), "%s stores a string constant (%r) into %s.%s of the parsed program on some path: the name in the program is not the spelling in the text" % (f.path.replace("quil_rs::", ""), consts[0], a["path"].rsplit("::", 1)[-1], name), "`PRAGMA Extern foo` parses to a pragma named `%s`" % consts[0])
    res.count("parser_string_fields_checked", nstr, floor=30)

    # K8: keyword enums are case sensitive
    nenum = 0
    for e in syn.enums:
        if not e["module"].startswith("quil_rs::parser"):
            continue
        if any("EnumString" in a for a in e["attrs"]):
            nenum += 1
            bad = [a for a in e["attrs"] if "ascii_case_insensitive" in a]
            for v in e["variants"]:
                bad += [a for a in v["attrs"] if "ascii_case_insensitive" in a]
            key = "K8|case-sensitive-keywords|%s" % e["name"]
            res.site(key, True, {"enum": e["name"], "verdict": "case sensitive" if not bad else "VIOLATION"})
            if bad:
                res.find(key, "%s:%d" % (e["file"], e["ln"]), "lexer enum %s is parsed case-insensitively (%s): an identifier that merely resembles a keyword in another case is no longer kept as an identifier with its spelling" % (e["name"], bad[0]), "a gate named `Measure` or a region named `Add`")
    res.count("lexer_keyword_enums", nenum, floor=4)
    # text is handled as `str` / `char`: nothing on the parse paths turns a single byte into a char (`b as char`,
    # char::from(b)), which re-encodes every non-ASCII character of a name or quoted string
    from qv.props.common import byte_to_char_sites

    key = "K6|byte-to-char-conversion"
    scanned = [f for f in db.fns if not f.is_derived() and (f.dp in local or f.path.startswith("quil_rs::parser::"))]
    nscan = len(scanned)
    hits = byte_to_char_sites(db, scanned)
    res.site(key, True, {"functions_scanned": nscan, "conversions": [h[0].path for h in hits], "verdict": "ok" if not hits else "VIOLATION"})
    if hits:
        res.find(key, hits[0][0].loc(hits[0][1]), "%s builds a char from a single byte / code unit (%s) on a parse path: every non-ASCII character of the text is re-encoded" % (hits[0][0].path.replace("quil_rs::", ""), hits[0][2]), "`DEFFRAME 0 \"µw_drive\"` is stored as the frame `Âµw_drive`")
    # the identifier token is the text of ALL the pieces the identifier grammar recognised, concatenated in order, with
    # nothing in between
    key = "K5|identifier-assembled-from-all-parts"
    from qv.synq import find_all as _fa6

    lir = [f_ for f_ in syn.fns if f_["name"] == "lex_identifier_raw" and "parser/lexer" in f_["file"]]
    if len(lir) != 1:
        res.missing_anchor("lex_identifier_raw")
    else:
        clos = [c_ for c_ in _fa6(lir[0]["body"], lambda n: n.get("k") == "closure") if c_.get("params") and c_["params"][0].get("k") == "tuple"]
        fmts = [m_ for m_ in _fa6(lir[0]["body"], lambda n: n.get("k") == "macro" and n.get("name", "").rsplit("::", 1)[-1] == "format" and "template" in n)]
        if len(clos) == 1 and len(fmts) == 1:
            parts = [p_.get("name") for p_ in clos[0]["params"][0]["ps"]]
            holes = [(pc["hole"].get("name") if "hole" in pc else ("lit", pc.get("lit"))) for pc in fmts[0]["template"]]
            ok = holes == parts and all(isinstance(h_, str) for h_ in holes)
            res.site(key, True, {"recognised_parts": parts, "written": [h_ if isinstance(h_, str) else "literal %r" % (h_[1],) for h_ in holes], "verdict": "ok" if ok else "VIOLATION"})
            if not ok:
                res.find(key, "%s:%d" % (lir[0]["file"], lir[0]["ln"]), "the identifier token is built from %s although the grammar recognised the parts %s" % ([h_ if isinstance(h_, str) else "literal %r" % (h_[1],) for h_ in holes], parts), "`q0-ro` is stored as `q0`")
        else:
            res.site(key, False, {"verdict": "undecided: identifier assembly is not a closure over the recognised parts feeding one format!"})
            res.undecided.append(key)
    res.count("reachable_local_functions", len(local), floor=300)
    res.explanation = (
        "Taint analysis on MIR: %d calls to case-mapping / normalising std functions exist in the crate, %d of them in the %d parse-reachable functions; "
        "the value each produces (and every copy / to_owned / as_str of it) may only reach comparisons. %d lexer keyword enums must be case sensitive. "
        "Decides that no normalised copy of an identifier can be stored in the parsed program; does not decide byte-level lexing of identifiers." % (nsrc_crate, nsrc, len(local), nenum)
    )
    res.assumptions = ["the listed std functions are the only text-normalising functions used (regex list in qv/props/c06.py)"]
    return res
