"""C13 Substitution, evaluation and memory-reference listing agree.

Decides:
  R1 (K2) the three traversals (Expression::evaluate, ::substitute_variables, expression::MemoryReferences::next)
          name every Expression variant that has sub-expressions in an explicit arm binding every child, and
          every child is used (recursive call / push / re-assignment); `Address` is bound where the traversal
          must see memory references; `Variable` where it must see variables;
  R2 (K5) substitute_variables rebuilds each node with the *same* operator / function and children in the same
          positions; evaluate feeds calculate_infix(left', op, right') from the node's left / operator / right;
  R3 (K8) operator semantics tables: calculate_infix, calculate_function and prefix minus agree with the
          arithmetic-expression semantics of the Quil specification;
  R4 (K7) evaluate returns Incomplete only on failed lookups.
Not decided: numeric equality of evaluation orders; index bounds."""
from qv.engine import callee_path, fn_expr_operand, fn_expr_local, walk_expr, expr_calls
from qv.props.common import in_span, require_fn, aggregates
from qv.report import Result
from qv.rules import k2_coverage as k2
from qv.synq import find_all, src

EXPRESSION = "quil_rs::expression::Expression"
MEMREF = "quil_rs::instruction::declaration::MemoryReference"
INFIX_ORACLE = {"Plus": "+", "Minus": "-", "Star": "*", "Slash": "/", "Caret": "powc"}
FUNC_ORACLE = {"Sine": ["sin"], "Cosine": ["cos"], "Exponent": ["exp"], "SquareRoot": ["sqrt"], "Cis": ["cos", "sin", "imag"]}


def anyroot_reads(fn, span):
    """field/downcast chains *used* within span, whatever local they are rooted at (the iterator walks a
    local cursor, not `self`): every place mentioned in the span is resolved through the single-definition
    binding locals (`right = &(expr as Infix).0.right`) it is rooted at; chains start at their first downcast"""
    out = set()

    def chains(p, depth=4):
        names = []
        for pr in p["pr"]:
            if isinstance(pr, dict) and "dc" in pr:
                names.append("as:" + pr["dc"])
            elif isinstance(pr, dict) and "n" in pr:
                names.append(pr["n"])
        outs = []
        if depth > 0:
            alld = fn.defs().get(p["l"], [])
            ds = [d for d in alld if d[0] == "s" and d[3]["k"] == "assign" and not d[3]["p"]["pr"] and d[3]["rv"]["k"] in ("ref", "copyderef", "use")]
            if ds and len(ds) == len(alld) and len(ds) <= 4:
                for d in ds:
                    rv = d[3]["rv"]
                    q = rv.get("p") if rv["k"] in ("ref", "copyderef") else (rv["o"].get("c") or rv["o"].get("m"))
                    if q and q["l"] != p["l"]:
                        for c in chains(q, depth - 1):
                            outs.append(c + names)
        return outs or [names]

    for sp, p in k2.places_in(fn):
        if not in_span(sp, span):
            continue
        for names in chains(p):
            for i, n in enumerate(names):
                if n.startswith("as:"):
                    out.add(tuple(names[i:]))
                    break
    return out


def pat_name(p):
    if p["k"] == "path":
        return p["p"].split("::")[-1]
    if p["k"] == "ident" and not p.get("sub"):
        return p["name"]
    return None


def run(ctx):
    res = Result("C13")
    db = ctx.db("quil_rs")
    syn = ctx.syn()
    res.rules += ["R1 (K2) traversal coverage of Expression children and leaves", "R2 (K5) node rebuilding / operand provenance", "R3 (K8) operator semantics tables vs the specification", "R4 (K7) Incomplete only on failed lookups"]
    ev = [f for f in db.fns if f.path.startswith(EXPRESSION + "::evaluate") and f.kind == "AssocFn"]
    sv = [f for f in db.fns if f.path.startswith(EXPRESSION + "::substitute_variables") and f.kind == "AssocFn"]
    nx = [f for f in db.trait_methods.get(("std::iter::Iterator", "next"), []) if "MemoryReferences" in (f.impl_self_path() or "") and "expression" in f.path]
    if not (len(ev) == 1 and len(sv) == 1 and len(nx) == 1):
        res.missing_anchor("evaluate / substitute_variables / MemoryReferences::next (%d/%d/%d)" % (len(ev), len(sv), len(nx)))
        return res
    ev, sv, nx = ev[0], sv[0], nx[0]
    epred = k2.is_adt(EXPRESSION)
    children = k2.variants_holding(db, EXPRESSION, epred)  # FunctionCall, Infix, Prefix
    res.analysed["variants_with_children"] = {k: [".".join(p) for p in v] for k, v in children.items()}
    if set(children) != {"FunctionCall", "Infix", "Prefix"}:
        res.missing_anchor("Expression variants with children changed: %s (rules must be revisited)" % sorted(children))

    for fn, label, need_leaf in ((ev, "evaluate", {"Address", "Variable"}), (sv, "substitute_variables", {"Variable"}), (nx, "MemoryReferences::next", {"Address"})):
        ms = k2.match_on(db, fn, EXPRESSION)
        if not ms:
            res.missing_anchor("match on Expression in " + label)
            continue
        m = max(ms, key=lambda x: len(x["arms"]))
        cov = k2.pattern_coverage(db, m, EXPRESSION, epred)
        for v in sorted(children):
            c = cov[v]
            key = "K2|traversal|%s|%s" % (label, v)
            ok = c["arm"] == "explicit" and not c["missing"]
            # every child must be *used*: at least as many recursive calls / pushes / re-assignments in the arm as children
            nuse = None
            if ok:
                arm = next(a for a in m["arms"] if v in k2.arm_variants(a, EXPRESSION)[0])
                reads = k2.read_paths(db, fn, arm["body_sp"], 1) | anyroot_reads(fn, arm["body_sp"])
                used = [p for p in c["required"] if k2.has_prefix(reads, ("as:" + v,) + p)]
                nuse = len(used)
                ok = nuse == len(c["required"])
            res.site(key, True, {"fn": label, "variant": v, "children": [".".join(p[1:]) for p in c["required"]], "missing": [".".join(p[1:]) for p in c["missing"]], "arm": c["arm"], "children_used": nuse, "verdict": "ok" if ok else "VIOLATION"})
            if not ok:
                res.find(key, fn.loc(m["sp"]), "%s does not visit every sub-expression of Expression::%s (children %s; arm: %s; used: %s)" % (label, v, [".".join(p[1:]) for p in c["required"]], c["arm"], nuse), "an expression whose only variable / memory reference sits in that child, e.g. inside the right operand of an infix node")
        for leaf in sorted(need_leaf):
            key = "K2|traversal-leaf|%s|%s" % (label, leaf)
            arm = None
            for a in m["arms"]:
                vs, catch = k2.arm_variants(a, EXPRESSION)
                if leaf in vs:
                    arm = a
            bound = arm is not None and any(b[:1] == ("as:" + leaf,) and len(b) >= 2 for b in k2.pattern_bound_paths(arm["pat"]))
            res.site(key, True, {"fn": label, "leaf": leaf, "verdict": "ok" if bound else "VIOLATION"})
            if not bound:
                res.find(key, fn.loc(m["sp"]), "%s does not bind the payload of Expression::%s in an explicit arm: it cannot look it up / report it" % (label, leaf), "`%x + theta[0]`")

    # ---- R1a' the listing defers a child by pushing it: that push happens for every node of the kind, whatever the other
    # child looks like (a literal on the left says nothing about the right operand)
    ms_ = k2.match_on(db, nx, EXPRESSION)
    if ms_:
        m_ = max(ms_, key=lambda x: len(x["arms"]))
        for a_ in m_["arms"]:
            vs_, _c = k2.arm_variants(a_, EXPRESSION)
            for v in sorted(vs_ & set(children)):
                pushes = [(bb, t) for bb, t, c in nx.calls() if c and c.get("name") in ("push", "push_back", "extend") and in_span(t["sp"], a_["body_sp"])]
                if not pushes:
                    continue
                conds = []
                for bb, t in pushes:
                    for sb, tgt in nx.control_deps(bb, transitive=False):
                        tt = nx.blocks[sb]["t"]
                        if tt["k"] != "switch" or not in_span(tt["sp"], a_["body_sp"]):
                            continue  # the selection of the arm itself
                        conds.append(str(fn_expr_operand(nx, tt["d"])[:2])[:70])
                key = "K7|listing-children-unconditional|%s" % v
                res.site(key, True, {"variant": v, "pushes": len(pushes), "conditions": conds, "verdict": "ok" if not conds else "VIOLATION"})
                if conds:
                    res.find(key, nx.loc(a_["sp"]), "MemoryReferences::next defers a child of Expression::%s only under a condition (%s): references in that child are not listed for some nodes" % (v, conds), "`2 * theta[1]` lists no memory reference")
    # ---- R1b helper traversals: every self-recursive local function that matches on Expression and is called from one
    # of the three traversals (e.g. a "does it contain variables" pre-check) must cover the same child-holding variants
    nhelp = 0
    seen_h = {ev.dp, sv.dp, nx.dp}
    work = [(ev, "evaluate"), (sv, "substitute_variables"), (nx, "MemoryReferences::next")]
    depth = {ev.dp: 0, sv.dp: 0, nx.dp: 0}
    while work:
        g0, via = work.pop()
        for g in [g0] + db.closures_of(g0):
            for bb, t, c in g.calls():
                if not c:
                    continue
                for h in db.by_path.get(callee_path(c), []):
                    if h.dp in seen_h or depth[g0.dp] >= 2:
                        continue
                    seen_h.add(h.dp)
                    depth[h.dp] = depth[g0.dp] + 1
                    work.append((h, via))
                    hm = k2.match_on(db, h, EXPRESSION)
                    selfrec = any(c2 and callee_path(c2) == h.path for g2 in [h] + db.closures_of(h) for b2, t2, c2 in g2.calls())
                    if not hm or not selfrec:
                        continue
                    nhelp += 1
                    m2 = max(hm, key=lambda x: len(x["arms"]))
                    cov2 = k2.pattern_coverage(db, m2, EXPRESSION, epred)
                    for v in sorted(children):
                        c2 = cov2[v]
                        key = "K2|helper-traversal|%s|%s" % (h.path, v)
                        ok = c2["arm"] == "explicit" and not c2["missing"]
                        res.site(key, True, {"helper": h.path, "called_from": via, "variant": v, "arm": c2["arm"], "verdict": "ok" if ok else "VIOLATION"})
                        if not ok:
                            res.find(key, h.loc(), "%s (a recursive helper of %s) does not descend into Expression::%s (%s): sub-expressions there are invisible to it" % (h.path.replace("quil_rs::", ""), via, v, c2["arm"]), "a variable that occurs only inside a %s node, e.g. `cos(%%x)`" % v)
    res.count("recursive_helper_traversals", nhelp)

    # no defaulting of a failed lookup inside evaluate: a missing variable / memory cell must surface as Incomplete
    for g in [ev] + db.closures_of(ev):
        for bb, t, c in g.calls():
            if c and c.get("name") in ("unwrap_or", "unwrap_or_default", "unwrap_or_else", "map_or", "or", "or_else", "or_insert", "or_default") and ("Option" in callee_path(c) or "Entry" in callee_path(c)):
                key = "K6|evaluate-defaults-lookup|%s" % c.get("name")
                res.site(key, True)
                res.find(key, g.loc(t["sp"]), "Expression::evaluate substitutes a default (`%s`) for a failed lookup: evaluation succeeds although a variable or memory cell is not supplied" % callee_path(c), "`theta[2]` with theta = [1.5, 2.5] evaluates to 0 instead of failing with Incomplete")
    res.site("K6|evaluate-defaults-lookup", True, {"verdict": "checked"})

    # ---- R2 substitute_variables rebuilds with the same operator / function / positions
    for bb, s in aggregates(sv):
        a = s["rv"]["a"]
        short = a["path"].rsplit("::", 1)[-1]
        if short not in ("InfixExpression", "PrefixExpression", "FunctionCallExpression"):
            continue
        variant = {"InfixExpression": "Infix", "PrefixExpression": "Prefix", "FunctionCallExpression": "FunctionCall"}[short]
        for name, op in zip(a["fields"], s["rv"]["ops"]):
            e = fn_expr_operand(sv, op)
            paths = set()

            def visit(n):
                for r in k2.expr_paths(n):
                    if r[0] == 1:
                        paths.add(r[1])

            walk_expr(e, visit)
            want = ("as:" + variant, "0", name)
            key = "K5|rebuild|%s.%s" % (short, name)
            ok = want in paths and not any(p[:2] == want[:2] and p[2:3] and p[2] != name for p in paths)
            res.site(key, True, {"node": short, "field": name, "derives_from": sorted(".".join(p) for p in paths), "verdict": "ok" if ok else "VIOLATION"})
            if not ok:
                res.find(key, sv.loc(s["sp"]), "substitute_variables rebuilds %s.%s from %s instead of the node's own `%s`" % (short, name, sorted(".".join(p) for p in paths), name), "`%x - %y` with x:=1, y:=2 substitutes to a node with swapped / changed parts")
    # evaluate: operands of calculate_infix
    for bb, t, c in ev.calls():
        if c and callee_path(c).endswith("expression::calculate_infix") and len(t["args"]) == 3:
            for idx, want in ((0, "left"), (1, "operator"), (2, "right")):
                e = fn_expr_operand(ev, t["args"][idx])
                names = set()

                def visit(n):
                    for r in k2.expr_paths(n):
                        if r[0] == 1 and len(r[1]) >= 3:
                            names.add(r[1][2])

                walk_expr(e, visit)
                key = "K5|evaluate-infix-operand|%d" % idx
                ok = names == {want}
                res.site(key, True, {"argument": idx, "derives_from": sorted(names), "expected": want, "verdict": "ok" if ok else "VIOLATION"})
                if not ok:
                    res.find(key, ev.loc(t["sp"]), "evaluate passes %s as argument %d of calculate_infix, expected the node's `%s`" % (sorted(names), idx, want), "`%x - %y` evaluates as y - x")

    # R2b substitute_variables maps a node with sub-expressions to a node of the same kind on every path
    from qv.engine import fn_expr_rvalue as _rv
    eadt = db.adts[EXPRESSION]
    vidx = {v["i"]: v["n"] for v in eadt["variants"]}
    composite = {"Infix", "Prefix", "FunctionCall"}
    nret = 0
    for b_ in range(len(sv.blocks)):
        for s_ in sv.blocks[b_]["s"]:
            if not (s_["k"] == "assign" and s_["p"]["l"] == 0 and not s_["p"]["pr"]):
                continue
            # which variant of self selects this block?
            sel = set()
            for sb, tgt in sv.control_deps(b_):
                tt = sv.blocks[sb]["t"]
                if tt["k"] == "switch":
                    de = fn_expr_operand(sv, tt["d"])
                    if de[0] == "discr" and de[1][0] == "param" and de[1][1] == 1:
                        for v_, x in tt["ts"]:
                            if x == tgt:
                                sel.add(vidx.get(int(v_)))
            sel &= composite
            if len(sel) != 1:
                continue
            nret += 1
            v_ = next(iter(sel))
            e = _rv(sv, s_["rv"])
            ok = e[0] == "agg" and e[1] == EXPRESSION and e[2] == v_
            key = "K5|substitute-keeps-node-kind|%s" % v_
            res.site(key, True, {"returns": (e[2] if e[0] == "agg" else e[0]), "verdict": "ok" if ok else "VIOLATION"})
            if not ok:
                res.find(key, sv.loc(s_["sp"]), "substitute_variables returns %s for a %s node on some path: the operator of the node is dropped or folded" % ((e[2] if e[0] == "agg" else str(e[:2])[:60]), v_), "`+%x` (Prefix Plus) with x := 2 substitutes to the literal -2")
    res.count("substitute_composite_returns", nret, floor=3)
    # ... and leaves a leaf that is not a variable exactly as it is (a memory reference is never a substitution target:
    # `theta[0]` and `%theta` are different things)
    leaves = {vidx[i] for i in vidx} - composite - {"Variable"}
    nleaf = 0
    for b_ in range(len(sv.blocks)):
        # returned values: assignments to _0 and calls whose destination is _0
        rets = [(s_["sp"], _rv(sv, s_["rv"])) for s_ in sv.blocks[b_]["s"] if s_["k"] == "assign" and s_["p"]["l"] == 0 and not s_["p"]["pr"]]
        t_ = sv.blocks[b_]["t"]
        if t_["k"] == "call" and t_["dest"]["l"] == 0 and not t_["dest"]["pr"]:
            c_ = t_.get("f", {}).get("k", {}).get("fn")
            rets.append((t_["sp"], ("call", callee_path(c_) if c_ else "?", [fn_expr_operand(sv, a) for a in t_["args"]], b_)))
        if not rets:
            continue
        sel = set()
        for sb, tgt in sv.control_deps(b_):
            tt = sv.blocks[sb]["t"]
            if tt["k"] == "switch":
                de = fn_expr_operand(sv, tt["d"])
                if de[0] == "discr" and de[1][0] == "param" and de[1][1] == 1:
                    listed = {vidx.get(int(v_)) for v_, x in tt["ts"]}
                    for v_, x in tt["ts"]:
                        if x == tgt:
                            sel.add(vidx.get(int(v_)))
                    if tt["else"] == tgt:
                        sel |= set(vidx.values()) - listed
        if not sel or not (sel <= leaves):
            continue
        for sp_, e in rets:
            nleaf += 1
            root_ = e
            ok = False
            if e[0] == "call" and e[1].rsplit("::", 1)[-1] == "clone" and e[2]:
                root_ = e[2][0]
                while root_[0] in ("field", "as"):
                    root_ = root_[1]
                ok = root_[0] == "param" and root_[1] == 1
            key = "K5|substitute-leaves-leaf-unchanged|%s" % "+".join(sorted(sel))
            res.site(key, True, {"variants": sorted(sel), "returns": str(e[:2])[:70], "verdict": "ok" if ok else "VIOLATION"})
            if not ok:
                res.find(key, sv.loc(sp_), "substitute_variables does not return a %s node unchanged (returns %s)" % ("/".join(sorted(sel)), str(e[:2])[:80]), "`%theta + theta` with theta := 2 and memory theta = [5]: evaluates to 7, substituted first it evaluates to 4")
    res.count("substitute_leaf_returns", nleaf, floor=1)
    # R2b' the leaves of evaluate: a memory reference reads exactly the cell at its own index (no arithmetic on the index),
    # as a real number; `pi` is the number pi
    import math as _math13

    key = "K5|evaluate-address-cell"
    gets = []
    for g_ in [ev] + db.closures_of(ev):
        for bb, t, c in g_.calls():
            if c and c.get("name") == "get" and "slice" in callee_path(c) and len(t["args"]) == 2:
                gets.append((g_, fn_expr_operand(g_, t["args"][1])))
    ok = False
    detail = {"cell_lookups": len(gets)}
    if len(gets) == 1:
        e = gets[0][1]
        while e[0] == "cast":
            e = e[2]
        ok = e[0] == "field" and e[2] == "index"
        detail["index_expression"] = str(e[:1] + (e[2],) if e[0] == "field" else e[:2])[:60]
    res.site(key, True, dict(detail, verdict="ok" if ok else "VIOLATION"))
    if not ok:
        res.find(key, ev.loc(), "evaluate does not read the memory cell at exactly the reference's own index (%s)" % detail, "`theta[0]` evaluates to the value of theta[1]")
    key = "K8|evaluate-pi"
    news = [(bb, t) for bb, t, c in ev.calls() if c and c.get("name") == "new" and "Complex" in callee_path(c)]
    pis = []
    for bb, t in news:
        a = [fn_expr_operand(ev, x) for x in t["args"]]
        if len(a) == 2 and a[0][0] == "const" and a[1][0] == "const":
            try:
                pis.append((float(a[0][1]), float(a[1][1])))
            except (TypeError, ValueError):
                pass
    ok = len(pis) == 1 and abs(pis[0][0] - _math13.pi) < 1e-15 and pis[0][1] == 0.0
    res.site(key, True, {"constant_values": pis, "verdict": "ok" if ok else "VIOLATION"})
    if not ok:
        res.find(key, ev.loc(), "evaluate does not give the symbolic constant pi the value 3.14159...+0i (constants built: %s)" % pis, "`pi` evaluates to 6.28")
    # R2c every value evaluate computes from evaluated children goes through calculate_infix / calculate_function / negation
    WRAP = ("calculate_infix", "calculate_function", "neg")
    nok_ = 0
    for bb, s_ in aggregates(ev):
        a = s_["rv"]["a"]
        if not (a["path"] == "std::result::Result" and a["variant"] == "Ok"):
            continue
        e = fn_expr_operand(ev, s_["rv"]["ops"][0])
        if not any(c_[1] == ev.path for c_ in expr_calls(e)):
            continue  # a leaf value
        nok_ += 1
        top = e
        while top[0] in ("field", "as") or (top[0] == "call" and (top[1].endswith("Try>::branch") or top[1].endswith("::clone"))):
            top = top[1] if top[0] in ("field", "as") else top[2][0]
        ok = top[0] == "call" and top[1].rsplit("::", 1)[-1] in WRAP
        if top[0] == "un" and top[1] == "Neg":
            ok = True
        if top[0] == "call" and top[1] == ev.path:
            ok = True  # the child's value itself (prefix plus)
        key = "K5|evaluate-combines-through-tables|%s" % (top[1].rsplit("::", 1)[-1] if top[0] == "call" else top[0])
        res.site(key, True, {"verdict": "ok" if ok else "VIOLATION"})
        if not ok:
            res.find(key, ev.loc(s_["sp"]), "evaluate combines the values of sub-expressions with %s instead of calculate_infix / calculate_function: the same expression evaluates differently before and after substitution" % (top[1] if top[0] == "call" else str(top[:2])), "`%b ^ %n` with n := 3e9 bound, versus substituted first")
    res.count("evaluate_composite_returns", nok_, floor=2)

    # ---- R3 tables from syntax
    def table(fn_name):
        fs = [x for x in syn.fns if x["name"] == fn_name and x["module"].endswith("expression")]
        if len(fs) != 1:
            return None, None
        ms = find_all(fs[0]["body"], lambda n: n.get("k") == "match")
        return fs[0], (ms[0] if ms else None)

    sf, m = table("calculate_infix")
    if not m:
        res.missing_anchor("calculate_infix")
    else:
        got = {}
        for arm in m["arms"]:
            if pat_name(arm["pat"]):
                b = arm["body"]
                body = src(b).replace(" ", "")
                op = None
                if b.get("k") == "bin":
                    op = b["op"] if (src(b["l"]), src(b["r"])) == ("left", "right") else "swapped:" + b["op"]
                elif b.get("k") == "mcall" and src(b["recv"]) == "left" and [src(a) for a in b["args"]] == ["right"]:
                    op = b["m"]
                got[pat_name(arm["pat"])] = op or body
        for k_, want in INFIX_ORACLE.items():
            key = "K8|calculate_infix|%s" % k_
            ok = got.get(k_) == want
            res.site(key, True, {"operator": k_, "computes": got.get(k_), "spec": want, "verdict": "ok" if ok else "VIOLATION"})
            if not ok:
                res.find(key, "%s:%d" % (sf["file"], sf["ln"]), "calculate_infix computes `%s` for InfixOperator::%s, the specification says left %s right" % (got.get(k_), k_, want), "`2 %s 3`" % want)
    sf, m = table("calculate_function")
    if not m:
        res.missing_anchor("calculate_function")
    else:
        nrows = 0
        for arm in m["arms"]:
            name = pat_name(arm["pat"])
            if not name:
                continue
            nrows += 1
            meths = sorted(c["m"] for c in find_all(arm["body"], lambda n: n.get("k") == "mcall") if src(c["recv"]) == "argument")
            macs = sorted(mm["name"].split("::")[-1] for mm in find_all(arm["body"], lambda n: n.get("k") == "macro"))
            want = FUNC_ORACLE.get(name)
            key = "K8|calculate_function|%s" % name
            ok = want is not None and sorted(meths + macs) == sorted(want)
            if ok and name == "Cis":
                b = arm["body"]
                ok = b.get("k") == "bin" and b["op"] == "+" and "cos" in src(b["l"]) and "sin" in src(b["r"]) and "imag" in src(b["r"])
            res.site(key, True, {"function": name, "computes": src(arm["body"])[:80], "verdict": "ok" if ok else "VIOLATION"})
            if not ok:
                res.find(key, "%s:%d" % (sf["file"], arm["ln"]), "calculate_function computes `%s` for ExpressionFunction::%s" % (src(arm["body"])[:80], name), "`%s(1)`" % name.lower())
        res.count("calculate_function_rows", nrows, floor=5)
    # prefix minus negates, plus is identity (MIR: a Neg on the recursive result under the Minus test)
    negs = [s for i, j, s in ev.stmts() if s["k"] == "assign" and s["rv"]["k"] == "un" and s["rv"]["op"] == "Neg"]
    neg_calls = [1 for bb, t, c in ev.calls() if c and c.get("trait") == "std::ops::Neg"]
    key = "K8|prefix-minus"
    ok = len(negs) + len(neg_calls) == 1
    res.site(key, True, {"negations_in_evaluate": len(negs) + len(neg_calls), "verdict": "ok" if ok else "VIOLATION"})
    if not ok:
        res.find(key, ev.loc(), "evaluate applies %d negations for prefix operators (expected exactly one, for Minus)" % (len(negs) + len(neg_calls)), "`-%x`")

    # ---- R4 Incomplete only from lookups
    ninc = 0
    for g in [ev] + db.closures_of(ev):
        for bb, s in aggregates(g):
            if s["rv"]["a"]["variant"] == "Incomplete":
                ninc += 1
    lookups = [1 for bb, t, c in ev.calls() if c and c.get("name") == "get" and "HashMap" in callee_path(c)]
    key = "K7|incomplete-sites"
    ok = ninc == 2 and len(lookups) == 2
    res.site(key, True, {"Incomplete_constructions": ninc, "map_lookups": len(lookups), "verdict": "ok" if ok else "VIOLATION"})
    if not ok:
        res.find(key, ev.loc(), "evaluate constructs EvaluationError::Incomplete at %d sites with %d map lookups (expected one per lookup: variables, memory)" % (ninc, len(lookups)), "evaluation fails although every variable and memory cell is supplied (or succeeds when one is missing)")
    res.explanation = "Type-directed traversal coverage of the three Expression walkers (HIR pattern bindings + MIR reads), provenance of rebuilt nodes and calculate_infix operands, and operator-semantics tables read from the un-expanded source against the Quil arithmetic semantics."
    res.assumptions = ["num_complex implements +,-,*,/,powc,sin,cos,exp,sqrt as the mathematical functions"]
    return res
