"""C19 The calibration source map exactly accounts for every expansion.

Structural clauses decided (each a necessary condition of exact accounting):
  R1 (K5/K7) Program::expand_calibrations_inner: one loop over enumerate(self.instructions); a matched instruction is
             handed to append_calibration_expansion_output_inner with its enumerate index; an unmatched one is added and,
             iff a map was asked for, gets exactly one Unmodified(len(body)-1) entry read after the add;
  R2 (K5/K7) append_calibration_expansion_output_inner: body length sampled before/after each add_instruction;
             remove_target_index is called exactly when the length did not change, with (length before this add) -
             (length before the expansion); the recorded range is (length before the expansion)..(length after the loop);
             the entry is pushed iff that range is non-empty, with the caller's source index; without a map the same
             instructions are added;
  R3 (K5/K4) Calibrations::recursively_expand_inner: nested Rewritten range = len(out) before..after the extend of that
             very output; nested Unmodified target = len(out) read before the push; source_location = enumerate index;
             the instruction effects on `out` do not depend on build_source_map;
  R4 (K9-lite) CalibrationExpansion::remove_target_index implements the index-shift specification
             start' = start - [target < start], end' = end - [target < end], recursion on target - start(original) only
             when target >= start(original); Rewritten entries whose range became empty are dropped, Unmodified kept;
  R5 (K4)    SourceMap::list_sources / list_targets are mirror images (filter on the one side's contains, project the
             other side), ExpansionResult::contains dispatches Unmodified -> ==, Rewritten -> inner contains, and both
             expansion records' contains is range.contains.
Not decided: contiguity/disjointness for concrete programs; the pinned behaviour that nested Unmodified indices are not
renumbered after a hoisted instruction is removed (see known findings)."""
from qv.engine import callee_path, fn_expr_operand, fn_expr_rvalue, walk_expr, expr_calls
from qv.props.common import aggregates, require_fn
from qv.report import Result
from qv.rules.guards import same_origin
from qv.rules import truth


def nodes(e):
    out = []
    walk_expr(e, out.append)
    return out


def calls_named(f, name):
    return [(bb, t, [fn_expr_operand(f, a) for a in t["args"]]) for bb, t, c in f.calls() if c and c.get("name") == name]


def is_len_of_field(e, field):
    return e[0] == "call" and e[1].endswith("::len") and any(n[0] == "field" and n[2] == field for n in nodes(e[2][0]))


def strip0(e):
    """(x OpWithOverflow y).0 -> ('bin', Op, x, y); InstructionIndex{0:x} -> x"""
    while True:
        if e[0] == "agg" and e[1].endswith("InstructionIndex"):
            e = e[3]["0"]
        elif e[0] == "field" and e[2] == "0" and e[1][0] == "bin":
            e = e[1]
        else:
            return e


def is_enum_index(e):
    e = strip0(e)
    return e[0] == "field" and e[2] == "0" and any(n[0] == "call" and n[1].endswith("::next") and any(m[0] == "call" and m[1].endswith("::enumerate") for m in nodes(n)) for n in nodes(e)) and not any(n[0] == "bin" for n in nodes(e))


def loop_next(f):
    def pred(a):
        tt = f.blocks[a]["t"]
        de = fn_expr_operand(f, tt["d"]) if tt["k"] == "switch" else ("x",)
        return de[0] == "discr" and de[1][0] == "call" and de[1][1].endswith("::next")
    return pred


def ctl(f, bb):
    """classified direct+transitive controlling conditions of bb (not looking above loop headers)"""
    out = []
    ln = loop_next(f)
    inside = f.reachable_blocks(bb)
    for sb, tgt in f.control_deps(bb, stop=lambda a: ln(a) and a in inside):
        tt = f.blocks[sb]["t"]
        if tt["k"] != "switch":
            out.append(("other", tt["k"], None))
            continue
        e, neg = truth._strip_not(fn_expr_operand(f, tt["d"]))
        taken = [int(v) for v, x in tt["ts"] if x == tgt]
        truthy = (taken != [0]) if taken else ([int(v) for v, x in tt["ts"]] == [0])
        if neg:
            truthy = not truthy
        out.append((e, truthy, taken))
    return out


def run(ctx):
    res = Result("C19")
    db = ctx.db("quil_rs")
    res.rules += ["R1 entry per source instruction in expand_calibrations_inner", "R2 range bookkeeping in append_calibration_expansion_output_inner", "R3 nested entries in recursively_expand_inner",
                  "R4 index-shift specification of remove_target_index", "R5 list_sources/list_targets mirror + contains dispatch"]

    def check(key, ok, loc, msg, manifest, detail=None):
        res.site(key, True, dict(detail or {}, verdict="ok" if ok else "VIOLATION"))
        if not ok:
            res.find(key, loc, msg, manifest)

    # ---------------- R1
    f = require_fn(db, res, "quil_rs::program::Program::expand_calibrations_inner")
    app = require_fn(db, res, "quil_rs::program::Program::append_calibration_expansion_output_inner")
    rec = require_fn(db, res, "quil_rs::program::calibration::Calibrations::recursively_expand_inner")
    rti = require_fn(db, res, "quil_rs::program::calibration::CalibrationExpansion::remove_target_index")
    if not (f and app and rec and rti):
        return res
    dom = f.dominators()
    ap = [(bb, t, a) for bb, t, a in [(bb, t, [fn_expr_operand(f, x) for x in t["args"]]) for bb, t, c in f.calls() if c and callee_path(c) == app.path]]
    adds = calls_named(f, "add_instruction")
    pushes = [(bb, t, a) for bb, t, a in calls_named(f, "push") if any(n[0] == "field" and n[2] == "entries" for n in nodes(a[0]))]
    ewd = calls_named(f, "expand_with_detail")
    ok = len(ap) == 1 and len(adds) == 1 and len(pushes) == 1 and len(ewd) == 1
    check("K7|inner|shape", ok, f.loc(), "expand_calibrations_inner no longer has one expansion lookup, one append of a matched expansion, one add of an unmatched instruction and one Unmodified entry push (%d/%d/%d/%d)" % (len(ewd), len(ap), len(adds), len(pushes)), "a source instruction is dropped or recorded twice")
    if ok:
        abb, _, aargs = ap[0]
        check("K5|inner|append-args", any(c[1].endswith("::expand_with_detail") for c in expr_calls(aargs[1])) and is_enum_index(aargs[2]) and aargs[3][0] == "param" and any(c[1].endswith("clone_without_body_instructions") for c in expr_calls(aargs[0])),
              f.loc(), "the matched expansion is not appended to the new program with the enumerate index of its source instruction and the caller's map", "source-map entries of expanded instructions point at the wrong source index")
        dbb, _, dargs = adds[0]
        check("K5|inner|unmatched-added", any(n[0] == "call" and n[1].endswith("::next") for n in nodes(dargs[1])) and same_origin(dargs[0], aargs[0]), f.loc(), "the unmatched source instruction itself is not what is added to the new program", "an unmatched instruction is replaced or lost")
        pbb, _, pargs = pushes[0]
        e = pargs[1]
        shape = e[0] == "agg" and e[1].endswith("SourceMapEntry") and e[3]["target_location"][0] == "agg" and e[3]["target_location"][2] == "Unmodified"
        check("K5|inner|unmodified-entry", shape and is_enum_index(e[3]["source_location"]), f.loc(), "the entry pushed for an unmatched instruction is not Unmodified with the enumerate index as source", "-")
        if shape:
            v = strip0(e[3]["target_location"][3]["0"])
            ok2 = v[0] == "bin" and v[1].startswith("Sub") and v[3][0] == "const" and v[3][1] == 1 and is_len_of_field(v[2], "instructions") and any(c[1].endswith("clone_without_body_instructions") for c in expr_calls(v[2]))
            ok2 = ok2 and dbb in dom.get(v[2][3], set())
            check("K5|inner|unmodified-target", ok2, f.loc(), "the Unmodified target is not len(new body)-1 read after the instruction was added", "`X 0; NOP` with X calibrated to two instructions: the NOP's entry points one off")
        # pushed iff a map was requested; the add is unconditional in the None arm
        pc = ctl(f, pbb)
        dc = ctl(f, dbb)
        map_cond = [c for c in pc if c[0][0] == "discr" and any(n[0] == "param" and n[2] == "source_mapping" for n in nodes(c[0]))]
        extra_p = [c for c in pc if c not in dc and c not in map_cond]
        check("K7|inner|entry-iff-map", len(map_cond) == 1 and not extra_p and dbb in dom.get(pbb, set()), f.loc(), "the Unmodified entry is not pushed exactly when a source map was requested (extra conditions: %d)" % len(extra_p), "some unmatched instructions have no entry in the source map")
        # arms are the Some / None of the lookup
        look = lambda cs: [c for c in cs if c[0][0] == "discr" and any(x[1].endswith("::expand_with_detail") for x in expr_calls(c[0]))]
        check("K7|inner|arms", bool(look(ctl(f, abb))) and bool(look(dc)) and abb not in dom.get(dbb, set()) and dbb not in dom.get(abb, set()), f.loc(), "append / add are not the two arms of the expansion lookup", "-")
    # ---------------- R2
    g = app
    gd = g.dominators()
    lens = [(bb, t, a) for bb, t, a in calls_named(g, "len") if a and any(n[0] == "field" and n[2] == "instructions" for n in nodes(a[0]))]
    gadd = calls_named(g, "add_instruction")
    grem = calls_named(g, "remove_target_index")
    gpush = [(bb, t, a) for bb, t, a in calls_named(g, "push") if any(n[0] == "field" and n[2] == "entries" for n in nodes(a[0]))]
    gaddall = calls_named(g, "add_instructions")
    ok = len(gadd) == 1 and len(grem) == 1 and len(gpush) == 1 and len(gaddall) == 1 and len(lens) >= 4
    check("K7|append|shape", ok, g.loc(), "append_calibration_expansion_output_inner: expected one add_instruction loop, one remove_target_index, one entry push, one add_instructions fallback", "-", {"len_reads": len(lens)})
    if ok:
        addbb = gadd[0][0]
        reach_from_add = g.reachable_blocks(addbb)
        before_loop = [l for l in lens if l[0] not in reach_from_add]
        after_loop = [l for l in lens if l[0] in reach_from_add and addbb not in g.reachable_blocks(l[0])]
        in_loop_before = [l for l in lens if l[0] in gd.get(addbb, set()) and l[0] in reach_from_add]
        in_loop_after = [l for l in lens if addbb in gd.get(l[0], set()) and addbb in g.reachable_blocks(l[0])]
        check("K5|append|length-samples", len(before_loop) == 1 and len(after_loop) == 1 and len(in_loop_before) == 1 and len(in_loop_after) == 1, g.loc(),
              "body length is not sampled once before the expansion, once before and once after each add, and once after the loop (%d/%d/%d/%d)" % (len(before_loop), len(in_loop_before), len(in_loop_after), len(after_loop)), "-")
        if len(before_loop) == 1 and len(after_loop) == 1 and len(in_loop_before) == 1 and len(in_loop_after) == 1:
            prev, s_len, e_len, fin = before_loop[0], in_loop_before[0], in_loop_after[0], after_loop[0]
            rbb, _, rargs = grem[0]
            conds = ctl(g, rbb)
            eqc = [c for c in conds if c[0][0] == "bin" and c[0][1] in ("Eq", "Ne")]
            ok2 = len(eqc) == 1
            if ok2:
                e, truthy, _ = eqc[0]
                sides = {e[2][3] if e[2][0] == "call" else None, e[3][3] if e[3][0] == "call" else None}
                ok2 = sides == {s_len[0], e_len[0]} and ((e[1] == "Eq") == truthy)
            check("K7|append|remove-iff-not-added", ok2, g.loc(), "remove_target_index is not called exactly when the body length is unchanged by the add", "a hoisted DECLARE inside a calibration body stays counted in the reported range")
            v = strip0(rargs[1])
            ok3 = v[0] == "bin" and v[1].startswith("Sub") and v[2][0] == "call" and v[2][3] == s_len[0] and v[3][0] == "call" and v[3][3] == prev[0] and same_origin(rargs[0], ("field", ("param", 2, "expansion_output"), "detail", None)) or False
            if not ok3:
                ok3 = v[0] == "bin" and v[1].startswith("Sub") and v[2][0] == "call" and v[2][3] == s_len[0] and v[3][0] == "call" and v[3][3] == prev[0] and any(n[0] == "field" and n[2] == "detail" for n in nodes(rargs[0]))
            check("K5|append|removed-index", ok3, g.loc(), "the index handed to remove_target_index is not (body length before this add) - (body length before the expansion)", "the wrong nested entry is shifted when a DECLARE is hoisted")
            # range store
            stores = [(i, s) for i, j, s in g.stmts() if s["k"] == "assign" and [p.get("n") for p in s["p"]["pr"] if isinstance(p, dict)][-2:] == ["detail", "range"]]
            ok4 = len(stores) == 1
            if ok4:
                rv = fn_expr_rvalue(g, stores[0][1]["rv"])
                st, en = strip0(rv[3]["start"]), strip0(rv[3]["end"])
                ok4 = rv[0] == "agg" and st[0] == "call" and st[3] == prev[0] and en[0] == "call" and en[3] == fin[0] and stores[0][0] in gd.get(gpush[0][0], set())
            check("K5|append|range", ok4, g.loc(), "detail.range is not set to (body length before the expansion)..(body length after it) before the entry is pushed", "the reported range of an expanded instruction does not cover exactly what was appended")
            pbb, _, pargs = gpush[0]
            e = pargs[1]
            ok5 = e[0] == "agg" and e[3]["source_location"][0] == "param" and e[3]["source_location"][2] == "source_index" and e[3]["target_location"][0] == "agg" and e[3]["target_location"][2] == "Rewritten" and any(n[0] == "field" and n[2] == "detail" for n in nodes(e[3]["target_location"][3]["0"]))
            check("K5|append|entry", ok5, g.loc(), "the pushed entry is not {source_index, Rewritten(expansion_output.detail)}", "-")
            pcs = ctl(g, pbb)
            emp = [c for c in pcs if c[0][0] == "call" and c[0][1].endswith("::is_empty") and any(n[0] == "field" and n[2] == "range" for n in nodes(c[0]))]
            mapc = [c for c in pcs if c[0][0] == "discr" and any(n[0] == "param" and n[2] == "source_mapping" for n in nodes(c[0]))]
            loopx = [c for c in pcs if c[0][0] == "discr" and c[0][1][0] == "call" and c[0][1][1].endswith("::next")]
            check("K7|append|entry-iff-nonempty", len(emp) == 1 and emp[0][1] is False and len(mapc) == 1 and len(pcs) == 2 + len(loopx), g.loc(), "the entry is not pushed exactly when a map was requested and the range is non-empty (%d conditions)" % len(pcs), "an expansion that only declares memory produces an empty-range entry, or a real expansion none")
            # sibling: both branches add expansion_output.new_instructions to self
            it = [a for bb, t, a in calls_named(g, "next") if any(n[0] == "field" and n[2] == "new_instructions" for n in nodes(a[0]))]
            fb = gaddall[0][2]
            check("K4|append|same-instructions", bool(it) and any(n[0] == "field" and n[2] == "new_instructions" for n in nodes(fb[1])) and fb[0][0] == "param" and gadd[0][2][0][0] == "param" and any(n[0] == "call" and n[1].endswith("::next") for n in nodes(gadd[0][2][1])), g.loc(),
                  "with and without a source map the same new_instructions are not added to the program in order", "expand_calibrations and expand_calibrations_with_source_map return different programs")
    # ---------------- R3
    h = rec
    hd = h.dominators()
    is_out = lambda e: e[0] == "call" and e[1].endswith("Vec::<T>::new")
    ext = [(bb, t, a) for bb, t, a in calls_named(h, "extend") if is_out(a[0])]
    psh = [(bb, t, a) for bb, t, a in calls_named(h, "push") if is_out(a[0])]
    ent = [(bb, t, a) for bb, t, a in calls_named(h, "push") if any(n[0] == "field" and n[2] == "entries" for n in nodes(a[0]))]
    kinds = {}
    for bb, t, a in ent:
        e = a[1]
        if e[0] == "agg" and e[1].endswith("SourceMapEntry") and e[3]["target_location"][0] == "agg":
            kinds[e[3]["target_location"][2]] = (bb, e)
    ok = len(ext) == 2 and len(psh) == 1 and set(kinds) == {"Rewritten", "Unmodified"} and len(ent) == 2
    check("K7|nested|shape", ok, h.loc(), "recursively_expand_inner: expected two extends (with/without map), one push of an unexpanded instruction and one entry push of each kind (%d/%d/%s)" % (len(ext), len(psh), sorted(kinds)), "-")
    if ok:
        bsm = lambda cs: [c for c in cs if c[0][0] == "param" and c[0][2] == "build_source_map"]
        c0, c1 = bsm(ctl(h, ext[0][0])), bsm(ctl(h, ext[1][0]))
        check("K4|nested|extend-both-ways", len(c0) == 1 and len(c1) == 1 and c0[0][1] != c1[0][1] and same_origin(ext[0][2][1], ext[1][2][1]) and any(n[0] == "field" and n[2] == "new_instructions" for n in nodes(ext[0][2][1])), h.loc(),
              "the nested output is not appended identically with and without build_source_map", "expansion output depends on whether a source map is built")
        check("K4|nested|push-unconditional", not bsm(ctl(h, psh[0][0])) and any(n[0] == "call" and n[1].endswith("::next") for n in nodes(psh[0][2][1])), h.loc(), "an unexpanded calibration-body instruction is not pushed independently of build_source_map", "-")
        for kind in ("Rewritten", "Unmodified"):
            bb, e = kinds[kind]
            check("K5|nested|source_location|" + kind, is_enum_index(e[3]["source_location"]), h.loc(), "nested %s entry: source_location is not the enumerate index within the calibration body" % kind, "-")
            check("K7|nested|entry-only-with-map|" + kind, len(bsm(ctl(h, bb))) == 1 and bsm(ctl(h, bb))[0][1] is True, h.loc(), "nested %s entry is not pushed exactly when build_source_map is set" % kind, "-")
        # Unmodified target = len(out) read before the push of the instruction
        bb, e = kinds["Unmodified"]
        v = strip0(e[3]["target_location"][3]["0"])
        ok2 = v[0] == "call" and v[1].endswith("::len") and is_out(v[2][0]) and psh[0][0] not in hd.get(v[3], set()) and v[3] in hd.get(bb, set())
        check("K5|nested|unmodified-target", ok2, h.loc(), "nested Unmodified target is not len(out) read before the instruction is pushed", "nested unmodified entries point one past their instruction")
        # Rewritten: store of output.detail.range = len before .. len after the with-map extend
        wm = ext[0] if c0 and c0[0][1] else ext[1]
        stores = [(i, s) for i, j, s in h.stmts() if s["k"] == "assign" and [p.get("n") for p in s["p"]["pr"] if isinstance(p, dict)][-2:] == ["detail", "range"]]
        rw = []
        for i, s in stores:
            rv = fn_expr_rvalue(h, s["rv"])
            if rv[0] == "agg":
                st, en = strip0(rv[3]["start"]), strip0(rv[3]["end"])
                rw.append((i, st, en))
        nested_store = [x for x in rw if x[1][0] == "call"]
        ok3 = len(nested_store) == 1
        if ok3:
            i, st, en = nested_store[0]
            ok3 = st[1].endswith("::len") and is_out(st[2][0]) and en[0] == "call" and en[1].endswith("::len") and is_out(en[2][0]) and st[3] in hd.get(wm[0], set()) and wm[0] in hd.get(en[3], set()) and i in hd.get(kinds["Rewritten"][0], set())
        check("K5|nested|rewritten-range", ok3, h.loc(), "nested Rewritten range is not len(out) before .. after appending that expansion's own output, stored before the entry is pushed", "nested ranges do not cover what the nested calibration produced")
        final_store = [x for x in rw if x[1][0] == "const"]
        ok4 = len(final_store) >= 1 and any(x[1][1] == 0 and x[2][0] == "call" and x[2][1].endswith("::len") and is_out(x[2][2][0]) and ext[0][0] not in h.reachable_blocks(x[2][3]) for x in final_store)
        check("K5|nested|own-range", ok4, h.loc(), "the expansion's own range is not 0..len(out) computed after the loop", "-")
        tl = kinds["Rewritten"][1][3]["target_location"][3]["0"]
        check("K5|nested|rewritten-detail", any(n[0] == "field" and n[2] == "detail" for n in nodes(tl)) and any(c[1].endswith("::expand_inner") for c in expr_calls(tl)), h.loc(), "nested Rewritten entry does not carry the detail returned by the nested expansion", "-")
    # ---------------- R4 remove_target_index
    r = rti
    spec = {"start": None, "end": None}
    for i, j, s in r.stmts():
        if s["k"] == "assign":
            names = [p.get("n") for p in s["p"]["pr"] if isinstance(p, dict)]
            if names[-2:] in (["range", "start"], ["range", "end"]):
                spec[names[-1]] = (i, s)
    for side in ("start", "end"):
        key = "K9|remove_target_index|%s-shift" % side
        if not spec[side]:
            check(key, False, r.loc(), "no store to range.%s" % side, "-")
            continue
        i, s = spec[side]
        cs = ctl(r, i)
        rel = None
        if len(cs) == 1 and cs[0][0][0] in ("call", "bin"):
            e, truthy, _ = cs[0]
            op = e[1].rsplit("::", 1)[-1].lower() if e[0] == "call" else e[1].lower()
            a, b = (e[2][0], e[2][1]) if e[0] == "call" else (e[2], e[3])
            a_is_side = any(n[0] == "field" and n[2] == side for n in nodes(a))
            b_is_side = any(n[0] == "field" and n[2] == side for n in nodes(b))
            a_is_t = any(n[0] == "param" and n[2] == "target_index" for n in nodes(a))
            b_is_t = any(n[0] == "param" and n[2] == "target_index" for n in nodes(b))
            if op in ("gt", "ge", "lt", "le") and ((a_is_side and b_is_t) or (a_is_t and b_is_side)):
                if not truthy:
                    op = {"gt": "le", "le": "gt", "ge": "lt", "lt": "ge"}[op]
                if a_is_t:  # target OP side  ->  side OP' target
                    op = {"gt": "lt", "lt": "gt", "ge": "le", "le": "ge"}[op]
                rel = op
        val = fn_expr_rvalue(r, s["rv"])
        dec = any(c[1].endswith("saturating_sub") or c[1].endswith("::map") for c in expr_calls(val)) or any(n[0] == "bin" and n[1].startswith("Sub") for n in nodes(val))
        ok = rel == "gt" and dec
        res.site(key, True, {"decremented_when": "range.%s %s target" % (side, rel), "specification": "range.%s > target" % side, "verdict": "ok" if ok else "VIOLATION"})
        if not ok:
            res.find(key, r.loc(), "remove_target_index shifts range.%s when `range.%s %s target`; removing index t shifts exactly the indices greater than t (specification: `range.%s > target`)" % (side, side, rel, side),
                     "DEFCAL X 0: NOP; Y 0 / DEFCAL Y 0: DECLARE m BIT; NOP / X 0: the nested range of Y becomes 0..2 instead of 1..2 and overlaps the NOP before it")
    key = "K9|remove_target_index|recursion-offset"
    cs_ = calls_named(r, "checked_sub")
    ok = len(cs_) == 1
    detail = {}
    if ok:
        bb, t, a = cs_[0]
        # where is range.start read for the subtraction: the statement defining the second operand
        reads = []
        op = t["args"][1]
        pl = op.get("c") or op.get("m")
        work, seen = [pl["l"]] if pl else [], set()
        while work:
            l = work.pop()
            if l in seen:
                continue
            seen.add(l)
            for d in r.defs().get(l, []):
                if d[0] == "s":
                    rv = d[3]["rv"]
                    p2 = rv.get("p") or (rv.get("o", {}) or {}).get("c") or (rv.get("o", {}) or {}).get("m")
                    if p2:
                        names = [x.get("n") for x in p2["pr"] if isinstance(x, dict)]
                        if "start" in names:
                            reads.append(d[1])
                        elif not p2["pr"] or p2["pr"] == ["*"]:
                            work.append(p2["l"])
        store_bb = spec["start"][0] if spec["start"] else None
        stale = [b for b in reads if store_bb is not None and (b in r.reachable_blocks(store_bb))]
        first_is_target = any(n[0] == "param" and n[2] == "target_index" for n in nodes(a[0]))
        detail = {"start_read_blocks": reads, "start_store_block": store_bb, "reads_after_store": stale}
        ok = bool(reads) and not stale and first_is_target
    res.site(key, True, dict(detail, verdict="ok" if ok else "VIOLATION"))
    if not ok:
        res.find(key, r.loc(), "remove_target_index computes the index relative to this expansion (target - range.start) from range.start after it may already have been shifted: an index just before the range is then treated as lying inside it",
                 "DEFCAL X 0: NOP; DECLARE m BIT; Y 0 / DEFCAL Y 0: Z 0 / DEFCAL Z 0: NOP; NOP / X 0: the nested range of Z inside Y shrinks to 0..1 although nothing inside it was removed")
    # retain predicate: Unmodified -> keep; Rewritten -> recurse then keep iff non-empty
    key = "K9|remove_target_index|retain"
    cl = [c for c in db.closures_of(r) if any(x and x.get("name") == "is_empty" for bb, t, x in c.calls())]
    verdict = "undecided"
    if len(cl) == 1:
        c = cl[0]
        try:
            ps = truth.decision_paths(c, lambda e: "kind" if e[0] == "discr" else ("empty" if e[0] == "call" and e[1].endswith("::is_empty") else None))
            rows = {}
            for kind in (0, 1):
                for empty in (0, 1):
                    rr = truth.evaluate(ps, {"kind": kind, "empty": empty})
                    rr, neg = truth._strip_not(rr)
                    v = (1 if rr[1] in ("true", 1) else 0) if rr[0] == "const" else (empty if rr[0] == "call" and rr[1].endswith("::is_empty") else None)
                    rows[(kind, empty)] = None if v is None else (1 - v if neg else v)
            rec_calls = [bb for bb, t, x in c.calls() if x and callee_path(x) == r.path]
            emp_calls = [bb for bb, t, x in c.calls() if x and x.get("name") == "is_empty"]
            order = len(rec_calls) == 1 and len(emp_calls) == 1 and rec_calls[0] in c.dominators().get(emp_calls[0], set())
            verdict = "ok" if rows == {(0, 0): 1, (0, 1): 1, (1, 0): 1, (1, 1): 0} and order else "VIOLATION"
        except truth.Undecidable as ex:
            verdict = "undecided: %s" % ex
    res.site(key, True, {"verdict": verdict})
    if verdict == "VIOLATION":
        res.find(key, r.loc(), "remove_target_index's retain predicate is not (Unmodified -> keep; Rewritten -> shift first, keep iff its range is still non-empty)", "a nested expansion that only declared memory leaves an empty-range entry behind, or a live one is dropped")
    elif verdict != "ok":
        res.undecided.append(key + " " + verdict)
    # Unmodified nested entries must be renumbered / dropped as well: removing index t shifts every recorded index > t
    key = "K9|remove_target_index|unmodified-entries-renumbered"
    ok = False
    if len(cl) == 1:
        c = cl[0]
        for i_, j_, s_ in c.stmts():
            if s_["k"] == "assign" and any(isinstance(p_, dict) and p_.get("dc") == "Unmodified" for p_ in s_["p"]["pr"]):
                ok = True
        # or: the whole map is rebuilt elsewhere in the function from shifted indices
        for bb, t, x in c.calls():
            if x and x.get("name") in ("map", "saturating_sub", "checked_sub") and any(n[0] == "as" and n[2] == "Unmodified" for a_ in t["args"] for n in nodes(fn_expr_operand(c, a_))):
                ok = True
    res.site(key, True, {"verdict": "ok" if ok else "VIOLATION"})
    if not ok:
        res.find(key, r.loc(), "remove_target_index never renumbers (or drops) nested Unmodified entries: after a hoisted instruction is removed, Unmodified(i) entries with i >= the removed index keep their old index",
                 "the program of the test `expand_calibrations` (DEFCAL I 0: DECLAREMEM; NOP; NOP with DECLAREMEM declaring memory): nested Unmodified(3) inside a parent range 0..3")
    # ---------------- R5
    ls = [x for x in db.fns if x.name == "list_sources" and "source_map::SourceMap" in x.path]
    lt = [x for x in db.fns if x.name == "list_targets" and "source_map::SourceMap" in x.path]
    if len(ls) == 1 and len(lt) == 1:
        def shape(fn):
            e = fn_expr_operand(fn, {"m": {"l": 0, "pr": []}})
            names = []
            cur = e
            while cur[0] == "call" and cur[2]:
                names.append(cur[1].rsplit("::", 1)[-1])
                nxt = cur[2][0]
                cur = nxt
            proj = [n[1].rsplit("::", 1)[-1] for n in nodes(e) if n[0] == "fnconst"]
            clo = [n for n in nodes(e) if n[0] == "closure"]
            filt = []
            for c_ in clo:
                for hh in db.by_path.get(c_[1], []):
                    filt += [x.get("name") for bb, t, x in hh.calls() if x]
            root_entries = cur[0] == "field" and cur[2] == "entries"
            return names, proj, filt, root_entries
        s1, s2 = shape(ls[0]), shape(lt[0])
        ok = s1[0] == s2[0] == ["collect", "map", "filter"] and s1[3] and s2[3] and s1[1] == ["source_location"] and s2[1] == ["target_location"] and s1[2] == ["target_location", "contains"] and s2[2] == ["source_location", "contains"]
        check("K4|list-mirror", ok, ls[0].loc(), "SourceMap::list_sources / list_targets are no longer mirror images (filter entries by the queried side's contains, project the other side, keep order): %s / %s" % (s1[:3], s2[:3]), "list_sources(t) contains s although list_targets(s) does not contain t")
    else:
        res.missing_anchor("SourceMap::list_sources / list_targets")
    er = [x for x in db.fns if x.name == "contains" and x.path.startswith("<quil_rs::program::source_map::ExpansionResult<R> as") and "InstructionIndex>>" in x.path]
    if len(er) == 1:
        e = fn_expr_operand(er[0], {"m": {"l": 0, "pr": []}})
        alts = e[1] if e[0] == "phi" else [e]
        got = set()
        for a in alts:
            if a[0] == "call":
                v = [n[2] for n in nodes(a) if n[0] == "as"]
                got.add((v[0] if v else None, a[1].rsplit("::", 1)[-1]))
        check("K8|expansion-result-contains", got == {("Rewritten", "contains"), ("Unmodified", "eq")}, er[0].loc(), "ExpansionResult::contains(InstructionIndex) is not {Unmodified(i) -> i == other, Rewritten(r) -> r.contains(other)}: %s" % sorted(got, key=str), "-")
    else:
        res.missing_anchor("ExpansionResult::contains for InstructionIndex")
    range_contains_rule(db, res, ("calibration::CalibrationExpansion", "defgate_sequence_expansion::DefGateSequenceExpansion"))
    res.count("sites", res.sites, floor=30)
    res.explanation = "Provenance of every index written into calibration source maps (origin expressions + dominance for read-before/after-write), control dependence of every entry push, the guard comparators and read/write order of remove_target_index against its index-shift specification, and mirror/dispatch tables of the query functions."
    res.assumptions = ["Vec::retain_mut keeps order; Range::contains / is_empty as documented"]
    return res


def range_contains_rule(db, res, owners):
    """K8: an expansion record contains an InstructionIndex iff its half-open `range` does.  Shared by C19 and C21."""
    def check(key, ok, loc, msg, manifest, detail=None):
        res.site(key, True, dict(detail or {}, verdict="ok" if ok else "VIOLATION"))
        if not ok:
            res.find(key, loc, msg, manifest)

    for owner in owners:
        cc = [x for x in db.fns if x.name == "contains" and x.path.startswith("<quil_rs::program::" + owner) and "InstructionIndex>>" in x.path]
        if len(cc) == 1:
            e = fn_expr_operand(cc[0], {"m": {"l": 0, "pr": []}})
            ok = e[0] == "call" and e[1].endswith("::contains") and e[2][0][0] == "field" and e[2][0][2] == "range" and e[2][1][0] == "param"
            check("K8|range-contains|" + owner.rsplit("::", 1)[-1], ok, cc[0].loc(), "%s::contains(InstructionIndex) is not range.contains(index)" % owner, "-")
        else:
            res.missing_anchor(owner + "::contains")
