"""C33 Wrapping a program in a loop repeats its body exactly n times.

Decides conformance of the generated instruction template to the one for which the "exactly n times" argument
holds (argument, once: the counter is n before the first body; each pass subtracts 1; JUMP-WHEN loops while it is
non-zero; the body does not touch the counter (precondition) => the body runs n times and falls through):
  * early returns: 0 -> clone_without_body_instructions, 1 -> clone;
  * otherwise the sequence handed to add_instructions on a clone_without_body_instructions is, in order,
    DECLARE counter INTEGER[1]; MOVE counter <- iterations; LABEL start; <the original body>; SUB counter 1;
    JUMP-WHEN start counter  (read from the un-expanded source: vec! elements are invisible to MIR provenance);
  * the declaration and the three counter operands name the caller's counter reference; LABEL and JUMP-WHEN use
    the caller's start target;
  * clone_without_body_instructions clones every non-body field of self.
Not decided: execution itself."""
from qv.engine import callee_path, fn_expr_operand, walk_expr
from qv.props.common import require_fn
from qv.report import Result
from qv.rules import k2_coverage as k2
from qv.synq import find_all, src, unparen

PROGRAM = "quil_rs::program::Program"
EXPECT = ["Declaration", "Move", "Label", "<BODY>", "Arithmetic", "JumpWhen"]


def flatten(e):
    e = unparen(e)
    k = e.get("k")
    if k == "mcall":
        m = e["m"]
        if m in ("collect", "into_iter", "iter", "cloned", "copied"):
            inner = unparen(e["recv"])
            if m == "cloned" and inner.get("k") == "mcall" and inner["m"] == "body_instructions" and src(inner["recv"]) == "self":
                return [("<BODY>", None)]
            return flatten(e["recv"])
        if m == "chain":
            return flatten(e["recv"]) + flatten(e["args"][0])
        if m == "body_instructions" and src(e["recv"]) == "self":
            return [("<BODY>", None)]
        return [("?" + m, e)]
    if k == "macro" and e["name"].split("::")[-1] == "vec":
        out = []
        for a in e.get("args") or []:
            a = unparen(a)
            if a.get("k") == "call" and src(a["f"]).startswith("Instruction::"):
                out.append((src(a["f"]).split("::")[1], a["args"][0] if a["args"] else None))
            else:
                out.append(("?", a))
        return out
    if k == "call" and src(e["f"]).endswith("once"):
        return flatten(e["args"][0])
    return [("?", e)]


def field(st, name):
    st = unparen(st)
    if st and st.get("k") == "struct":
        for f in st["fields"]:
            if f["n"] == name:
                return f["e"]
    return None


def run(ctx):
    res = Result("C33")
    db = ctx.db("quil_rs")
    syn = ctx.syn()
    res.rules += ["K8/K5 instruction template of wrap_in_loop", "K3 clone_without_body_instructions clones every non-body field"]
    w = require_fn(db, res, PROGRAM + "::wrap_in_loop")
    cw = require_fn(db, res, PROGRAM + "::clone_without_body_instructions")
    if not (w and cw):
        return res
    sf = syn.fn_for(w)
    if not sf or sf["name"] != "wrap_in_loop":
        res.missing_anchor("syntax of wrap_in_loop")
        return res
    # early returns: decided on the MIR paths (any spelling: match / if chain): the value returned when iterations is 0 is
    # clone_without_body_instructions(self), when it is 1 clone(self); for other values the looped program
    from qv.rules import pathsym
    key = "K8|early-returns"
    tab = {}
    try:
        ps = pathsym.paths(w, limit=4000, transparent_clone=False)
        for conds, env, blocks in ps:
            r = env.get(0, ("undef", 0))
            what = "other"
            if r[0] == "call" and r[1] and r[1].endswith("::clone_without_body_instructions") and r[2] and r[2][0][0] == "param":
                what = "clone_without_body"
            elif (r[0] == "call" and r[1] and r[1].endswith("::clone") and r[2] and r[2][0][0] == "param" and r[2][0][2] == "self") or (r[0] == "param" and r[2] == "self"):
                what = "clone"  # clone() is transparent in origin expressions: `self` returned by value from `&self` is its clone
            # which values of `iterations` take this path
            vals = None
            for e, op, vs in conds:
                if e[0] == "param" and e[2] == "iterations":
                    vals = (op, sorted(vs)) if vals is None else vals
                elif e[0] == "bin" and e[1] in ("Eq", "Ne") and any(x[0] == "param" and x[2] == "iterations" for x in (e[2], e[3])) and any(x[0] == "const" for x in (e[2], e[3])):
                    cst = [x for x in (e[2], e[3]) if x[0] == "const"][0][1]
                    tv = pathsym.truth_of((e, op, vs))
                    if tv is not None and ((e[1] == "Eq") == tv):
                        vals = ("in", [cst])
                elif e[0] == "bin" and e[1] in ("Lt", "Le") and e[2][0] == "param" and e[2][2] == "iterations" and e[3][0] == "const":
                    tv = pathsym.truth_of((e, op, vs))
                    if tv:
                        bound = e[3][1] - (1 if e[1] == "Lt" else 0)
                        vals = ("in", list(range(0, bound + 1)))
            if vals and vals[0] == "in":
                for v in vals[1]:
                    tab.setdefault(str(v), set()).add(what)
        ok = tab.get("0") == {"clone_without_body"} and tab.get("1") == {"clone"}
        verdict = "ok" if ok else "VIOLATION"
    except pathsym.TooComplex as ex:
        verdict = "undecided: %s" % ex
        ok = True
        res.undecided.append(key + " " + verdict)
    res.site(key, True, {"returns_by_iterations": {k_: sorted(v) for k_, v in tab.items()}, "verdict": verdict})
    if verdict == "VIOLATION":
        res.find(key, w.loc(), "wrap_in_loop does not return clone_without_body_instructions() for 0 iterations and clone() for 1 (%s)" % {k_: sorted(v) for k_, v in tab.items()}, "wrap_in_loop(.., 1) changes the program / wrap_in_loop(.., 0) keeps the body")
    # the template
    calls = [c for c in find_all(sf["body"], lambda n: n.get("k") == "mcall" and n["m"] == "add_instructions")]
    if len(calls) != 1:
        res.missing_anchor("the add_instructions call of wrap_in_loop")
        return res
    recv = src(calls[0]["recv"])
    seq = flatten(calls[0]["args"][0])
    kinds = [k for k, _ in seq]
    key = "K8|loop-template-order"
    ok = kinds == EXPECT
    res.site(key, True, {"sequence": kinds, "expected": EXPECT, "verdict": "ok" if ok else "VIOLATION"})
    if not ok:
        res.find(key, w.loc(), "the looped program is built from the sequence %s, the template is %s" % (kinds, EXPECT), "a program wrapped for n = 3 runs its body a different number of times")
        return res
    decl, mov, lab, _, sub, jmp = [x for _, x in seq]
    checks = []
    counter = "loop_count_reference"
    target = "start_target"

    def mentions(e, name):
        return e is not None and name in src(e)

    checks.append(("declare-counter", mentions(field(decl, "name"), counter) and "Integer" in src(field(decl, "size") or {"k": "path", "p": ""}), "DECLARE does not declare the counter region as INTEGER"))
    checks.append(("move-iterations", mentions(field(mov, "destination"), counter) and mentions(field(mov, "source"), "iterations"), "MOVE does not load `iterations` into the counter"))
    checks.append(("label-start", mentions(field(lab, "target"), target), "LABEL does not use the start target"))
    op = field(sub, "operator")
    s_src = field(sub, "source")
    checks.append(("subtract-one", op is not None and src(op).endswith("Subtract") and mentions(field(sub, "destination"), counter) and s_src is not None and src(s_src).replace(" ", "").endswith("LiteralInteger(1)"), "the per-iteration update is not `SUB counter 1`"))
    checks.append(("jump-when-counter", mentions(field(jmp, "target"), target) and mentions(field(jmp, "condition"), counter), "the back edge is not `JUMP-WHEN start counter`"))
    # the MOVE destination, the SUB destination and the JUMP-WHEN condition must be the same memory cell: the caller's
    # reference (name and index), and the declared length must cover its index
    def norm(e):
        return src(unparen(e)).replace(" ", "").replace(".clone()", "") if e is not None else None

    def cell(e):
        e = unparen(e) if e is not None else None
        if e is None:
            return "?"
        if norm(e) == counter:
            return "caller-reference"
        if e.get("k") == "struct" and str(e.get("path", "")).endswith("MemoryReference"):
            n_, i_ = norm(field(e, "name")), norm(field(e, "index"))
            if n_ == counter + ".name" and i_ == counter + ".index":
                return "caller-reference"
            return "%s[%s]" % (n_, i_)
        return norm(e)

    cells = {"MOVE destination": cell(field(mov, "destination")), "SUB destination": cell(field(sub, "destination")), "JUMP-WHEN condition": cell(field(jmp, "condition"))}
    checks.append(("same-counter-cell", set(cells.values()) == {"caller-reference"}, "the counter is not the same memory cell in MOVE, SUB and JUMP-WHEN: %s" % cells))
    size = field(decl, "size")
    length = norm(field(size, "length")) if size is not None and unparen(size).get("k") == "struct" else None
    checks.append(("declared-length-covers-index", length is not None and (counter + ".index") in length and "+1" in length, "the counter region is declared with length %s, which does not cover loop_count_reference.index" % length))
    for name, ok, msg in checks:
        key = "K8|loop-template|" + name
        res.site(key, True, {"verdict": "ok" if ok else "VIOLATION"})
        if not ok:
            res.find(key, w.loc(), msg, "the wrapped program loops a wrong number of times (or forever)")
    # receiver: a clone_without_body_instructions of self
    key = "K5|looped-program-origin"
    lets = [st for st in find_all(sf["body"], lambda n: n.get("k") == "local" and n["pat"].get("k") == "ident" and n["pat"]["name"] == recv)]
    ok = bool(lets) and src(lets[0]["init"]).replace(" ", "") == "self.clone_without_body_instructions()"
    res.site(key, True, {"receiver": recv, "verdict": "ok" if ok else "VIOLATION"})
    if not ok:
        res.find(key, w.loc(), "the instructions are not added to self.clone_without_body_instructions()", "definitions are lost or the body appears twice")
    # the generated DECLARE takes effect: add_instruction stores a declaration by `memory_regions.insert(name, ..)`, which
    # replaces whatever the program declared under that name (a shorter region or one of another type), directly under the
    # match on the instruction kind
    ai = require_fn(db, res, PROGRAM + "::add_instruction")
    if ai:
        key = "K7|generated-declaration-takes-effect"
        stores = []
        others = []
        for bb, t, c in ai.calls():
            if not c or not t["args"]:
                continue
            recv = fn_expr_operand(ai, t["args"][0])
            if recv[0] == "field" and recv[2] == "memory_regions" and recv[1][0] == "param" and recv[1][1] == 1:
                if c.get("name") == "insert" and "IndexMap" in callee_path(c):
                    stores.append((bb, t))
                else:
                    others.append(c.get("name"))
        ok = False
        detail = {"insert_calls": len(stores), "other_uses_of_memory_regions": sorted(set(x for x in others if x))}
        if len(stores) == 1 and not others:
            bb, t = stores[0]
            a = [fn_expr_operand(ai, x) for x in t["args"]]
            from_decl = lambda e, nm: e[0] == "field" and e[2] == nm and e[1][0] == "field" and e[1][1][0] == "as" and e[1][1][2] == "Declaration"
            val_ok = a[2][0] == "agg" and a[2][1].endswith("MemoryRegion") and from_decl(a[2][3].get("size", ("x",)), "size") and from_decl(a[2][3].get("sharing", ("x",)), "sharing")
            deps = sorted(ai.control_deps(bb, transitive=False))
            only_match = len(deps) == 1 and ai.blocks[deps[0][0]]["t"]["k"] == "switch" and fn_expr_operand(ai, ai.blocks[deps[0][0]]["t"]["d"])[0] == "discr"
            ok = from_decl(a[1], "name") and val_ok and only_match
            detail.update({"key_is_declared_name": from_decl(a[1], "name"), "value_is_declared_size_and_sharing": val_ok, "unconditional_in_arm": only_match})
        res.site(key, True, dict(detail, verdict="ok" if ok else "VIOLATION"))
        if not ok:
            res.find(key, ai.loc(), "Program::add_instruction does not store a DECLARE by an unconditional memory_regions.insert(name, MemoryRegion { size, sharing }) (%s): the counter declaration generated by wrap_in_loop may not take effect" % detail, "a program that declares `shots INTEGER[1]` wrapped with counter cell shots[1]: the generated `DECLARE shots INTEGER[2]` is ignored and the loop addresses one past the end")
    # K3 clone_without_body_instructions
    adt = db.adts[PROGRAM]
    for i, j, s in cw.stmts():
        if s["k"] == "assign" and s["rv"]["k"] == "agg" and s["rv"]["a"].get("path") == PROGRAM:
            for name, op_ in zip(s["rv"]["a"]["fields"], s["rv"]["ops"]):
                if name in ("instructions", "used_qubits"):
                    continue
                paths = k2.expr_paths(fn_expr_operand(cw, op_))
                key = "K3|clone-without-body|%s" % name
                ok = any(r[0] == 1 and r[1][:1] == (name,) for r in paths)
                res.site(key, True, {"field": name, "verdict": "ok" if ok else "VIOLATION"})
                if not ok:
                    res.find(key, cw.loc(), "clone_without_body_instructions does not clone self.%s into the result's %s" % (name, name), "definitions of that kind are lost by wrap_in_loop(.., 0)")
    res.explanation = "Template conformance of Program::wrap_in_loop read from the un-expanded source (flattened chain of vec! elements and the body), plus field provenance of clone_without_body_instructions."
    res.assumptions = ["the semantic step (template => n executions) is the four-line argument in the module docstring / DESIGN.md C33"]
    return res
