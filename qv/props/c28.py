"""C28 The control-flow graph partitions the body and locates its blocks.

Decides:
  R1 (K2) the classification `match` in `From<&Program> for ControlFlowGraph` has no catch-all arm and sends
          every Instruction variant that Program::add_instruction routes to the body (INCLUDE excepted) to an
          arm that records it (block body / label / terminator), never to the empty "skip" arm;
  R2 (K8) terminator table: Jump -> Jump, JumpUnless -> ConditionalJump{jump_if_condition_zero: true},
          JumpWhen -> ConditionalJump{..: false}, Halt -> Halt; `into_instruction` maps back (true -> JumpUnless,
          false -> JumpWhen); `is_dynamic` is true exactly for ConditionalJump;
  R3 (K5) at every site that closes a block and continues, the increment of the running instruction offset
          depends on (a) the closed block's instruction count and (b) whether the closed block had a label.
Not decided: the arithmetic beyond these dependences; the exact partition."""
from qv.engine import callee_path, fn_expr_operand, fn_expr_local, walk_expr, expr_calls
from qv.props import c09
from qv.props.common import in_span, aggregates
from qv.report import Result
from qv.rules import k2_coverage as k2

INSTRUCTION = "quil_rs::instruction::Instruction"
PROGRAM = "quil_rs::program::Program"
TERM = "quil_rs::program::analysis::control_flow_graph::BasicBlockTerminator"
EXPECT = {"Jump": ("Jump", None), "JumpUnless": ("ConditionalJump", 1), "JumpWhen": ("ConditionalJump", 0), "Halt": ("Halt", None)}


def label_dep(db, f, e):
    """does origin expression e mention the presence of an Option<&Target>-typed value?"""
    hit = []

    def v(n):
        if n[0] == "call" and n[1].rsplit("::", 1)[-1] in ("is_some", "is_none", "is_some_and", "map_or"):
            t = f.blocks[n[3]]["t"]
            for a in t["args"][:1]:
                p = a.get("m") or a.get("c")
                if p and "Target" in f.local_ty(p["l"])["s"]:
                    hit.append(n[1])
    walk_expr(e, v)
    return bool(hit)


def switch_on_label(db, f, bb):
    """is block bb's switch decided by the presence of an Option<&Target> (is_some/is_none result or its discriminant)?"""
    t = f.blocks[bb]["t"]
    if label_dep(db, f, fn_expr_operand(f, t["d"])):
        return True
    for st in f.blocks[bb]["s"]:
        if st["k"] == "assign" and st["rv"]["k"] == "discr":
            ty = f.local_ty(st["rv"]["p"]["l"])["s"]
            if "Option" in ty and "Target" in ty:
                return True
    return False


def slice_locals(f, l, stop=None):
    return f.backward_slice([l], stop=stop)


def run(ctx):
    res = Result("C28")
    db = ctx.db("quil_rs")
    res.rules += ["R1 (K2) total classification of body-capable variants", "R2 (K8) terminator tables forward and inverse", "R3 (K5) block offset increments depend on the closed block's length and label"]
    fs = [f for f in db.trait_methods.get(("std::convert::From", "from"), []) if f.impl_self_path() == "quil_rs::program::analysis::control_flow_graph::ControlFlowGraph" and "Program" in db.ty_s(f.raw["inputs"][0])]
    if len(fs) != 1:
        res.missing_anchor("<ControlFlowGraph as From<&Program>>::from")
        return res
    f = fs[0]
    add_i = db.fn(PROGRAM + "::add_instruction")
    ms = [m for m in k2.match_on(db, f, INSTRUCTION)]
    if not ms or not add_i:
        res.missing_anchor("match on Instruction in ControlFlowGraph::from / add_instruction")
        return res
    m = max(ms, key=lambda x: sum(len(k2.arm_variants(a, INSTRUCTION)[0]) for a in x["arms"]))
    # ---- R1
    body_variants = set()
    am = [x for x in db.matches_by_owner.get(add_i.path, []) if x["k"] == "match" and db.types[x["scrut_t"]].get("path") == INSTRUCTION]
    muts = c09.fields_mutated(db, add_i)
    explicit_nonbody = set()
    for arm in am[0]["arms"]:
        vs, catch = k2.arm_variants(arm, INSTRUCTION)
        stores = {x for x, sps in muts.items() for sp in sps if in_span(sp, arm["body_sp"])} - {"used_qubits"}
        if stores == {"instructions"} or catch:
            body_variants |= vs
        elif not arm["guard"] and stores:
            explicit_nonbody |= vs
    allv = {v["n"] for v in db.adts[INSTRUCTION]["variants"]}
    body_variants |= allv - explicit_nonbody  # catch-all arm pushes to the body
    kinds = {}
    any_catch = False
    for arm in m["arms"]:
        vs, catch = k2.arm_variants(arm, INSTRUCTION)
        any_catch = any_catch or catch
        # arm kind from what its body does
        pushes = any(in_span(t["sp"], arm["body_sp"]) and c and callee_path(c).endswith("Vec::<T, A>::push") for bb, t, c in f.calls())
        builds = {s["rv"]["a"]["path"].rsplit("::", 1)[-1] for bb, s in aggregates(f) if in_span(s["sp"], arm["body_sp"])}
        empty = not any(in_span(t["sp"], arm["body_sp"]) for bb, t, c in f.calls()) and not builds
        kind = "skip" if empty else ("terminator" if "BasicBlockTerminator" in builds else ("label" if "BasicBlock" in builds else ("body" if pushes else "other")))
        for v in vs:
            kinds[v] = kind
    key = "K2|cfg-classification|catch-all"
    res.site(key, True, {"catch_all": any_catch, "verdict": "ok" if not any_catch else "VIOLATION"})
    if any_catch:
        res.find(key, f.loc(m["sp"]), "the classification match of the CFG builder has a catch-all arm: a new instruction kind is silently classified", "a program using that instruction kind")
    for v in sorted(allv):
        key = "K2|cfg-classification|%s" % v
        k = kinds.get(v)
        bodycap = v in body_variants and v != "Include"
        ok = k is not None and (not bodycap or k in ("body", "label", "terminator"))
        res.site(key, bodycap, {"variant": v, "body_capable": bodycap, "arm": k, "verdict": "ok" if ok else "VIOLATION"} if bodycap and len(res.samples) < 12 or not ok else None)
        if not ok:
            res.find(key, f.loc(m["sp"]), "Instruction::%s can be a body instruction but the CFG builder %s: writing the blocks back does not reproduce the body" % (v, "skips it" if k == "skip" else "does not classify it explicitly"), "a body containing an Instruction::%s" % v)
    # which kinds end a block: exactly the four control transfers; any other kind classified as a terminator disappears
    # from the block body (only JUMP* / HALT can be written back from a terminator) and splits the body where no jump is
    key = "K8|terminator-kinds"
    tk = sorted(v for v, k in kinds.items() if k == "terminator")
    lk = sorted(v for v, k in kinds.items() if k == "label")
    # (the Label arm closes the running block with a Continue terminator, so it is classified with them)
    ok = sorted(set(tk) | set(lk)) == sorted(set(EXPECT) | {"Label"})
    res.site(key, True, {"terminator_kinds": tk, "label_kinds": lk, "verdict": "ok" if ok else "VIOLATION"})
    if not ok:
        res.find(key, f.loc(m["sp"]), "the CFG builder closes a block on %s; only %s end a block and only Label starts one" % (sorted(set(tk) | set(lk)), sorted(EXPECT)), "`X 0; WAIT; X 1` comes back as two blocks and the WAIT is gone")
    res.count("instruction_variants", len(allv), floor=40)
    res.count("body_capable_variants", len(body_variants), floor=25)
    # offsets: an instruction kind that stays in the program body but is left out of the blocks (INCLUDE, by design of the
    # reproduction clause) must still be counted by the offset bookkeeping, or every later block is located too early
    for v in sorted(body_variants):
        if kinds.get(v) == "skip":
            key = "K5|offset-counts-skipped|%s" % v
            res.site(key, True, {"variant": v, "verdict": "VIOLATION"})
            res.find(key, f.loc(m["sp"]), "Instruction::%s stays in the program body but the CFG builder skips it without advancing the block offset: the offsets of all later blocks (and of later instructions of the same block) are one too low" % v, "`X 0; INCLUDE \"f\"; JUMP @a; LABEL @a; Y 0`: the block of @a reports offset 2, its LABEL is body[3]")

    # ---- R1b every arm that records something does so on every path through the arm (no early `continue`)
    def blocks_in(span):
        out = set()
        for i, b in enumerate(f.blocks):
            sps = [st["sp"] for st in b["s"] if "sp" in st] + [b["t"]["sp"]]
            if any(in_span(sp, span) for sp in sps) and not b.get("cleanup"):
                out.add(i)
        return out

    for arm in m["arms"]:
        vs, _ = k2.arm_variants(arm, INSTRUCTION)
        kind = None
        for v in vs:
            kind = kinds.get(v)
        if kind not in ("terminator", "body"):
            continue
        if kind == "terminator" and not (vs & set(EXPECT)):
            continue  # the LABEL arm closes a block only when something is pending; the label itself is kept in current_label
        inside = blocks_in(arm["body_sp"])
        if kind == "terminator":
            rec = {bb for bb, t, c in f.calls() if bb in inside and c and callee_path(c).endswith("Vec::<T, A>::push") and "BasicBlock" in f.local_ty((t["args"][1].get("m") or t["args"][1].get("c") or {"l": 0})["l"])["s"]}
        else:
            rec = {bb for bb, t, c in f.calls() if bb in inside and c and callee_path(c).endswith("Vec::<T, A>::push")}
        entries = {b for b in inside if any(p_ not in inside for p_ in f.preds().get(b, []))}
        ok = bool(rec)
        for e0 in entries:
            seen = {e0}
            stack = [e0]
            while stack and ok:
                b = stack.pop()
                if b in rec:
                    continue
                for s_ in f.succs(b):
                    if s_ not in inside:
                        if b not in rec:
                            ok = False
                        continue
                    if s_ not in seen:
                        seen.add(s_)
                        stack.append(s_)
        key = "K7|arm-records-on-all-paths|%s" % sorted(vs)[0]
        res.site(key, True, {"arm": sorted(vs)[:4], "kind": kind, "recording_blocks": sorted(rec), "verdict": "ok" if ok else "VIOLATION"})
        if not ok:
            res.find(key, f.loc(arm["sp"]), "the %s arm of the CFG builder (%s...) can be left without recording the instruction (%s): it ends up in no block" % (kind, sorted(vs)[0], "no block is pushed on some path" if kind == "terminator" else "not pushed on some path"), "`JUMP-WHEN @then c; JUMP @else`: the second jump directly follows another terminator and is lost")

    # ---- R2 forward table
    nterm = 0
    inner = [x for x in ms if x is not m]
    found = {}
    for x in inner + [m]:
        for arm in x["arms"]:
            vs, _ = k2.arm_variants(arm, INSTRUCTION)
            vs &= set(EXPECT)
            if len(vs) != 1:
                continue
            v = next(iter(vs))
            for bb, s in aggregates(f, TERM):
                if in_span(s["sp"], arm["body_sp"]):
                    a = s["rv"]["a"]
                    flag = None
                    if a["variant"] == "ConditionalJump":
                        op = dict(zip(a["fields"], s["rv"]["ops"])).get("jump_if_condition_zero")
                        e = fn_expr_operand(f, op)
                        flag = e[1] if e[0] == "const" else "?"
                    found.setdefault(v, set()).add((a["variant"], flag))
    for v, exp in EXPECT.items():
        nterm += 1
        key = "K8|terminator|%s" % v
        got = found.get(v, set())
        ok = got == {exp}
        res.site(key, True, {"instruction": v, "terminator": sorted(map(str, got)), "expected": str(exp), "verdict": "ok" if ok else "VIOLATION"})
        if not ok:
            res.find(key, f.loc(), "Instruction::%s is turned into terminator %s, expected %s%s" % (v, sorted(map(str, got)), exp[0], "" if exp[1] is None else " with jump_if_condition_zero = %s" % bool(exp[1])), "a block ending in %s reports the opposite branch condition" % v)
    # inverse
    inv = [g for g in db.fns if g.path == TERM + "::<'_>::into_instruction"]
    if inv:
        g = inv[0]
        for vname, sw_val in (("JumpUnless", "1"), ("JumpWhen", "0")):
            key = "K8|terminator-inverse|%s" % vname
            ok = False
            for bb, s in aggregates(g, INSTRUCTION, vname):
                dom = g.dominators().get(bb, set())
                for d in dom:
                    t = g.blocks[d]["t"]
                    if t["k"] == "switch":
                        e = fn_expr_operand(g, t["d"])
                        names = []
                        walk_expr(e, lambda n: names.append(n[2]) if n[0] == "field" else None)
                        if "jump_if_condition_zero" in names:
                            tg1 = t["else"]
                            tg0 = None
                            for v_, b_ in t["ts"]:
                                if v_ == "0":
                                    tg0 = b_
                                if v_ == "1":
                                    tg1 = b_
                            side = tg1 if sw_val == "1" else tg0
                            other = tg0 if sw_val == "1" else tg1
                            if side is not None and (side in dom or side == bb) and not (other in dom or other == bb):
                                ok = True
            res.site(key, True, {"variant": vname, "flag": sw_val, "verdict": "ok" if ok else "VIOLATION"})
            if not ok:
                res.find(key, g.loc(), "BasicBlockTerminator::into_instruction does not build Instruction::%s on the jump_if_condition_zero == %s side" % (vname, bool(int(sw_val))), "writing the blocks back swaps JUMP-WHEN and JUMP-UNLESS")
    else:
        res.missing_anchor("BasicBlockTerminator::into_instruction")
    dyn = [g for g in db.fns if g.path == TERM + "::<'_>::is_dynamic"]
    if dyn:
        g = dyn[0]
        dm = [x for x in db.matches_by_owner.get(g.path, []) if x["k"] == "match"]
        vs = set()
        for x in dm:
            for arm in x["arms"]:
                v, c_ = k2.arm_variants(arm, TERM)
                if v:
                    vs |= v
        key = "K8|is-dynamic"
        ok = vs == {"ConditionalJump"}
        res.site(key, True, {"matches": sorted(vs), "verdict": "ok" if ok else "VIOLATION"})
        if not ok:
            res.find(key, g.loc(), "is_dynamic matches %s instead of exactly ConditionalJump" % sorted(vs), "a program with only JUMP / HALT reports dynamic control flow (or one with JUMP-WHEN does not)")
    else:
        res.missing_anchor("BasicBlockTerminator::is_dynamic")

    # ---- R3 offset increments
    off = [l for l in range(len(f.locals)) if f.local_name(l) == "instruction_index_offset"]
    # robust identification: the local copied into BasicBlock.instruction_index_offset
    cands = set()
    for bb, s in aggregates(f, "quil_rs::program::analysis::control_flow_graph::BasicBlock"):
        op = dict(zip(s["rv"]["a"]["fields"], s["rv"]["ops"])).get("instruction_index_offset")
        if op:
            e = op.get("c") or op.get("m")
            # follow copies
            l = e["l"]
            for _ in range(3):
                ds = [d for d in f.defs().get(l, []) if d[0] == "s" and d[3]["k"] == "assign" and d[3]["rv"]["k"] == "use"]
                if len(f.defs().get(l, [])) == 1 and ds:
                    p = ds[0][3]["rv"]["o"].get("c") or ds[0][3]["rv"]["o"].get("m")
                    if p and not p["pr"]:
                        l = p["l"]
                        continue
                break
            cands.add(l)
    if len(cands) != 1:
        res.missing_anchor("running offset local of the CFG builder")
        return res
    acc = next(iter(cands))
    nupd = 0
    for i, j, s in f.stmts():
        if s["k"] != "assign" or s["p"]["l"] != acc or s["p"]["pr"]:
            continue
        e = fn_expr_operand(f, s["rv"]["o"]) if s["rv"]["k"] == "use" else None
        if e is None or e[0] == "const":
            continue  # initialisation
        nupd += 1
        # find the increment operand: the Add whose other operand is the accumulator
        src_l = (s["rv"]["o"].get("m") or s["rv"]["o"].get("c"))["l"]
        inc_l = None
        for d in f.defs().get(src_l, []):
            if d[0] == "s" and d[3]["rv"]["k"] == "bin" and d[3]["rv"]["op"].startswith("Add"):
                a, b = d[3]["rv"]["a"], d[3]["rv"]["b"]
                la = (a.get("c") or a.get("m") or {}).get("l")
                lb = (b.get("c") or b.get("m") or {}).get("l")
                if la == acc:
                    inc_l = lb
                elif lb == acc:
                    inc_l = la
        key = "K5|offset-increment|%s#%d" % ("ControlFlowGraph::from", nupd - 1)
        if inc_l is None:
            res.site(key, False, {"verdict": "undecided: increment operand not identified"})
            res.undecided.append(key)
            continue
        inc_e = fn_expr_local(f, inc_l)
        # the length must be that of the *closed block's* instruction vector (BasicBlock.instructions), not of the
        # running accumulator (which std::mem::take has just emptied)
        has_len = False
        for l2 in slice_locals(f, inc_l, stop={acc}):
            for d in f.defs().get(l2, []):
                if d[0] == "t" and (d[3]["f"].get("k", {}).get("fn", {}) or {}).get("name") == "len" and d[3]["args"]:
                    pl = d[3]["args"][0].get("m") or d[3]["args"][0].get("c")
                    names = []
                    for _ in range(3):
                        if pl is None:
                            break
                        names += [(pr.get("o"), pr["n"]) for pr in pl["pr"] if isinstance(pr, dict) and "n" in pr]
                        ds = f.defs().get(pl["l"], [])
                        pl = ds[0][3]["rv"].get("p") if len(ds) == 1 and ds[0][0] == "s" and ds[0][3]["k"] == "assign" and ds[0][3]["rv"]["k"] in ("ref", "copyderef") else None
                    if any(o and o.endswith("control_flow_graph::BasicBlock") and n == "instructions" for o, n in names):
                        has_len = True
        dep = label_dep(db, f, inc_e)
        if not dep:
            # a phi among the increment's inputs selected by a label-presence test
            for l in slice_locals(f, inc_l, stop={acc}):
                whole = [d for d in f.defs().get(l, []) if d[0] == "s" and not d[3]["p"]["pr"]]
                if len(whole) < 2 or l == acc:
                    continue
                doms = [f.dominators().get(d[1], set()) | {d[1]} for d in whole]
                common = set.intersection(*doms)
                sw = [b for b in common if f.blocks[b]["t"]["k"] == "switch"]
                if not sw:
                    continue
                best = max(sw, key=lambda b: len(f.dominators().get(b, set())))
                if switch_on_label(db, f, best):
                    dep = True
        # a block closed by a JUMP / JUMP-WHEN / JUMP-UNLESS / HALT also contains that instruction: the increment has a
        # literal `+ 1` (an Add with a constant operand); a block closed by the next LABEL does not
        in_term_arm = any(in_span(s["sp"], a_["body_sp"]) and (k2.arm_variants(a_, INSTRUCTION)[0] & set(EXPECT)) for a_ in m["arms"])
        const_one = False
        for l2 in slice_locals(f, inc_l, stop={acc}):
            for d in f.defs().get(l2, []):
                if d[0] == "s" and d[3]["rv"]["k"] == "bin" and d[3]["rv"]["op"].startswith("Add"):
                    for side in (d[3]["rv"]["a"], d[3]["rv"]["b"]):
                        kk = side.get("k")
                        if kk is not None and str(kk.get("int", kk.get("s", ""))).split("_")[0] == "1":
                            const_one = True
        term_ok = const_one == in_term_arm
        ok = has_len and dep and term_ok
        res.site(key, True, {"site": f.loc(s["sp"]), "depends_on_len": has_len, "depends_on_label_presence": dep, "closes_on_a_terminator": in_term_arm, "adds_one_for_the_terminator": const_one, "verdict": "ok" if ok else "VIOLATION"})
        if has_len and dep and not term_ok:
            res.find(key, f.loc(s["sp"]), "the running offset is advanced %s a literal `+ 1` at a site that closes a block %s a terminator instruction: later blocks are located one position too %s" % ("without" if in_term_arm else "with", "on" if in_term_arm else "without", "early" if in_term_arm else "late"), "`X 0; JUMP @a; LABEL @a; Y 0`: the second block reports offset 1, its LABEL is body[2]")
        if not ok:
            missing = [n for n, v in (("the closed block's instruction count", has_len), ("whether the closed block had a label", dep)) if not v]
            res.find(key, f.loc(s["sp"]), "when a block is closed here, the next block's offset is advanced by an amount that does not depend on %s" % " / ".join(missing), "`X 0; LABEL @a; Y 0`: the second block reports offset 2 although its first element (the label) is at body position 1")
    res.count("offset_update_sites", nupd, floor=2)
    res.count("terminator_table_rows", nterm, floor=4)
    # has_dynamic_control_flow is `any block's terminator is_dynamic` on every path: its value is the result of an `any`
    # over self.blocks whose closure consults the terminator's is_dynamic, with no other (constant) return
    hd = [g for g in db.fns if g.name == "has_dynamic_control_flow" and "ControlFlowGraph" in g.path]
    key = "K8|has-dynamic-control-flow"
    if len(hd) != 1:
        res.missing_anchor("ControlFlowGraph::has_dynamic_control_flow")
    else:
        from qv.engine import fn_expr_local as _fl, walk_expr as _wx2
        g = hd[0]
        e = _fl(g, 0)
        ok = e[0] == "call" and e[1] and e[1].rsplit("::", 1)[-1] == "any" and e[2] and any(n[0] == "field" and n[2] == "blocks" for n in _nodes28(e[2][0]))
        if ok:
            clo = [n for n in _nodes28(e) if n[0] == "closure"]
            ok = bool(clo) and any(any(c2 and c2.get("name") == "is_dynamic" for b2, t2, c2 in hh.calls()) for c_ in clo for hh in db.by_path.get(c_[1], []))
        res.site(key, True, {"returns": (e[1].rsplit("::", 1)[-1] if e[0] == "call" else e[0]), "verdict": "ok" if ok else "VIOLATION"})
        if not ok:
            res.find(key, g.loc(), "has_dynamic_control_flow is not `self.blocks.iter().any(|b| b.terminator().is_dynamic())` on every path (it returns %s)" % (str(e[:2])[:80]), "a single-block program ending in JUMP-UNLESS reports no dynamic control flow")
    res.explanation = "Classification totality over %d Instruction variants (HIR arms of the CFG builder against add_instruction's body routing), terminator tables in both directions, and dependence queries on the %d offset-update sites (data dependence on Vec::len, data/selecting-control dependence on the closed block's label)." % (len(allv), nupd)
    res.assumptions = ["INCLUDE is excluded by the property"]
    return res


def _nodes28(e):
    from qv.engine import walk_expr
    out = []
    walk_expr(e, out.append)
    return out
