"""C02 Parsed programs print to text that re-parses to the same program.

Decides four necessary conditions of the round trip (for all programs at once):
  R1 (K3) every `impl Quil for T::write` reads every field of T (two values differing only in an
          unread field print identically, so one of them cannot round-trip);
  R2 (K8) every keyword a writer emits is a spelling the lexer knows (Command / KeywordToken /
          Modifier / DataType), so printed text lexes to the intended keyword token;
  R3 (K8) for each Instruction variant, the command keyword its writer prints is dispatched by
          parse_instruction to a parser that constructs that same variant;
  R4 (K6) the writer arm of an f64 literal variant (in an enum that also has an i64 literal variant)
          does not format solely through <f64 as Display>, which prints 1.0 as `1`.
Not decided: number formatting values, layout of blocks, expression precedence (C03), ordering (C08/C09)."""
import re

from qv.engine import callee_of, callee_path, fn_expr_operand
from qv.props.common import in_span, require_fn
from qv.report import Result
from qv.rules import k2_coverage as k2
from qv.synq import find_all

QUIL = "quil_rs::quil::Quil"
INSTRUCTION = "quil_rs::instruction::Instruction"
WORD = re.compile(r"[A-Za-z][A-Za-z-]*[A-Za-z]|[A-Za-z]")
FIELD_EXCEPTIONS = {
    ("quil_rs::instruction::qubit::Qubit", "Placeholder.0"): "placeholders have no Quil text: the writer returns ToQuilError (decided under C04)",
    ("quil_rs::instruction::control_flow::Target", "Placeholder.0"): "placeholders have no Quil text: the writer returns ToQuilError (decided under C04)",
    ("quil_rs::program::Program", "used_qubits"): "cache derived from the other fields (decided under C10)",
}
NON_KEYWORD_WORDS = {"pi", "i"}  # reserved words of the expression grammar, checked under C03


def kebab(name, style):
    """strum serialize_all conversion for the styles used by the lexer enums"""
    words = re.findall(r"[A-Z]+(?![a-z])|[A-Z][a-z0-9]*|[a-z0-9]+", name)
    if style == "SCREAMING-KEBAB-CASE":
        return "-".join(w.upper() for w in words)
    if style == "UPPERCASE":
        return name.upper()
    if style == "lowercase":
        return name.lower()
    return name


def enum_spellings(e):
    style = None
    for a in e["attrs"]:
        m = re.search(r'serialize_all\s*=\s*"([^"]+)"', a)
        if m:
            style = m.group(1)
    out = {}
    for v in e["variants"]:
        sp = []
        for a in v["attrs"]:
            for m in re.finditer(r'(?:to_string|serialize)\s*=\s*"([^"]+)"', a):
                sp.append(m.group(1))
        if not sp:
            sp = [kebab(v["name"], style)]
        out[v["name"]] = sp
    return out


def writer_words(syn, w):
    sf = syn.fn_for(w)
    if not sf:
        return None
    words = []
    for m in find_all(sf["body"], lambda n: n.get("k") == "macro" and n["name"].rsplit("::", 1)[-1] in ("write", "writeln")):
        for piece in m.get("template", []):
            if "lit" in piece:
                words += WORD.findall(piece["lit"])
    return words


def variants_constructed(db, fn, depth=3, _seen=None):
    seen = _seen if _seen is not None else set()
    out = set()
    if fn.dp in seen:
        return out
    seen.add(fn.dp)
    for g in [fn] + db.closures_of(fn):
        for i, j, s in g.stmts():
            if s["k"] == "assign" and s["rv"]["k"] == "agg" and s["rv"]["a"]["k"] == "adt" and s["rv"]["a"]["path"] == INSTRUCTION:
                out.add(s["rv"]["a"]["variant"])
            if s["k"] == "assign":
                for o in g.rvalue_operands(s["rv"]):
                    k = o.get("k")
                    if k and "fn" in k and k["fn"]["path"].startswith(INSTRUCTION + "::") and k["fn"]["path"].rsplit("::", 1)[1][:1].isupper():
                        out.add(k["fn"]["path"].rsplit("::", 1)[1])
        for bb, t, c in g.calls():
            for o in t["args"]:
                k = o.get("k")
                if k and "fn" in k and k["fn"]["path"].startswith(INSTRUCTION + "::") and k["fn"]["path"].rsplit("::", 1)[1][:1].isupper():
                    out.add(k["fn"]["path"].rsplit("::", 1)[1])
            if c and depth > 0:
                p = callee_path(c)
                if p.startswith(INSTRUCTION + "::") and p.rsplit("::", 1)[1][:1].isupper():
                    out.add(p.rsplit("::", 1)[1])
                for h in db.by_path.get(p, []):
                    if h.path.startswith("quil_rs::parser::"):
                        out |= variants_constructed(db, h, depth - 1, seen)
    return out


def run(ctx):
    res = Result("C02")
    db = ctx.db("quil_rs")
    syn = ctx.syn()
    res.rules += [
        "R1 (K3) every Quil::write reads every field of its type",
        "R2 (K8) every keyword emitted by a writer is a lexer spelling",
        "R3 (K8) writer command keyword -> parse_instruction dispatch -> same Instruction variant",
        "R4 (K6) f64 literal operands are not printed through <f64 as Display> alone",
    ]
    writers = [f for f in db.fns if f.raw.get("impl_trait") == QUIL and f.name == "write"]
    res.count("quil_write_impls", len(writers), floor=60)

    # ---- R1
    nfields = 0
    for w in sorted(writers, key=lambda f: f.path):
        sp = w.impl_self_path()
        adt = db.adts.get(sp)
        if not adt:
            continue
        reads = k2.deep_read_paths(db, w)
        units = []
        if adt["kind"] == "Struct":
            units = [((fl["n"],), fl["n"]) for fl in adt["variants"][0]["fields"]]
        else:
            for v in adt["variants"]:
                for fl in v["fields"]:
                    units.append((("as:" + v["n"], fl["n"]), "%s.%s" % (v["n"], fl["n"])))
        for pref, label in units:
            nfields += 1
            key = "K3|writer-field|%s|%s" % (sp, label)
            ok = k2.has_prefix(reads, pref)
            exc = FIELD_EXCEPTIONS.get((sp, label))
            if not ok and exc:
                res.site(key, True, {"type": sp, "field": label, "verdict": "exception: " + exc})
                res.exceptions.append((key, exc))
                continue
            res.site(key, True, {"type": sp, "field": label, "verdict": "read" if ok else "VIOLATION"} if (not ok or nfields % 9 == 0) else None)
            if not ok:
                res.find(key, w.loc(), "<%s as Quil>::write never reads field `%s`: two values differing only in it serialize to the same text, so at most one of them can re-parse to itself" % (sp.replace("quil_rs::", ""), label), "parse a program whose %s has a non-default `%s`, print it, re-parse: the field is lost" % (sp.rsplit("::", 1)[-1], label))
    res.count("writer_fields_checked", nfields, floor=150)

    # ---- R2 vocabulary
    vocab = {}
    spell = {}
    for name, mod in (("Command", "parser::lexer"), ("KeywordToken", "parser::token"), ("Modifier", "parser::lexer"), ("DataType", "parser::lexer")):
        e = syn.enum(name, mod)
        if not e:
            res.missing_anchor("lexer enum %s" % name)
            continue
        sp = enum_spellings(e)
        spell[name] = sp
        for v, ss in sp.items():
            for s_ in ss:
                vocab[s_] = (name, v)
    res.count("lexer_spellings", len(vocab), floor=60)
    nwords = 0
    words_by_writer = {}
    for w in writers:
        ws = writer_words(syn, w)
        if ws is None:
            res.find("K8|no-syntax|" + w.path, w.loc(), "no syntactic function found for writer (qsyn/qfacts join failed)")
            continue
        words_by_writer[w.impl_self_path()] = ws
        for word in ws:
            if word in NON_KEYWORD_WORDS:
                continue
            nwords += 1
            key = "K8|writer-keyword|%s|%s" % (w.impl_self_path(), word)
            ok = word in vocab
            res.site(key, True, {"writer": w.impl_self_path(), "word": word, "token": "%s::%s" % vocab[word] if ok else None, "verdict": "ok" if ok else "VIOLATION"} if (not ok or nwords % 6 == 0) else None)
            if not ok:
                res.find(key, w.loc(), "writer of %s emits the word `%s`, which is not a spelling of any lexer keyword (Command/KeywordToken/Modifier/DataType): the printed text does not lex back to the intended token" % (w.impl_self_path().replace("quil_rs::", ""), word), "print any value of that type and re-parse it")
    res.count("writer_keywords_checked", nwords, floor=70)

    # ---- R3 dispatch
    pi = require_fn(db, res, "quil_rs::parser::instruction::parse_instruction")
    iw = [w for w in writers if w.impl_self_path() == INSTRUCTION]
    iadt = db.adts.get(INSTRUCTION)
    ndisp = 0
    if pi and iw and iadt and "Command" in spell:
        cmd_of_word = {s_: v for v, ss in spell["Command"].items() for s_ in ss}
        # parse_instruction: Command variant -> Instruction variants constructed in that arm
        arms = {}
        cmd_path = None
        for m in db.matches_by_owner.get(pi.path, []):
            if m["k"] != "match":
                continue
            t = db.types[m["scrut_t"]]
            while t["k"] == "ref":
                t = db.types[t["t"]]
            if t["k"] == "adt" and t["path"].endswith("parser::lexer::Command"):
                cmd_path = t["path"]
                for arm in m["arms"]:
                    vs, catch = k2.arm_variants(arm, cmd_path)
                    built = set()
                    for g in [pi] + db.closures_of(pi):
                        for bb, t2, c2 in g.calls():
                            if not in_span(t2["sp"], arm["body_sp"]):
                                continue
                            for o in t2["args"]:
                                k = o.get("k")
                                if k and "fn" in k and k["fn"]["path"].startswith(INSTRUCTION + "::"):
                                    built.add(k["fn"]["path"].rsplit("::", 1)[1])
                            if c2:
                                for h in db.by_path.get(callee_path(c2), []):
                                    built |= variants_constructed(db, h, 3)
                        for i, j, s in g.stmts():
                            if s["k"] == "assign" and in_span(s["sp"], arm["body_sp"]) and s["rv"]["k"] == "agg" and s["rv"]["a"]["k"] == "adt" and s["rv"]["a"]["path"] == INSTRUCTION:
                                built.add(s["rv"]["a"]["variant"])
                    for v in vs:
                        arms.setdefault(v, set()).update(built)
        if not arms:
            res.missing_anchor("match on Command in parse_instruction")
        # NONBLOCKING forms are dispatched by a second match; add what the whole function builds for them
        all_built = variants_constructed(db, pi, 3)
        # payload writer words per Instruction variant
        for v in iadt["variants"]:
            vn = v["n"]
            words = []
            if v["fields"]:
                pt = db.types[v["fields"][0]["t"]]
                if pt["k"] == "adt":
                    words = list(words_by_writer.get(pt["path"], []))
                    # operator-carrying instructions print the keyword through a nested writer
                    adt2 = db.adts.get(pt["path"])
                    if adt2 and adt2["kind"] == "Struct":
                        for fl in adt2["variants"][0]["fields"]:
                            ft = db.types[fl["t"]]
                            if ft["k"] == "adt" and ft["path"] in words_by_writer and ft["path"].endswith("Operator"):
                                words += words_by_writer[ft["path"]]
                            if ft["k"] == "adt" and ft["path"].endswith("Identifier") and ft["path"] in words_by_writer:
                                words += words_by_writer[ft["path"]]
                            if ft["k"] == "adt" and ft["path"].endswith("GateSignature"):
                                words += words_by_writer.get(ft["path"], [])
                    if pt["path"].endswith("GateDefinition"):
                        words += words_by_writer.get("quil_rs::instruction::gate::GateSignature", [])
            else:
                # unit variants are written by Instruction::write itself: the word whose kebab form matches
                words = [w_ for w_ in words_by_writer.get(INSTRUCTION, []) if w_.replace("-", "").lower() == vn.lower()]
            cmds = [cmd_of_word[w_] for w_ in words if w_ in cmd_of_word]
            key = "K8|dispatch|%s" % vn
            if not cmds:
                if vn == "Gate":
                    res.site(key, False)  # gates start with an identifier / modifier, no command keyword
                    continue
                res.site(key, True, {"variant": vn, "verdict": "VIOLATION: no command keyword found"})
                res.find(key, iw[0].loc(), "no lexer command keyword found in the writer of Instruction::%s" % vn)
                continue
            ndisp += 1
            ok = any(vn in arms.get(c, set()) for c in cmds)
            res.site(key, True, {"variant": vn, "keywords": sorted(set(words) & set(cmd_of_word)), "commands": sorted(set(cmds)), "parser_builds": {c: sorted(arms.get(c, set())) for c in set(cmds)}, "verdict": "ok" if ok else "VIOLATION"})
            if not ok:
                res.find(key, pi.loc(), "Instruction::%s is printed with command keyword(s) %s, but parse_instruction dispatches %s to parsers that build %s" % (vn, sorted(set(words) & set(cmd_of_word)), sorted(set(cmds)), {c: sorted(arms.get(c, set())) for c in set(cmds)}), "print an Instruction::%s and re-parse it" % vn)
    res.count("dispatch_variants_checked", ndisp, floor=35)

    # ---- R3b optional fields: a present value is written whatever it contains.  (a) no Some-discarding Option adaptor is
    #      applied in a writer; (b) every emission of an Option field's payload is control dependent only on that Option
    #      being Some (plus `?` propagation and loops)
    from qv.engine import walk_expr as _wx
    DISCARD = {"filter", "take_if", "and_then", "xor", "is_some_and", "is_none_or", "zip", "take"}
    nopt = 0
    for w in sorted(writers, key=lambda f: f.path):
        sp = w.impl_self_path()
        adt = db.adts.get(sp)
        for g in [w] + db.closures_of(w):
            for bb, t, c in g.calls():
                if c and "option::Option" in callee_path(c) and c.get("name") in DISCARD:
                    key = "K3|optional-field-dropped|%s|%s" % (sp, c.get("name"))
                    res.site(key, True, {"verdict": "VIOLATION"})
                    res.find(key, g.loc(t.get("sp")), "the writer of %s passes an optional value through Option::%s, which can discard a value that is present: what is printed no longer determines the field" % (sp.replace("quil_rs::", ""), c.get("name")), "`PRAGMA X \"\"` prints as `PRAGMA X`, which re-parses with no data")
        if not adt or adt["kind"] != "Struct":
            continue
        optf = [f_["n"] for f_ in adt["variants"][0]["fields"] if db.ty_s(f_["t"]).startswith("std::option::Option<")]
        for fld in optf:
            # emissions whose arguments mention the payload of self.<fld>
            for bb, t, c in w.calls():
                if not c or c.get("name") not in ("write_fmt", "write", "write_str", "write_join_quil"):
                    continue
                hit = False
                for a_ in t["args"]:
                    e_ = fn_expr_operand(w, a_)
                    ns = []
                    _wx(e_, ns.append)
                    if any(n[0] == "as" and n[2] == "Some" and n[1][0] == "field" and n[1][2] == fld for n in ns):
                        hit = True
                if not hit:
                    continue
                nopt += 1
                extra = []
                for sb, tgt in w.control_deps(bb, transitive=False):
                    tt = w.blocks[sb]["t"]
                    if tt["k"] != "switch":
                        continue
                    de = fn_expr_operand(w, tt["d"])
                    if de[0] == "discr":
                        inner = de[1]
                        if inner[0] == "field" and inner[2] == fld:
                            continue
                        if inner[0] == "call" and (inner[1].endswith("Try>::branch") or inner[1].endswith("::next")):
                            continue
                    extra.append(str(de[:2])[:70])
                key = "K3|optional-field-conditions|%s|%s" % (sp, fld)
                res.site(key, True, {"extra_conditions": extra, "verdict": "ok" if not extra else "VIOLATION"})
                if extra:
                    res.find(key, w.loc(t.get("sp")), "the writer of %s prints `%s` only under an additional condition on its content (%s)" % (sp.replace("quil_rs::", ""), fld, extra), "a present but `empty` value is dropped from the text, and the re-parsed program differs")
    res.count("optional_field_emissions", nopt, floor=3)
    # ---- R4 real literal
    real_literal_rule(db, res, writers)
    # K8 separator agreement (forward direction): a writer that emits a comma between elements needs a parser for the same
    #    type that accepts the COMMA token; whitespace-separated lists (`many0(..)`) must not be printed with commas
    from qv.synq import walk as _walk

    def _strs(body):
        out = []

        def v(n):
            if n.get("k") == "lit" and n.get("t") == "str":
                out.append(n["v"])
            if n.get("k") == "macro" and "template_raw" in n:
                out.append(n["template_raw"])
        _walk(body, v)
        return out

    def _mentions(body, name):
        """does the body construct a value of type `name` (struct literal, T::new / T::try_new, Instruction::T(..))?"""
        hit = []

        def v(n):
            for key in ("p", "path"):
                val = n.get(key)
                if isinstance(val, str):
                    segs = val.split("::")
                    if segs[-1] == name and (len(segs) == 1 or segs[-2] in ("Instruction", "instruction", "crate", "super")):
                        hit.append(1)
                    if len(segs) >= 2 and segs[-2] == name:  # T::new(..), T::Variant(..)
                        hit.append(1)
            if n.get("k") == "macro" and re.search(r"(?<![:\w])%s\s*(\{|::new)" % re.escape(name), n.get("raw", "")):
                hit.append(1)
        _walk(body, v)
        return bool(hit)

    def _has_comma_token(fn, depth=2, seen=None):
        seen = seen or set()
        if fn["name"] in seen:
            return False
        seen.add(fn["name"])
        raws, callees = [], []

        def v(n):
            if n.get("k") == "macro":
                raws.append(n.get("raw", ""))
            if n.get("k") == "path":
                callees.append(n["p"].rsplit("::", 1)[-1])
        _walk(fn["body"], v)
        if any(re.search(r"\bComma\b", r) for r in raws) or "Comma" in callees:
            return True
        if depth > 0:
            for c_ in set(callees):
                for g in syn.by_name.get(c_, []):
                    if "parser/" in g["file"] and _has_comma_token(g, depth - 1, seen):
                        return True
        return False

    parser_fns = [f for f in syn.fns if "parser/" in f["file"]]
    ncomma = 0
    for wf in syn.fns:
        if wf["name"] != "write" or not str(wf.get("impl_trait", "")).endswith("Quil"):
            continue
        commas = [l for l in _strs(wf["body"]) if "," in l]
        if not commas:
            continue
        ncomma += 1
        ty = wf["impl_self"].split("<")[0]
        key = "K8|comma-separator|%s" % ty
        makers = [f for f in parser_fns if _mentions(f["body"], ty)]
        if not makers:
            res.site(key, False, {"verdict": "undecided: no parser function mentions " + ty})
            res.undecided.append(key)
            continue
        ok = any(_has_comma_token(f) for f in makers)
        res.site(key, True, {"writer_literals": commas[:3], "parsers": [f["name"] for f in makers][:4], "verdict": "ok" if ok else "VIOLATION"})
        if not ok:
            res.find(key, "%s:%d" % (wf["file"], wf["ln"]), "the writer of %s separates elements with a comma (%s) but none of its parsers (%s) accepts a COMMA token: the list is whitespace-separated in the grammar" % (ty, commas[:2], [f["name"] for f in makers][:4]),
                     "a %s with two list elements prints text that does not parse" % ty)
    res.count("writers_emitting_commas", ncomma, floor=5)
    res.explanation = (
        "%d Quil::write implementations analysed. K3: %d fields must each be read by their writer (transitively through local callees). "
        "K8: %d keyword words taken from the writers' un-expanded write! templates must be lexer spellings (strum attributes of Command/KeywordToken/Modifier/DataType), "
        "and for %d Instruction variants the printed command keyword must be dispatched by parse_instruction to a parser constructing the same variant. "
        "K6: f64 literal operands must not be formatted with Display alone.  These are necessary conditions of parse(print(P)) = P; value-level formatting is not decided." % (len(writers), nfields, nwords, ndisp)
    )
    res.assumptions = ["strum derives Display/EnumString exactly from the serialize/to_string/serialize_all attributes", "derived PartialEq compares every field"]
    return res


def real_literal_rule(db, res, writers):
    """K6: an operand enum with both an f64 and an integer literal variant must not print the f64 through Display
    (`1.0` -> `1` re-lexes as an integer literal, `1e300` as 301 digits).  Shared by C02 and C04."""
    nreal = 0
    for w in writers:
        sp = w.impl_self_path()
        adt = db.adts.get(sp)
        if not adt or adt["kind"] != "Enum":
            continue
        fv = [v["n"] for v in adt["variants"] if len(v["fields"]) == 1 and db.ty_s(v["fields"][0]["t"]) == "f64"]
        iv = [v["n"] for v in adt["variants"] if len(v["fields"]) == 1 and db.ty_s(v["fields"][0]["t"]) in ("i64", "u64")]
        if not (fv and iv):
            continue
        for bb, t, c in w.calls():
            if not c:
                continue
            p = callee_path(c)
            m = re.match(r"^core::fmt::rt::Argument::<'_>::new_(\w+)$", p)
            if not m or not c.get("args"):
                continue
            ty = db.types[c["args"][0]]
            while ty["k"] == "ref":
                ty = db.types[ty["t"]]
            if ty["s"] != "f64":
                continue
            nreal += 1
            key = "K6|real-literal-format|%s" % sp
            ok = m.group(1) != "display"
            res.site(key, True, {"writer": sp, "format_trait": m.group(1), "verdict": "ok" if ok else "VIOLATION"})
            if not ok:
                res.find(key, w.loc(t["sp"]), "%s prints its f64 literal through <f64 as Display>, which writes 1.0 as `1` (re-lexed as an integer literal: a different instruction) and 1e300 as 301 digits (rejected)" % sp.replace("quil_rs::", ""), "`MOVE ro 1.0` prints `MOVE ro[0] 1`, which re-parses to a LiteralInteger operand")
    res.count("real_literal_format_sites", nreal, floor=2)
