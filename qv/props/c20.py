"""C20 Gate-sequence expansion substitutes correctly and keeps needed definitions.

Decides guards, pairing and field pass-through:
  R1 (K7) in gate_sequence_from_instruction the call to DefGateSequence::expand is dominated by the parameter-count
          check (error ParameterCount), the no-modifiers check (GateModifiersUnsupported) and the cycle check
          (ExpansionStack::check with `?`); the filter closure is consulted; in DefGateSequence::expand the work is
          dominated by the qubit-count check (QubitCount);
  R2 (K7) with_gate_sequence pairs the `insert` with a `pop` that is control-dependent on the insert's result and
          runs after the closure call on every path (acquire/release);
  R3 (K5) each produced Gate takes `name` and `modifiers` from the sequence element's same fields, `parameters`
          from substitute_variables over the element's parameters, `qubits` from the argument map lookups;
  R4 (K8) the final predicate of filter_sequence_gate_definitions_to_keep keeps non-sequence definitions
          unconditionally and a sequence definition iff `!filter(name) || reachable-from-unselected`.
Not decided: the reachability computation itself (petgraph); error precedence."""
from qv.engine import callee_path, fn_expr_operand, walk_expr, expr_calls
from qv.props.common import aggregates, require_fn
from qv.report import Result
from qv.rules import truth
from qv.synq import find_all, src

EXP = "quil_rs::program::defgate_sequence_expansion"
ERR = "DefGateSequenceExpansionError"


def dominating_error_checks(f, bb):
    """error variants constructed on the failing side of switches that dominate block bb"""
    errs = {}
    for b2, s in aggregates(f):
        if s["rv"]["a"]["path"].endswith(ERR):
            errs.setdefault(s["rv"]["a"]["variant"], []).append(b2)
    dom = f.dominators().get(bb, set())
    found = set()
    for v, blocks in errs.items():
        for eb in blocks:
            # the error block is reached from a switch that dominates bb, and does not itself dominate bb
            edoms = f.dominators().get(eb, set())
            common = [d for d in edoms & dom if f.blocks[d]["t"]["k"] == "switch"]
            if common and eb not in dom:
                found.add(v)
    return found


def error_condition(f, variant):
    """the normalised condition under which the (single) block constructing Err(variant) is entered:
    ('ne'|'eq'|'lt'.., a, b) for comparisons, ('true', e) / ('false', e) otherwise; None if not a simple guarded block"""
    ebs = [b for b, s in aggregates(f) if s["rv"]["a"]["path"].endswith(ERR) and s["rv"]["a"]["variant"] == variant]
    if len(ebs) != 1:
        return None
    eb = ebs[0]
    preds = f.preds()
    # walk up through single-predecessor chain to the deciding switch
    b = eb
    for _ in range(12):
        ps = preds.get(b, [])
        if len(ps) != 1:
            return None
        p_ = ps[0]
        t = f.blocks[p_]["t"]
        if t["k"] == "switch":
            e, neg = truth._strip_not(fn_expr_operand(f, t["d"]))
            vals = [int(v) for v, tgt in t["ts"] if tgt == b]
            if t["else"] == b and vals:
                return None
            if t["else"] == b:
                excluded = [int(v) for v, tgt in t["ts"]]
                truthy = excluded == [0]
            else:
                truthy = vals != [0]
            if neg:
                truthy = not truthy
            if e[0] == "bin" and e[1] in ("Ne", "Eq", "Lt", "Le", "Gt", "Ge"):
                op = e[1].lower()
                if not truthy:
                    op = {"ne": "eq", "eq": "ne", "lt": "ge", "ge": "lt", "gt": "le", "le": "gt"}[op]
                return (op, e[2], e[3])
            return ("true" if truthy else "false", e)
        b = p_
    return None


def is_len_of(e, field):
    """`<vector field>.len()` taken directly on the field (not on something built from it, e.g. a zipped map)"""
    if not (e[0] == "call" and e[1].endswith("::len") and e[2]):
        return False
    a = e[2][0]
    if any(n[0] == "call" and n[1] and n[1].rsplit("::", 1)[-1] in ("collect", "zip", "map", "filter", "from_iter", "chain", "take", "skip") for n in _nodes(a)):
        return False
    return any(n[0] == "field" and n[2] == field for n in _nodes(a))


def run(ctx):
    res = Result("C20")
    db = ctx.db("quil_rs")
    syn = ctx.syn()
    res.rules += ["R1 (K7) guards dominate the expansion", "R2 (K7) insert/pop pairing", "R3 (K5) field pass-through of produced gates", "R4 (K8) keep-predicate structure"]
    gsf = [f for f in db.fns if f.name == "gate_sequence_from_instruction" and f.kind == "AssocFn"]
    dge = require_fn(db, res, "quil_rs::instruction::gate_sequence::DefGateSequence::expand")
    wgs = [f for f in db.fns if f.name == "with_gate_sequence" and f.kind == "AssocFn"]
    if not (len(gsf) == 1 and dge and len(wgs) == 1):
        res.missing_anchor("gate_sequence_from_instruction / DefGateSequence::expand / with_gate_sequence")
        return res
    gsf, wgs = gsf[0], wgs[0]
    # R1
    ex = [(bb, t) for bb, t, c in gsf.calls() if c and callee_path(c) == dge.path]
    key = "K7|expansion-guards"
    detail = {}
    ok = False
    if ex:
        bb = ex[0][0]
        checks = dominating_error_checks(gsf, bb)
        stack_check = False
        for d in gsf.dominators().get(bb, set()):
            tt = gsf.blocks[d]["t"]
            if tt["k"] == "switch":
                # the result of ExpansionStack::check decides a branch (`?` or match) before the expansion
                if any(c[1].endswith("ExpansionStack::check") for c in expr_calls(fn_expr_operand(gsf, tt["d"]))) and len(set(gsf.succs(d))) > 1:
                    stack_check = True
        filt = any(cc is None or (cc and cc.get("name") in ("call", "call_once", "call_mut")) for b2, t, cc in gsf.calls() if b2 in gsf.dominators().get(bb, set()) and (cc is None or cc.get("trait", "").startswith("std::ops::Fn")))
        detail = {"dominating_error_checks": sorted(checks), "cycle_check_dominates": stack_check, "filter_consulted": filt}
        pc = error_condition(gsf, "ParameterCount")
        pc_ok = bool(pc) and pc[0] == "ne" and is_len_of(pc[1], "parameters") and is_len_of(pc[2], "parameters") and pc[1] != pc[2]
        mc = error_condition(gsf, "GateModifiersUnsupported")
        mc_ok = bool(mc) and mc[0] == "false" and mc[1][0] == "call" and mc[1][1].endswith("::is_empty") and any(n[0] == "field" and n[2] == "modifiers" for n in _nodes(mc[1]))
        detail.update({"parameter_count_condition": pc[0] if pc else None, "modifiers_condition": (mc[0] + " " + mc[1][1].rsplit("::", 1)[-1]) if mc and mc[1][0] == "call" else None})
        ok = {"ParameterCount", "GateModifiersUnsupported"} <= checks and stack_check and filt and pc_ok and mc_ok
    res.site(key, True, dict(detail, verdict="ok" if ok else "VIOLATION"))
    if not ok:
        res.find(key, gsf.loc(), "the sequence expansion in gate_sequence_from_instruction is not dominated by all of: parameter-count check, no-modifiers check, cycle check, filter (%s)" % detail, "`DEFGATE S a AS SEQUENCE: S a` then `S 0` (cycle), `S(1) 0` against a parameterless definition, or `DAGGER S 0`: expanded instead of reported")
    key = "K7|qubit-count-guard"
    qc = [b2 for b2, s in aggregates(dge) if s["rv"]["a"]["path"].endswith(ERR) and s["rv"]["a"]["variant"] == "QubitCount"]
    first_work = [bb for bb, t, c in dge.calls() if c and c.get("name") in ("zip", "map", "collect")]
    qcc = error_condition(dge, "QubitCount")
    qc_ok = bool(qcc) and qcc[0] == "ne" and {True} == {is_len_of(qcc[1], "qubits") or is_len_of(qcc[2], "qubits")} and qcc[1] != qcc[2]
    ok = bool(qc) and bool(first_work) and all(("QubitCount" in dominating_error_checks(dge, b)) for b in first_work[:1]) and qc_ok
    res.site(key, True, {"condition": qcc[0] if qcc else None, "verdict": "ok" if ok else "VIOLATION"})
    if not ok:
        res.find(key, dge.loc(), "DefGateSequence::expand pairs formal and actual qubits without first checking that their counts agree", "`DEFGATE S a b AS SEQUENCE: ...` applied as `S 0`: silently binds only `a`")
    # R2
    ins = [(bb, t) for bb, t, c in wgs.calls() if c and c.get("name") == "insert"]
    pops = [(bb, t) for bb, t, c in wgs.calls() if c and c.get("name") == "pop"]
    clos = [(bb, t) for bb, t, c in wgs.calls() if c and c.get("name") in ("call_once", "call_mut", "call")]
    key = "K7|insert-pop-pairing"
    ok = len(ins) == 1 and len(pops) == 1 and len(clos) == 1
    detail = {"insert": len(ins), "pop": len(pops), "closure_calls": len(clos)}
    if ok:
        dom = wgs.dominators()
        ib, cb, pb = ins[0][0], clos[0][0], pops[0][0]
        ordered = ib in dom.get(cb, set()) and cb in dom.get(pb, set())
        # pop is controlled by a switch on the insert's result
        controlled = False
        for d in dom.get(pb, set()):
            tt = wgs.blocks[d]["t"]
            if tt["k"] == "switch":
                e = fn_expr_operand(wgs, tt["d"])
                if e[0] == "call" and e[1].endswith("::insert"):
                    controlled = True
        # no return between the insert and the switch: every path from the closure call reaches the switch block
        detail.update({"ordered": ordered, "pop_controlled_by_insert_result": controlled})
        ok = ordered and controlled
    res.site(key, True, dict(detail, verdict="ok" if ok else "VIOLATION"))
    if not ok:
        res.find(key, wgs.loc(), "with_gate_sequence does not pair insert(name) with a pop() after the closure, conditional on the insert having added the name (%s)" % detail, "a sequence gate used twice in a row is reported as cyclic, or a real cycle is missed")
    # R3 produced gates
    prod = []
    for g in [dge] + db.closures_of(dge):
        for bb, s in aggregates(g, "quil_rs::instruction::gate::Gate"):
            prod.append((g, s))
    key = "K5|produced-gate-fields"
    if len(prod) != 1:
        res.site(key, False, {"verdict": "undecided: %d Gate constructions" % len(prod)})
        res.undecided.append(key)
    else:
        g, s = prod[0]
        ops = dict(zip(s["rv"]["a"]["fields"], s["rv"]["ops"]))
        for fld, need in (("name", ("name", None)), ("modifiers", ("modifiers", None)), ("parameters", ("parameters", "substitute_variables")), ("qubits", ("qubits", "get"))):
            e = fn_expr_operand(g, ops[fld])
            names = []
            walk_expr(e, lambda n: names.append(n[2]) if n[0] == "field" else None)
            callsn = [c[1].rsplit("::", 1)[-1] for c in expr_calls(e)]
            # closures inside (map(|parameter| ..)) carry the substitution
            inner = []
            walk_expr(e, lambda n: inner.extend(db.by_path.get(n[1], [])) if n[0] == "closure" else None)
            for h in inner:
                callsn += [c.get("name") for bb, t, c in h.calls() if c]
                for h2 in db.closures_of(h):
                    callsn += [c.get("name") for bb, t, c in h2.calls() if c]
            k_ = "K5|produced-gate|%s" % fld
            ok = need[0] in names and (need[1] is None or need[1] in callsn)
            # name / modifiers must not pass through anything but clone
            res.site(k_, True, {"field": fld, "from_fields": sorted(set(names)), "via": sorted(set(x for x in callsn if x))[:6], "verdict": "ok" if ok else "VIOLATION"})
            if not ok:
                res.find(k_, g.loc(s["sp"]), "the gates produced by DefGateSequence::expand take `%s` from %s via %s; expected the element gate's `%s`%s" % (fld, sorted(set(names)), sorted(set(x for x in callsn if x))[:6], need[0], " through %s" % need[1] if need[1] else ""), "a sequence element `RX(%t) a` is expanded without substituting %t / a, or loses its name or modifiers")
    # R3c the substitution of formal parameters is applied to every parameter expression of every element gate: the call
    #     to substitute_variables is unconditional in its closure
    key = "K7|substitution-unconditional"
    sub_fns = []
    allf2 = [dge] + db.closures_of(dge)
    for g in list(allf2):
        allf2 += db.closures_of(g)
    for g in {x.path: x for x in allf2}.values():
        for bb, t, c in g.calls():
            if c and c.get("name") == "substitute_variables":
                sub_fns.append((g, bb))
    ok = len(sub_fns) == 1 and not sub_fns[0][0].control_deps(sub_fns[0][1], transitive=False)
    res.site(key, True, {"substitution_sites": len(sub_fns), "verdict": "ok" if ok else "VIOLATION"})
    if not ok:
        res.find(key, dge.loc(), "DefGateSequence::expand substitutes the formal parameters only under an additional condition (or not at exactly one place)", "`DEFGATE S(%t) a AS SEQUENCE: RX(cos(%t)) a` then `S(1) 0` yields RX(cos(%t)) 0")
    # R3b element order and pairing: the result is self.gates mapped in order; formals are zipped with actuals in order
    key = "K10|expansion-order"
    BAD = {"rev", "skip", "take", "step_by", "filter", "skip_while", "take_while", "chain", "cycle", "reverse", "swap", "rotate_left", "rotate_right",
           "last", "nth", "pop", "remove", "swap_remove", "truncate", "retain", "sort", "sort_by", "sort_by_key", "sort_unstable", "dedup", "drain", "split_off", "filter_map", "flat_map"}
    used = set()
    allf = [dge] + db.closures_of(dge)
    for g in list(allf):
        allf += db.closures_of(g)
    for g in allf:
        used |= {c.get("name") for bb, t, c in g.calls() if c}
    ret = fn_expr_operand(dge, {"m": {"l": 0, "pr": []}})
    from_gates = any(n[0] == "call" and n[1].endswith("::map") and any(m[0] == "field" and m[2] == "gates" for m in _nodes(n[2][0])) for n in _nodes(ret))
    zips = [n for n in _nodes(ret) if n[0] == "call" and n[1].endswith("::zip")]
    zip_ok = len(zips) == 1 and any(m[0] == "field" and m[2] == "qubits" for m in _nodes(zips[0][2][0])) and not any(m[0] == "field" and m[2] == "qubits" for m in _nodes(zips[0][2][1]))
    ok = from_gates and zip_ok and not (used & BAD)
    res.site(key, True, {"result_maps_self.gates": from_gates, "formals_zipped_with_actuals": zip_ok, "reordering_adaptors": sorted(used & BAD), "verdict": "ok" if ok else "VIOLATION"})
    if not ok:
        res.find(key, dge.loc(), "DefGateSequence::expand no longer maps self.gates in order with formals zipped to actuals in order (maps gates: %s, zip(self.qubits, actuals): %s, reordering adaptors: %s)" % (from_gates, zip_ok, sorted(used & BAD)), "`DEFGATE S a b AS SEQUENCE: H a; X b` applied as `S 0 1` yields gates out of order or on the wrong qubits")
    # R4 keep predicate: decision table of the final filter closure over (specification variant, filter(name), contains)
    key = "K8|keep-predicate"
    fk = require_fn(db, res, "quil_rs::program::filter_sequence_gate_definitions_to_keep")
    spec = db.adts["quil_rs::instruction::gate::GateSpecification"]
    seq_i = [v["i"] for v in spec["variants"] if v["n"] == "Sequence"]
    cands = [g for g in db.closures_of(fk) if any(c and c.get("name") == "contains" for bb, t, c in g.calls())] if fk else []
    verdict = None
    detail = {}
    if len(cands) != 1 or len(seq_i) != 1:
        res.missing_anchor("the final filter closure of filter_sequence_gate_definitions_to_keep (the one consulting the referenced set)")
        return res
    g = cands[0]

    def atom_of(e):
        if e[0] == "discr":
            names = []
            walk_expr(e, lambda n: names.append(n[2]) if n[0] == "field" else None)
            return "spec" if "specification" in names else None
        if e[0] in ("call", "callv"):
            p_ = e[1] if e[0] == "call" else ""
            if e[0] == "callv" or p_.startswith("std::ops::Fn"):
                return "filter"
            if p_.endswith("::contains"):
                return "contains"
        return None

    def value(e, asg):
        e, neg = truth._strip_not(e)
        if e[0] == "const":
            v = 1 if e[1] in ("true", 1) else 0 if e[1] in ("false", 0) else None
        else:
            a = atom_of(e)
            v = asg.get(a) if a else None
        if v is None:
            raise truth.Undecidable("result %r" % (e[:2],))
        return 1 - v if neg else v

    try:
        paths = truth.decision_paths(g, atom_of)
        bad = []
        rows = 0
        for sv in [v["i"] for v in spec["variants"]]:
            for fv in (0, 1):
                for cv in (0, 1):
                    asg = {"spec": sv, "filter": fv, "contains": cv}
                    got = value(truth.evaluate(paths, asg), asg)
                    want = 1 if (sv != seq_i[0] or fv == 0 or cv == 1) else 0
                    rows += 1
                    if got != want:
                        bad.append({"specification": [v["n"] for v in spec["variants"] if v["i"] == sv][0], "filter(name)": bool(fv), "referenced": bool(cv), "kept": bool(got), "expected": bool(want)})
        detail = {"paths": len(paths), "rows": rows, "mismatches": bad[:4]}
        verdict = "ok" if not bad else "VIOLATION"
    except truth.Undecidable as ex:
        verdict = "undecided: %s" % ex
    res.site(key, verdict != "VIOLATION" and not verdict.startswith("undecided") or True, dict(detail, verdict=verdict))
    if verdict == "VIOLATION":
        res.find(key, g.loc(), "filter_sequence_gate_definitions_to_keep no longer keeps exactly (non-sequence definitions; sequence definitions that are unselected or referenced by an unselected sequence): %s" % bad[:2], "an unselected sequence definition is dropped, or a selected unreferenced one is kept")
    elif verdict != "ok":
        res.undecided.append(key + " " + verdict)
    # the referenced set is filled only for unselected sources: the outer loop iterates a filter whose predicate is !filter(name)
    key = "K8|referenced-set-sources"
    src_cl = [h for h in db.closures_of(fk) if h is not g and any((c is None or (c and c.get("trait", "").startswith("std::ops::Fn"))) and t.get("f") is not None for bb, t, c in h.calls()) and not any(c and c.get("name") in ("add_node", "add_edge", "get", "contains") for bb, t, c in h.calls())]
    ok = False
    detail = {"candidates": [h.path.rsplit("::", 1)[-1] for h in src_cl]}
    for h in src_cl:
        try:
            ps = truth.decision_paths(h, lambda e: "filter" if e[0] in ("call", "callv") else None)
            vals = set()
            for fv in (0, 1):
                r = truth.evaluate(ps, {"filter": fv})
                r, neg = truth._strip_not(r)
                if r[0] == "const":
                    v = 1 if r[1] in ("true", 1) else 0
                elif r[0] in ("call", "callv"):
                    v = fv
                else:
                    raise truth.Undecidable("result")
                vals.add((fv, 1 - v if neg else v))
            if vals == {(0, 1), (1, 0)}:
                ok = True
        except truth.Undecidable:
            pass
    res.site(key, True, dict(detail, verdict="ok" if ok else "VIOLATION"))
    if not ok:
        res.find(key, fk.loc(), "the set of referenced sequence definitions is no longer computed from exactly the unselected (`!filter(name)`) sequence definitions", "a definition referenced only by a selected (and therefore expanded) sequence is kept, or one referenced by an unselected sequence is dropped")
    # R4c the referenced set is filled from a transitive reachability query between (unselected source i, candidate j)
    key = "K8|referenced-set-transitive"
    REACH = ("petgraph::algo::has_path_connecting", "petgraph::visit::Dfs", "petgraph::visit::Bfs", "petgraph::visit::DfsPostOrder", "petgraph::algo::dijkstra", "petgraph::algo::tarjan_scc", "petgraph::algo::kosaraju_scc", "petgraph::algo::toposort")
    ins_ = [(bb, t) for bb, t, c in fk.calls() if c and c.get("name") == "insert" and "HashSet" in callee_path(c)]
    ok = False
    detail = {"insert_sites": len(ins_)}
    if len(ins_) == 1:
        conds = []
        for sb, tgt in fk.control_deps(ins_[0][0], transitive=False):
            tt = fk.blocks[sb]["t"]
            if tt["k"] == "switch":
                conds.append(fn_expr_operand(fk, tt["d"]))
        names = sorted({c[1] for e in conds for c in expr_calls(e)})
        detail["inserted_when"] = [n.rsplit("::", 2)[-2] + "::" + n.rsplit("::", 1)[-1] if n.count("::") > 1 else n for n in names]
        ok = any(any(n.startswith(r) for r in REACH) for n in names) and not any(n.endswith("contains_edge") or n.endswith("find_edge") for n in names)
    res.site(key, True, dict(detail, verdict="ok" if ok else "VIOLATION"))
    if not ok:
        res.find(key, fk.loc(), "a sequence definition is recorded as referenced under a condition that is not a transitive reachability query (%s): definitions reachable only through an intermediate sequence are dropped" % detail.get("inserted_when"),
                 "outer -> middle -> inner with only `outer` unselected: `inner` is dropped although the kept `middle` still invokes it")
    # R1b errors are raised only for selected invocations: every Err construction in gate_sequence_from_instruction is
    #     control dependent on the filter call having returned true
    key = "K7|errors-only-when-selected"
    bad = []
    nerr = 0
    for b2, s in aggregates(gsf):
        if s["rv"]["a"]["path"].endswith(ERR):
            nerr += 1
            sel = False
            for sb, tgt in gsf.control_deps(b2):
                tt = gsf.blocks[sb]["t"]
                if tt["k"] == "switch":
                    e = fn_expr_operand(gsf, tt["d"])
                    if e[0] in ("call", "callv") and (e[0] == "callv" or e[1].startswith("std::ops::Fn")):
                        taken = [int(v) for v, x in tt["ts"] if x == tgt]
                        sel = (taken != [0]) if taken else True
            if not sel:
                bad.append(s["rv"]["a"]["variant"])
    # the `?` on ExpansionStack::check likewise
    for b2, t2, c2 in gsf.calls():
        if c2 and callee_path(c2).endswith("ExpansionStack::check"):
            nerr += 1
            sel = False
            for sb, tgt in gsf.control_deps(b2):
                tt = gsf.blocks[sb]["t"]
                if tt["k"] == "switch":
                    e = fn_expr_operand(gsf, tt["d"])
                    if e[0] in ("call", "callv") and (e[0] == "callv" or e[1].startswith("std::ops::Fn")):
                        taken = [int(v) for v, x in tt["ts"] if x == tgt]
                        sel = (taken != [0]) if taken else True
            if not sel:
                bad.append("CyclicSequenceGateDefinition")
    ok = nerr >= 3 and not bad
    res.site(key, True, {"error_sites": nerr, "raised_without_selection": bad, "verdict": "ok" if ok else "VIOLATION"})
    if not ok:
        res.find(key, gsf.loc(), "gate_sequence_from_instruction reports %s for invocations the filter did not select; unselected invocations must be left unchanged" % (bad or "errors"), "`DAGGER native 0` with the sequence `native` not selected: the whole expansion fails instead of leaving the instruction alone")
    # R5 ExpansionStack::check: Err(CyclicSequenceGateDefinition) exactly when the stack contains the name
    key = "K7|cycle-check-decision"
    chk = [f for f in db.fns if f.path.endswith("ExpansionStack::check")]
    verdict = "undecided"
    if len(chk) == 1:
        try:
            ps = truth.decision_paths(chk[0], lambda e: "contains" if e[0] == "call" and e[1].endswith("::contains") and any(n[0] == "field" and n[2] == "0" for n in _nodes(e)) else None)
            outs = {}
            for cv in (0, 1):
                r = truth.evaluate(ps, {"contains": cv})
                outs[cv] = (r[2], (r[3].get("0") or ("x",))[2] if r[0] == "agg" and r[2] == "Err" and (r[3].get("0") or ("x",))[0] == "agg" else None) if r and r[0] == "agg" else None
            verdict = "ok" if outs.get(0) == ("Ok", None) and outs.get(1) == ("Err", "CyclicSequenceGateDefinition") else "VIOLATION"
        except truth.Undecidable as ex:
            verdict = "undecided: %s" % ex
    res.site(key, True, {"verdict": verdict})
    if verdict == "VIOLATION":
        res.find(key, chk[0].loc(), "ExpansionStack::check does not return Err(CyclicSequenceGateDefinition) exactly when the name is on the stack (%s)" % outs, "`DEFGATE S a AS SEQUENCE: S a` applied: unbounded recursion instead of an error")
    elif verdict != "ok":
        res.undecided.append(key + " " + verdict)
    # R6 the name pushed is the checked definition's name, and the nested expansion runs inside the guarded closure
    for impl in ("expand_with_source_map_impl", "expand_without_source_map_impl"):
        key = "K7|push-around-recursion|" + impl
        fi = [f for f in db.fns if f.name == impl and f.kind == "AssocFn"]
        if len(fi) != 1:
            res.missing_anchor(impl)
            continue
        fi = fi[0]
        w = [(bb, t) for bb, t, c in fi.calls() if c and callee_path(c) == wgs.path]
        direct = [bb for bb, t, c in fi.calls() if c and callee_path(c) == fi.path]
        nested = [h for h in db.closures_of(fi) if any(c and callee_path(c) == fi.path for bb, t, c in h.calls())]
        ok = len(w) == 1 and not direct and len(nested) == 1
        detail = {"with_gate_sequence_calls": len(w), "recursion_outside_closure": len(direct), "closures_recursing": len(nested)}
        if ok:
            bb, t = w[0]
            name_e = fn_expr_operand(fi, t["args"][1])
            clo_e = fn_expr_operand(fi, t["args"][2])
            from_sig = any(c[1] == gsf.path for c in expr_calls(name_e)) and any(c[1].endswith("GateSignature::<'a>::name") or c[1].endswith("::name") for c in expr_calls(name_e))
            is_nested = clo_e[0] == "closure" and clo_e[1] == nested[0].path
            # the recursive call passes the closure's own stack parameter, not a fresh stack
            h = nested[0]
            rc = [(b2, t2) for b2, t2, c in h.calls() if c and callee_path(c) == fi.path][0]
            stack_arg = fn_expr_operand(h, rc[1]["args"][-1])
            same_stack = stack_arg[0] == "param"
            detail.update({"name_from_checked_signature": from_sig, "closure_is_recursion": is_nested, "same_stack": same_stack})
            ok = from_sig and is_nested and same_stack
        res.site(key, True, dict(detail, verdict="ok" if ok else "VIOLATION"))
        if not ok:
            res.find(key, fi.loc(), "%s: the nested expansion is not run inside with_gate_sequence(name of the checked definition, ..) on the same stack (%s)" % (impl, detail), "mutually recursive sequence definitions recurse without bound instead of reporting CyclicSequenceGateDefinition")
    res.explanation = "Guard dominance (MIR dominators over error-constructing branches), acquire/release pairing in with_gate_sequence, provenance of the produced Gate's fields, and the structure of the keep predicate."
    res.assumptions = ["petgraph has_path_connecting computes reachability"]
    return res


def src_full(e):
    """fuller rendering than synq.src for predicate bodies"""
    if e is None:
        return ""
    k = e.get("k")
    if k == "block":
        return "{" + ";".join(src_full(s.get("e") or s.get("init")) for s in e["stmts"]) + "}"
    if k == "if":
        return "if %s %s else %s" % (src_full(e["c"]), src_full(e["t"]), src_full(e["f"]))
    if k == "let":
        return "let %s = %s" % (src(e["pat"]), src_full(e["e"]))
    if k == "bin":
        return "%s %s %s" % (src_full(e["l"]), e["op"], src_full(e["r"]))
    if k == "un":
        return e["op"] + src_full(e["e"])
    if k == "paren":
        return "(" + src_full(e["e"]) + ")"
    if k == "mcall":
        return "%s.%s(%s)" % (src_full(e["recv"]), e["m"], ",".join(src_full(a) for a in e["args"]))
    if k == "call":
        return "%s(%s)" % (src_full(e["f"]), ",".join(src_full(a) for a in e["args"]))
    return src(e)


def _nodes(e):
    out = []
    walk_expr(e, out.append)
    return out
