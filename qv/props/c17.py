"""C17 Calibration expansion is a complete, faithful substitution.

Decides:
  R1 (K2) in the gate arm of Calibrations::expand_inner the qubit-substitution match names, in an explicit arm
          that binds the Qubit-holding fields, every body-capable Instruction variant whose payload holds a Qubit;
          Instruction::apply_to_expressions does the same for Expression (parameter substitution);
  R2 (K5) in the measurement arm the produced instructions depend on measurement.qubit and measurement.target;
  R3 (K4, contradiction) both target rewrites of the measurement arm (PRAGMA LOAD-MEMORY data, CAPTURE destination)
          are guarded by a comparison with the calibration's declared target name;
  R4 (K4) in recursively_expand_inner the instruction output (extend/push of new_instructions) is the same with
          and without a source map;
  R5 (K7) every instruction of an expansion is passed to expand_inner again, unmatched ones are pushed.
Not decided: that the substituted values are the right ones beyond dependence."""
from qv.engine import callee_path, fn_expr_operand, walk_expr
from qv.props import c09
from qv.props.common import in_span, require_fn
from qv.report import Result
from qv.rules import k2_coverage as k2

INSTRUCTION = "quil_rs::instruction::Instruction"
QUBIT = "quil_rs::instruction::qubit::Qubit"
EXPRESSION = "quil_rs::expression::Expression"
CAL = "quil_rs::program::calibration::Calibrations"
MEAS = "quil_rs::instruction::measurement::Measurement"


def body_capable(db):
    add_i = db.fn("quil_rs::program::Program::add_instruction")
    am = [x for x in db.matches_by_owner.get(add_i.path, []) if x["k"] == "match" and db.types[x["scrut_t"]].get("path") == INSTRUCTION]
    muts = c09.fields_mutated(db, add_i)
    nonbody = set()
    for arm in am[0]["arms"]:
        vs, catch = k2.arm_variants(arm, INSTRUCTION)
        stores = {x for x, sps in muts.items() for sp in sps if in_span(sp, arm["body_sp"])} - {"used_qubits"}
        if stores and stores != {"instructions"} and not arm["guard"]:
            nonbody |= vs
    return {v["n"] for v in db.adts[INSTRUCTION]["variants"]} - nonbody


def field_reads(f, span, adt, param_ok=None):
    """field names of `adt` read (by any place) within span in f"""
    out = set()
    for sp, p in k2.places_in(f):
        if not in_span(sp, span):
            continue
        for pr in p["pr"]:
            if isinstance(pr, dict) and pr.get("o") == adt and "n" in pr:
                out.add(pr["n"])
    return out


def run(ctx):
    res = Result("C17")
    db = ctx.db("quil_rs")
    res.rules += ["R1 (K2) substitution coverage of Qubit / Expression holding variants", "R2 (K5) measurement arm reads measurement.qubit and .target", "R3 (K4) sibling target rewrites are both guarded", "R4 (K4) source-map flag independence of the instruction output", "R5 (K7) fixpoint: every expanded instruction re-enters expand_inner"]
    ei = require_fn(db, res, CAL + "::expand_inner")
    rei = require_fn(db, res, CAL + "::recursively_expand_inner")
    ate = require_fn(db, res, INSTRUCTION + "::apply_to_expressions")
    if not (ei and rei and ate):
        return res
    bc = body_capable(db)
    res.analysed["body_capable_variants"] = sorted(bc)

    # ---- R1 qubits
    ms = k2.match_on(db, ei, INSTRUCTION)
    outer = [m for m in ms if {"Gate", "Measurement"} <= set().union(*[k2.arm_variants(a, INSTRUCTION)[0] for a in m["arms"]]) and len(m["arms"]) <= 4]
    if not outer:
        res.missing_anchor("outer match (Gate / Measurement) in expand_inner")
        return res
    outer = outer[0]
    gate_arm = next(a for a in outer["arms"] if "Gate" in k2.arm_variants(a, INSTRUCTION)[0])
    meas_arm = next(a for a in outer["arms"] if "Measurement" in k2.arm_variants(a, INSTRUCTION)[0])
    subst = [m for m in ms if m is not outer and in_span(m["sp"], gate_arm["body_sp"])]
    if len(subst) != 1:
        res.missing_anchor("qubit-substitution match in the gate arm of expand_inner")
    else:
        cov = k2.pattern_coverage(db, subst[0], INSTRUCTION, k2.is_adt(QUBIT))
        for v in sorted(cov):
            if v not in bc:
                continue
            c = cov[v]
            key = "K2|qubit-substitution|%s" % v
            ok = c["arm"] == "explicit" and not c["missing"]
            res.site(key, True, {"variant": v, "arm": c["arm"], "missing": [".".join(p[1:]) for p in c["missing"]], "verdict": "ok" if ok else "VIOLATION"})
            if not ok:
                res.find(key, ei.loc(subst[0]["sp"]), "the calibration body's qubit variables are not substituted in Instruction::%s (field %s): it is %s by the substitution match of expand_inner" % (v, [".".join(p[1:]) for p in c["missing"]], "swallowed by the catch-all arm" if c["arm"] == "catch-all" else "not bound"), "`DEFCAL X q:` with a body instruction of kind %s mentioning q, then `X 0`: the expansion still mentions the formal `q`" % v)
    am = k2.match_on(db, ate, INSTRUCTION)
    if not am:
        res.missing_anchor("match in apply_to_expressions")
    else:
        cov = k2.pattern_coverage(db, am[0], INSTRUCTION, k2.is_adt(EXPRESSION))
        for v in sorted(cov):
            if v not in bc:
                continue
            c = cov[v]
            key = "K2|expression-substitution|%s" % v
            ok = c["arm"] == "explicit" and not c["missing"]
            res.site(key, True, {"variant": v, "arm": c["arm"], "missing": [".".join(p[1:]) for p in c["missing"]], "verdict": "ok" if ok else "VIOLATION"})
            if not ok:
                res.find(key, ate.loc(), "apply_to_expressions does not visit the Expression(s) %s of Instruction::%s: calibration parameters are not substituted there" % ([".".join(p[1:]) for p in c["missing"]], v), "`DEFCAL RX(%%t) 0:` with a body %s using %%t, then `RX(1) 0`" % v)
    # the gate arm must call apply_to_expressions and substitute_variables
    calls_in_gate = {callee_path(c) for g in [ei] + db.closures_of(ei) for bb, t, c in g.calls() if c and (in_span(t["sp"], gate_arm["body_sp"]) or g is not ei)}
    for need in (INSTRUCTION + "::apply_to_expressions", EXPRESSION + "::substitute_variables"):
        key = "K7|gate-arm-calls|%s" % need.rsplit("::", 1)[-1]
        ok = need in calls_in_gate
        res.site(key, True, {"callee": need, "verdict": "ok" if ok else "VIOLATION"})
        if not ok:
            res.find(key, ei.loc(gate_arm["sp"]), "the gate arm of expand_inner no longer calls %s: calibration parameters are not substituted" % need, "`DEFCAL RX(%t) 0: RZ(%t) 0` then `RX(1) 0` expands to RZ(%t) 0")

    # the substitution is applied to every expression handed out by apply_to_expressions: in the closure that calls
    # substitute_variables the call (and the store of its result) is unconditional
    key = "K7|substitution-unconditional"
    subs_fns = [g for g in db.closures_of(ei) if any(c and callee_path(c) == EXPRESSION + "::substitute_variables" for bb, t, c in g.calls())]
    ok = False
    detail = {"closures": len(subs_fns)}
    for g in subs_fns:
        for bb, t, c in g.calls():
            if c and callee_path(c) == EXPRESSION + "::substitute_variables":
                cds = g.control_deps(bb, transitive=False)
                detail["conditions"] = len(cds)
                # the result is stored through the closure's &mut Expression parameter on every path
                ok = not cds and all(bb in g.dominators().get(rb, set()) for rb in g.return_blocks())
    res.site(key, True, dict(detail, verdict="ok" if ok else "VIOLATION"))
    if not ok:
        res.find(key, ei.loc(gate_arm["sp"]), "calibration parameters are substituted into a body expression only under an additional condition (%s)" % detail, "`DEFCAL RX(%t) 0: RZ(cos(%t)) 0` then `RX(1) 0`: the parameter inside the function call is not substituted")

    # ---- R1c positional pairing: a zip of calibration-side and gate-side sequences must pair *unfiltered* sequences
    # (filtering one side before the zip shifts the pairing); filtering after the zip is fine
    SHIFTING = {"filter", "filter_map", "skip", "skip_while", "step_by", "rev", "flat_map", "flatten", "take_while", "dedup", "chain"}
    nzip = 0
    for g in [ei] + db.closures_of(ei):
        for bb, t, c in g.calls():
            if not (c and c.get("name") == "zip" and c.get("trait") == "std::iter::Iterator"):
                continue
            nzip += 1
            bad = []
            for a in t["args"]:
                from qv.engine import expr_calls

                for cc in expr_calls(fn_expr_operand(g, a)):
                    nm = cc[1].rsplit("::", 1)[-1]
                    if nm in SHIFTING:
                        bad.append(nm)
            key = "K10|positional-pairing|%s#%d" % (g.path, nzip - 1)
            res.site(key, True, {"fn": g.path, "loc": g.loc(t["sp"]), "shifting_adaptors_before_zip": bad, "verdict": "ok" if not bad else "VIOLATION"})
            if bad:
                res.find(key, g.loc(t["sp"]), "the calibration's formals are paired with the gate's actuals by a zip whose operand was first passed through %s: the n-th *remaining* formal is bound to the n-th actual instead of the actual at its own position" % sorted(set(bad)), "`DEFCAL CZ 0 q:\n\tFENCE 0 q` then `CZ 0 1` expands to `FENCE 0 0`")
    res.count("formal_actual_zips", nzip, floor=1)

    # ---- R2 measurement arm dependence
    reads = field_reads(ei, meas_arm["body_sp"], MEAS)
    for fld in ("qubit", "target"):
        key = "K5|measurement-arm-reads|%s" % fld
        # get_match_for_measurement(measurement) reads the measurement too, but the *produced instructions*
        # can only depend on a field that is read in the arm after the lookup
        ok = fld in reads
        res.site(key, True, {"field": fld, "reads_in_arm": sorted(reads), "verdict": "ok" if ok else "VIOLATION"})
        if not ok:
            res.find(key, ei.loc(meas_arm["sp"]), "the measurement arm of expand_inner never reads measurement.%s: the instructions it produces cannot depend on it, so the calibration's %s variable is not replaced" % (fld, fld), "`DEFCAL MEASURE q addr:\\n\\tCAPTURE q \"ro\" flat(duration: 1.0, iq: 1.0) addr` then `MEASURE 0 ro`: the expansion still mentions `q`")

    # ---- R3 guarded rewrites
    rew = [m for m in ms if m is not outer and in_span(m["sp"], meas_arm["body_sp"])]
    if len(rew) != 1:
        res.missing_anchor("rewrite match in the measurement arm of expand_inner")
    else:
        arms = [a for a in rew[0]["arms"] if k2.arm_variants(a, INSTRUCTION)[0]]
        guarded = {}
        for a in arms:
            v = sorted(k2.arm_variants(a, INSTRUCTION)[0])[0]
            # a guard counts if the arm has a match guard or its body compares against the calibration identifier's target
            cmp_in_body = False
            for bb, t, c in ei.calls():
                if c and in_span(t["sp"], a["sp"]) and (c.get("name") in ("eq", "ne")):
                    for arg in t["args"]:
                        e = fn_expr_operand(ei, arg)
                        names = []
                        walk_expr(e, lambda n: names.append(n[2]) if n[0] == "field" else None)
                        if "target" in names and "identifier" in names:
                            cmp_in_body = True
            guarded[v] = bool(a["guard"]) and cmp_in_body or cmp_in_body
        key = "K4|measurement-rewrites-guarded"
        res.site(key, True, {"rewrites": guarded, "verdict": "ok" if all(guarded.values()) else "VIOLATION"})
        if guarded and not all(guarded.values()) and any(guarded.values()):
            bad = [v for v, g in guarded.items() if not g]
            res.find(key, ei.loc(rew[0]["sp"]), "contradiction between sibling rewrites: the %s rewrite is applied unconditionally while the %s rewrite is applied only when the operand equals the calibration's declared target name" % (bad, [v for v, g in guarded.items() if g]), "`DEFCAL MEASURE 0 addr:\\n\\tCAPTURE 0 \"ro\" flat(duration: 1.0, iq: 1.0) other[0]` then `MEASURE 0 ro`: the capture destination `other[0]` (not the formal `addr`) is rewritten to ro[0]")
        elif guarded and not any(guarded.values()):
            res.find(key, ei.loc(rew[0]["sp"]), "no target rewrite of the measurement arm is guarded by the calibration's declared target name")

    # ---- R4 flag independence in recursively_expand_inner + R5
    def raw_fields(fn, op, depth=3):
        """field names along the place(s) a (reference) operand was borrowed from, without projecting
        through aggregate constructions"""
        names = []
        p = op.get("m") or op.get("c")
        while p is not None and depth > 0:
            names += [pr["n"] for pr in p["pr"] if isinstance(pr, dict) and "n" in pr]
            ds = fn.defs().get(p["l"], [])
            nxt = None
            if len(ds) == 1 and ds[0][0] == "s" and ds[0][3]["k"] == "assign" and not ds[0][3]["p"]["pr"]:
                rv = ds[0][3]["rv"]
                if rv["k"] in ("ref", "copyderef"):
                    nxt = rv["p"]
                elif rv["k"] == "use":
                    nxt = rv["o"].get("m") or rv["o"].get("c")
            p = nxt
            depth -= 1
        return names

    def out_effects(fn, span=None):
        eff = []
        for bb, t, c in fn.calls():
            if not c:
                continue
            nm = c.get("name")
            if nm in ("extend", "push", "append", "insert") and t["args"]:
                if "new_instructions" in raw_fields(fn, t["args"][0]):
                    eff.append((nm, t["sp"], bb))
        return eff

    effs = out_effects(rei)
    # the flag switch blocks
    flag_switches = []
    for i, b in enumerate(rei.blocks):
        t = b["t"]
        if t["k"] == "switch":
            e = fn_expr_operand(rei, t["d"])
            if e[0] == "param" and e[2] == "build_source_map":
                flag_switches.append(i)
    res.count("source_map_flag_tests", len(flag_switches), floor=2)
    # for each flag test, the multiset of output effects reachable on the true side before the join must equal the false side
    nflag = 0
    for sw in flag_switches:
        t = rei.blocks[sw]["t"]
        sides = {}
        targets = {v: b for v, b in t["ts"]}
        f_side = targets.get("0")
        t_side = t["else"] if "1" not in targets else targets["1"]
        if f_side is None:
            continue
        # join = first block reachable from both sides
        rt = rei.reachable_blocks(t_side)
        rf = rei.reachable_blocks(f_side)
        only_t = rt - rf
        only_f = rf - rt
        et = sorted(nm for nm, sp, bb in effs if bb in only_t or bb == t_side and t_side not in rf)
        ef = sorted(nm for nm, sp, bb in effs if bb in only_f or bb == f_side and f_side not in rt)
        nflag += 1
        key = "K4|flag-independence|recursively_expand_inner#%d" % (nflag - 1)
        ok = et == ef
        res.site(key, True, {"with_source_map": et, "without": ef, "verdict": "ok" if ok else "VIOLATION"})
        if not ok:
            res.find(key, rei.loc(t["sp"]), "the instructions appended to the expansion differ with (%s) and without (%s) a source map" % (et, ef), "expand_calibrations and expand_calibrations_with_source_map return different programs")
    # R5: recursive call on every instruction + push of unmatched
    rec = [1 for bb, t, c in rei.calls() if c and callee_path(c) == ei.path]
    pushes = [1 for nm, sp, bb in effs if nm == "push"]
    key = "K7|fixpoint"
    ok = len(rec) >= 1 and len(pushes) >= 1
    res.site(key, True, {"recursive_calls": len(rec), "push_unmatched": len(pushes), "verdict": "ok" if ok else "VIOLATION"})
    if not ok:
        res.find(key, rei.loc(), "recursively_expand_inner does not re-expand every instruction of an expansion and push unmatched ones", "a calibration whose body contains another calibrated gate is expanded only one level")
    # ---- the two public entry points return what expand_calibrations_inner built, on every path
    for name in ("expand_calibrations", "expand_calibrations_with_source_map"):
        p_ = [f for f in db.fns if f.path == "quil_rs::program::Program::" + name]
        key = "K4|entry-returns-inner-result|" + name
        if len(p_) != 1:
            res.missing_anchor("Program::" + name)
            continue
        p_ = p_[0]
        from qv.engine import fn_expr_operand as _op, walk_expr as _wx
        from qv.props.common import aggregates as _aggs
        inner_calls = [(bb, t) for bb, t, c in p_.calls() if c and c.get("name") == "expand_calibrations_inner"]
        bad = []
        oks = [s_ for bb, s_ in _aggs(p_) if s_["rv"]["a"]["path"] == "std::result::Result" and s_["rv"]["a"]["variant"] == "Ok"]
        for s_ in oks:
            e = _op(p_, s_["rv"]["ops"][0])
            prog = e[1][0] if e[0] == "tuple" else e
            ns = []
            _wx(prog, ns.append)
            if not any(n[0] == "call" and n[1].endswith("::expand_calibrations_inner") for n in ns):
                bad.append(str(prog[:2])[:80])
        direct = any(t["dest"]["l"] == 0 and not t["dest"]["pr"] for bb, t in inner_calls)
        ok = len(inner_calls) == 1 and not bad and (bool(oks) or direct)
        res.site(key, True, {"inner_calls": len(inner_calls), "other_success_returns": bad, "verdict": "ok" if ok else "VIOLATION"})
        if not ok:
            res.find(key, p_.loc(), "Program::%s has a success return that is not the result of expand_calibrations_inner (%s): the two entry points can return different programs" % (name, bad or "no call"), "a program whose only calibrations are DEFCAL MEASURE: one entry point expands MEASURE, the other returns the program unchanged")
    # hoisting: the expansion output reaches the program only through add_instruction (which files DECLARE & co. into
    # their stores), with and without a source map
    c09.body_writer_rule(db, res, "K6")
    res.explanation = "Type-directed coverage of the qubit and parameter substitution over the %d body-capable Instruction variants (HIR pattern bindings against ADT field types), dependence of the measurement arm on the measurement's fields, a contradiction check between the two sibling target rewrites, and agreement of the instruction-output effects on both sides of every build_source_map test." % len(bc)
    res.assumptions = ["a calibration body contains only body-capable instruction kinds"]
    return res
