"""C09 All instruction views of a program agree.

Decides (necessary conditions):
  R1 (K4) `to_instructions` and `into_instructions` append the same Program stores in the
          same order (same for every local type that has both methods);
  R2 (K3) the stores `add_instruction` can mutate (minus the used-qubit cache) are exactly the
          stores both listings read, and `Program::len` sums the same stores;
  R3 (K2) `add_instruction` routes each matched Instruction variant to one store, and the
          listing section of that store re-creates the same variant(s).
Does not decide "keeps only the last value" beyond container semantics (see C08)."""
from qv.engine import callee_of, callee_path, fn_expr_operand, walk_expr
from qv.props.common import in_span, require_fn
from qv.report import Result

PROGRAM = "quil_rs::program::Program"
INSTRUCTION = "quil_rs::instruction::Instruction"
CACHE_FIELDS = {"used_qubits"}


def self_fields(e, owner=None):
    """names of fields of `self` (param 1) mentioned in an origin expression"""
    out = []

    def v(n):
        if n[0] == "field" and n[1][0] == "param" and n[1][1] == 1:
            if owner is None or n[3] == owner or True:
                out.append(n[2])

    walk_expr(e, v)
    return out


def block_order(fn):
    order = {}
    seen = set()
    stack = [0]
    n = 0
    while stack:
        b = stack.pop()
        if b in seen:
            continue
        seen.add(b)
        order[b] = n
        n += 1
        for s in reversed(fn.succs(b)):
            stack.append(s)
    return order


def sections(fn):
    """ordered list of self-fields whose content is appended to the returned vector"""
    out = []
    order = block_order(fn)
    calls = []
    for bb, t, c in fn.calls():
        p = callee_path(c) or ""
        name = (c or {}).get("name")
        if bb in order and ((c and c.get("trait") == "std::iter::Extend" and name == "extend") or p.endswith("Vec::<T, A>::push") or p.endswith("Vec::<T, A>::append") or p.endswith("::extend_from_slice")):
            calls.append((order[bb], bb, t))
    calls.sort()
    for _, bb, t in calls:
        if len(t["args"]) < 2:
            continue
        e = fn_expr_operand(fn, t["args"][1])
        fs = []
        for x in self_fields(e):
            if x not in fs:
                fs.append(x)
        out.append((tuple(fs), t["sp"]))
    return out


def ret_fields(db, fn, depth=3):
    """ordered list of self fields feeding fn's return value (evaluation order of the
    return expression; local helper methods called on self are followed)"""
    from qv.engine import fn_expr_local

    out = []

    def visit(f, e, d):
        def v(n):
            if n[0] == "field" and n[1][0] == "param" and n[1][1] == 1:
                if n[2] not in out:
                    out.append(n[2])
                return False
            if n[0] == "call" and d > 0 and n[2]:
                hs = db.by_path.get(n[1], [])
                a0 = n[2][0]
                if len(hs) == 1 and a0[0] == "param" and a0[1] == 1 and f is fn or (len(hs) == 1 and a0[0] == "param" and a0[1] == 1):
                    visit(hs[0], fn_expr_local(hs[0], 0), d - 1)
                    for a in n[2][1:]:
                        walk_expr(a, v)
                    return False
            return None

        walk_expr(e, v)

    visit(fn, fn_expr_local(fn, 0), depth)
    return out


REORDER_OR_DROP = {
    "rev", "partition", "partition_in_place", "sort", "sort_by", "sort_by_key", "sort_unstable", "sort_unstable_by", "sort_unstable_by_key",
    "sorted", "sorted_by", "sorted_by_key", "sorted_unstable", "reverse", "rotate_left", "rotate_right", "swap", "swap_remove", "unzip",
    "skip", "take", "skip_while", "take_while", "step_by", "filter", "filter_map", "dedup", "dedup_by", "dedup_by_key", "unique", "unique_by",
    "max", "min", "max_by", "min_by", "max_by_key", "min_by_key", "last", "nth", "find", "group_by", "chunk_by", "interleave", "merge", "kmerge",
    "retain", "truncate", "drain", "split_off", "pop", "remove", "shift_remove", "into_group_map",
}


def pipeline_violations(db, fn, depth=2):
    """calls that can reorder or drop elements anywhere between a `self` store and what a listing
    function appends / returns (the expression trees of every extend/push argument and of the return value);
    local listing helpers called on self are followed"""
    from qv.engine import fn_expr_local, expr_calls

    bad = []
    exprs = []
    for bb, t, c in fn.calls():
        p = callee_path(c) or ""
        name = (c or {}).get("name")
        if (c and c.get("trait") == "std::iter::Extend" and name == "extend") or p.endswith("Vec::<T, A>::push") or p.endswith("Vec::<T, A>::append"):
            if len(t["args"]) > 1:
                exprs.append(fn_expr_operand(fn, t["args"][1]))
    exprs.append(fn_expr_local(fn, 0))
    seen = set()
    for e in exprs:
        for call in expr_calls(e):
            nm = call[1].rsplit("::", 1)[-1]
            if nm in REORDER_OR_DROP and self_fields(call):
                k = (call[1], call[3])
                if k not in seen:
                    seen.add(k)
                    bad.append((call[1], fn.blocks[call[3]]["t"]["sp"], self_fields(call)))
            if depth > 0 and call[2]:
                a0 = call[2][0]
                hs = db.by_path.get(call[1], [])
                if len(hs) == 1 and self_fields(a0) and hs[0].dp != fn.dp:
                    for b in pipeline_violations(db, hs[0], depth - 1):
                        bad.append(b)
    return bad


def fields_read(db, fn):
    """self fields read anywhere in fn (place projections on param 1), incl. its closures"""
    names = set()
    fns = [fn] + db.closures_of(fn)
    for f in fns:
        base = 1
        for i, j, s in f.stmts():
            if s["k"] != "assign":
                continue
            for p in _places_in_rvalue(s["rv"]):
                if f is fn and p["l"] == 1:
                    for pr in p["pr"]:
                        if isinstance(pr, dict) and "n" in pr and pr.get("o") == fn_self_adt(db, fn):
                            names.add(pr["n"])
                            break
        for bb, t, c in f.calls():
            for a in t["args"]:
                p = a.get("c") or a.get("m")
                if p and f is fn and p["l"] == 1:
                    for pr in p["pr"]:
                        if isinstance(pr, dict) and "n" in pr:
                            names.add(pr["n"])
                            break
    return names


def fn_self_adt(db, fn):
    return fn.impl_self_path()


def _places_in_rvalue(rv):
    k = rv["k"]
    out = []
    if k in ("ref", "rawptr", "discr", "copyderef"):
        out.append(rv["p"])
    ops = []
    if k in ("use", "cast", "un", "repeat"):
        ops = [rv["o"]]
    elif k == "bin":
        ops = [rv["a"], rv["b"]]
    elif k == "agg":
        ops = rv["ops"]
    for o in ops:
        p = o.get("c") or o.get("m")
        if p:
            out.append(p)
    return out


def fields_mutated(db, fn):
    """self fields that fn mutably borrows or assigns (fn takes &mut self as param 1): name -> [spans]"""
    out = {}
    adt = fn_self_adt(db, fn)
    for i, j, s in fn.stmts():
        if s["k"] != "assign":
            continue
        # direct store self.f = ..
        p = s["p"]
        if p["l"] == 1:
            for pr in p["pr"]:
                if isinstance(pr, dict) and "n" in pr and pr.get("o") == adt:
                    out.setdefault(pr["n"], []).append(s["sp"])
                    break
        rv = s["rv"]
        if rv["k"] == "ref" and rv["m"] == "mut" and rv["p"]["l"] == 1:
            for pr in rv["p"]["pr"]:
                if isinstance(pr, dict) and "n" in pr and pr.get("o") == adt:
                    out.setdefault(pr["n"], []).append(s["sp"])
                    break
    return out


def instruction_variants_built(db, fn, depth=2):
    """Instruction variants constructed by fn, its closures, and (to `depth`) local callees"""
    out = set()
    seen = set()

    def visit(f, d):
        if f.dp in seen:
            return
        seen.add(f.dp)
        for g in [f] + db.closures_of(f):
            for i, j, s in g.stmts():
                if s["k"] == "assign" and s["rv"]["k"] == "agg" and s["rv"]["a"]["k"] == "adt" and s["rv"]["a"]["path"] == INSTRUCTION:
                    out.add(s["rv"]["a"]["variant"])
            for bb, t, c in g.calls():
                ops = list(t["args"])
                for o in ops:
                    k = o.get("k")
                    if k and "fn" in k and k["fn"]["path"].startswith(INSTRUCTION + "::"):
                        out.add(k["fn"]["path"].rsplit("::", 1)[1])
                if c:
                    p = callee_path(c)
                    if p.startswith(INSTRUCTION + "::") and p.count("::") == INSTRUCTION.count("::") + 1 and p.rsplit("::", 1)[1][:1].isupper():
                        out.add(p.rsplit("::", 1)[1])
                    if d > 0:
                        for h in db.by_path.get(p, []):
                            visit(h, d - 1)
            for i, j, s in g.stmts():
                if s["k"] == "assign":
                    for o in g.rvalue_operands(s["rv"]):
                        k = o.get("k")
                        if k and "fn" in k and k["fn"]["path"].startswith(INSTRUCTION + "::") and k["fn"]["path"].rsplit("::", 1)[1][:1].isupper():
                            out.add(k["fn"]["path"].rsplit("::", 1)[1])

    visit(fn, depth)
    return out


BODY_ADDING = ("push", "extend", "insert", "append", "splice", "extend_from_slice", "push_within_capacity", "resize", "resize_with", "insert_many")
# functions that may add to `Program.instructions` directly, each confirmed by reading
BODY_WRITERS = {
    "quil_rs::program::Program::add_instruction": "the router itself: the catch-all and the body-kind arms push, every keyed kind goes to its store",
    "<quil_rs::program::Program as std::ops::AddAssign>::add_assign": "appends the body of another Program, whose instructions were routed when that program was built",
}


def body_appenders(db):
    """[(fn, call name, bb)] for calls that add elements to the `instructions` field of a Program through a direct borrow"""
    out = []
    for f in db.fns:
        if f.is_derived():
            continue
        for i, j, s_ in f.stmts():
            if s_["k"] == "assign" and s_["rv"]["k"] == "ref" and s_["rv"].get("m") == "mut" and any(isinstance(pr, dict) and pr.get("o") == PROGRAM and pr.get("n") == "instructions" for pr in s_["rv"]["p"]["pr"]):
                l = s_["p"]["l"]
                for bb, t, c in f.calls():
                    if c and c.get("name") in BODY_ADDING and t["args"] and (t["args"][0].get("m") or t["args"][0].get("c") or {}).get("l") == l:
                        out.append((f, c.get("name"), bb))
    return out


def body_writer_rule(db, res, prefix="K6"):
    """only the router (and the whitelisted merges) append to the body: anything else bypasses the routing of keyed
    definitions (DECLARE, DEFFRAME, ... would stay in the body) and the bookkeeping done there"""
    apps = body_appenders(db)
    seen = set()
    for f, nm, bb in apps:
        owner = f.path.split("::{closure")[0]
        key = "%s|body-appended-only-by-router|%s" % (prefix, owner)
        if key in seen:
            continue
        seen.add(key)
        ok = owner in BODY_WRITERS
        res.site(key, True, {"fn": owner, "call": nm, "verdict": "ok: " + BODY_WRITERS[owner] if ok else "VIOLATION"})
        if not ok:
            res.find(key, f.loc(), "%s adds to Program.instructions directly (%s) instead of going through add_instruction: a keyed definition among the added instructions stays in the body and is not registered in its store" % (owner, nm), "a DECLARE inside a DEFCAL body is left in the program body by expand_calibrations() but hoisted by expand_calibrations_with_source_map()")
    res.count("body_appending_functions", len(seen), floor=2)


def run(ctx):
    res = Result("C09")
    db = ctx.db("quil_rs")
    res.rules += [
        "R1 (K4) to_instructions / into_instructions: same stores appended in the same order",
        "R2 (K3) stores mutated by add_instruction == stores listed == stores counted by len",
        "R3 (K2) add_instruction variant -> store routing agrees with what each listing section re-creates",
        "R4 (K10) between a store and the listing output only order-preserving, loss-free adaptors are applied",
    ]
    to_i = require_fn(db, res, PROGRAM + "::to_instructions")
    into_i = require_fn(db, res, PROGRAM + "::into_instructions")
    add_i = require_fn(db, res, PROGRAM + "::add_instruction")
    len_f = require_fn(db, res, PROGRAM + "::len")
    if not (to_i and into_i and add_i and len_f):
        return res

    # R1 for Program and every local type with both methods
    pairs = []
    for f in db.fns:
        if f.name == "to_instructions" and f.kind == "AssocFn":
            g = db.by_path.get(f.path.rsplit("::", 1)[0] + "::into_instructions", [])
            if len(g) == 1:
                pairs.append((f, g[0]))
    res.count("listing_pairs", len(pairs), floor=3)
    for f, g in pairs:
        sf = [x[0] for x in sections(f)]
        sg = [x[0] for x in sections(g)]
        owner = f.path.rsplit("::", 1)[0]
        key = "K4|section-order|" + owner
        if not sf or not sg:
            # (one side) builds no vector incrementally: compare the ordered fields feeding the result
            rf = [x[0] for x in sf if len(x) == 1] if sf else ret_fields(db, f)
            rg = [x[0] for x in sg if len(x) == 1] if sg else ret_fields(db, g)
            ok = rf == rg and len(rf) > 0
            res.site(key, True, {"type": owner, "to_instructions": rf, "into_instructions": rg, "verdict": "ok" if ok else "VIOLATION"})
            if not ok:
                res.find(key, f.loc(), "%s::to_instructions lists fields %s (in this order) but into_instructions lists %s" % (owner, rf, rg))
            continue
        ok = sf == sg
        res.site(key, True, {"type": owner, "to_instructions": [list(x) for x in sf], "into_instructions": [list(x) for x in sg], "verdict": "ok" if ok else "VIOLATION"})
        if not ok:
            first = next((i for i, (a, b) in enumerate(zip(sf + [None], sg + [None])) if a != b), 0)
            res.find(
                key,
                g.loc(),
                "%s: the copying listing appends stores %s but the consuming listing appends %s (first difference at section %d)" % (owner, [".".join(x) for x in sf], [".".join(x) for x in sg], first),
                "a program holding one item of each differing store lists them in different positions, e.g. `PRAGMA EXTERN foo \"INTEGER\"; DECLARE ro BIT; X 0`",
            )
        for s_ in sf + sg:
            if len(s_) != 1:
                res.find(key + "|ambiguous", f.loc(), "a listing section does not read exactly one store: %s" % (s_,))

    # R4: order-preserving, loss-free pipelines
    npipe = 0
    for f, g in pairs:
        for h in (f, g):
            npipe += 1
            for (callee, sp, flds) in pipeline_violations(db, h):
                key = "K10|pipeline|%s|%s" % (h.path, callee.rsplit("::", 1)[-1])
                res.site(key, True)
                res.find(key, h.loc(sp), "%s passes store `%s` through `%s`, which can reorder or drop elements: the listing no longer follows definition order / loses definitions" % (h.path, ".".join(flds), callee), "definitions of that kind are listed in a different order by the two listings (or not at all)")
            res.site("K10|pipeline|%s" % h.path, True, {"fn": h.path, "verdict": "order-preserving adaptors only"})
    res.count("listing_functions_pipeline_checked", npipe, floor=6)

    # R2
    mut = set(fields_mutated(db, add_i)) - CACHE_FIELDS
    rd_to = {x for s in sections(to_i) for x in s[0]}
    rd_into = {x for s in sections(into_i) for x in s[0]}
    rd_len = fields_read(db, len_f)
    key = "K3|stores|" + PROGRAM
    ok = mut == rd_to == rd_into  # `len` is reported in evidence only: the property does not mention it
    res.site(key, True, {"add_instruction_mutates": sorted(mut), "to_instructions_lists": sorted(rd_to), "into_instructions_lists": sorted(rd_into), "len_counts": sorted(rd_len), "verdict": "ok" if ok else "VIOLATION"})
    if not ok:
        res.find(key, add_i.loc(), "store sets disagree: add_instruction mutates %s, to_instructions lists %s, into_instructions lists %s, len counts %s" % (sorted(mut), sorted(rd_to), sorted(rd_into), sorted(rd_len)), "an instruction stored in a field that a listing does not read disappears from that listing")
    adt = db.adts.get(PROGRAM)
    if adt:
        allf = {f["n"] for f in adt["variants"][0]["fields"]} - CACHE_FIELDS
        res.site("K3|all-fields", True, {"program_fields": sorted(allf)})
        if allf != rd_to:
            res.find("K3|stores|unlisted-field", to_i.loc(), "Program fields %s are not listed by to_instructions" % sorted(allf - rd_to))

    # R3 routing
    ms = [m for m in db.matches_by_owner.get(add_i.path, []) if m["k"] == "match" and db.types[m["scrut_t"]].get("path") == INSTRUCTION]
    if len(ms) != 1:
        res.missing_anchor("match on Instruction in add_instruction")
        return res
    m = ms[0]
    muts = fields_mutated(db, add_i)
    routing = {}
    catch_all = None
    for arm in m["arms"]:
        pats = arm["pat"]["ps"] if arm["pat"]["k"] == "or" else [arm["pat"]]
        stores = sorted({f for f, sps in muts.items() for sp in sps if in_span(sp, arm["body_sp"])} - CACHE_FIELDS)
        for p in pats:
            if p["k"] == "ctor" and p.get("c") and p["c"].get("adt") == INSTRUCTION:
                routing.setdefault(p["c"]["variant"], set()).update(stores)
                if arm["guard"]:
                    routing[p["c"]["variant"]].add("?guarded")
            elif p["k"] in ("bind", "wild"):
                catch_all = stores
    body_store = "instructions"
    sec_to = sections(to_i)
    built_by_store = {}
    # which variants does each listing section re-create?  Attribute aggregates/ctor refs by span.
    for lst in (to_i, into_i):
        for (flds, sp) in sections(lst):
            if len(flds) != 1:
                continue
            store = flds[0]
            vs = set()
            for g in [lst] + db.closures_of(lst):
                for i, j, s in g.stmts():
                    if s["k"] == "assign" and in_span(s["sp"], sp):
                        rv = s["rv"]
                        if rv["k"] == "agg" and rv["a"]["k"] == "adt" and rv["a"]["path"] == INSTRUCTION:
                            vs.add(rv["a"]["variant"])
                        for o in g.rvalue_operands(rv):
                            k = o.get("k")
                            if k and "fn" in k and k["fn"]["path"].startswith(INSTRUCTION + "::"):
                                vs.add(k["fn"]["path"].rsplit("::", 1)[1])
                for bb, t, c in g.calls():
                    if not in_span(t["sp"], sp):
                        continue
                    for o in t["args"]:
                        k = o.get("k")
                        if k and "fn" in k and k["fn"]["path"].startswith(INSTRUCTION + "::"):
                            vs.add(k["fn"]["path"].rsplit("::", 1)[1])
                    if c:
                        p = callee_path(c)
                        for h in db.by_path.get(p, []):
                            if h.name in ("to_instructions", "into_instructions"):
                                vs |= instruction_variants_built(db, h, 2)
            built_by_store.setdefault((lst.name, store), set()).update(vs)
    nroutes = 0
    for v, stores in sorted(routing.items()):
        real = sorted(s for s in stores if s != "?guarded")
        nroutes += 1
        key = "K2|routing|%s" % v
        ok = len(real) == 1
        detail = {"variant": v, "stores": real, "guarded": "?guarded" in stores}
        if ok and real[0] != body_store:
            for lst in ("to_instructions", "into_instructions"):
                b = built_by_store.get((lst, real[0]), set())
                detail[lst + "_recreates"] = sorted(b)
                if v not in b:
                    ok = False
        res.site(key, True, dict(detail, verdict="ok" if ok else "VIOLATION"))
        if not ok:
            res.find(key, add_i.loc(m["sp"]), "Instruction::%s is routed to store(s) %s by add_instruction but the listings re-create %s from that store" % (v, real, {k: sorted(built_by_store.get((k, real[0]), set())) for k in ("to_instructions", "into_instructions")} if real else "nothing"), "a program holding an Instruction::%s lists/rebuilds differently" % v)
    key = "K2|routing|catch-all"
    ok = catch_all == [body_store]
    res.site(key, True, {"catch_all_store": catch_all, "verdict": "ok" if ok else "VIOLATION"})
    if not ok:
        res.find(key, add_i.loc(m["sp"]), "the catch-all arm of add_instruction stores into %s, not the body" % catch_all)
    res.count("routed_variants", nroutes, floor=15)
    res.count("program_sections", len(sec_to), floor=8)
    # R4 (K6) who may add to a CalibrationSet: the backing vector is grown or overwritten only by `replace` (which looks the
    #    signature up in the whole current contents first) - so "each keyed definition keeps only its last value" holds for
    #    every way of filling the set (insert, extend, From<Vec<_>>)
    ADDING = {"push", "insert", "extend", "append", "index_mut", "iter_mut", "extend_from_slice", "as_mut_slice", "get_mut", "swap", "splice"}
    writers_ = {}
    for g in db.fns:
        if "::calibration_set::" not in g.path and not g.path.startswith("<quil_rs::program::calibration_set::"):
            continue
        hits = []
        for bb, t, c in g.calls():
            if c and c.get("name") in ADDING and t["args"]:
                e = fn_expr_operand(g, t["args"][0])
                ns = []
                walk_expr(e, ns.append)
                if any(n[0] == "field" and n[2] == "data" for n in ns):
                    hits.append(c.get("name"))
        if hits:
            writers_[g.path] = hits
    key = "K6|calibration-set-writers"
    allowed = [p_ for p_ in writers_ if p_.endswith("::replace")]
    others = {p_: h for p_, h in writers_.items() if not p_.endswith("::replace")}
    ok = len(allowed) == 1 and not others
    res.site(key, True, {"functions_adding_to_data": {k_.rsplit("::", 2)[-1] if "::" in k_ else k_: v for k_, v in writers_.items()}, "verdict": "ok" if ok else "VIOLATION"})
    if not ok:
        res.find(key, "-", "CalibrationSet's backing vector is added to or overwritten outside `replace`: %s; a value whose signature is already present (e.g. earlier in the same batch) is then kept twice" % (others or "no `replace` found"), "Calibrations built from a Vec with two DEFCALs of the same signature list both")
    # R5 (K7) every section of the two listings is appended unconditionally
    for h in (to_i, into_i):
        for bb, t, c in h.calls():
            if c and c.get("name") in ("extend", "push", "append") and t["args"]:
                recv = fn_expr_operand(h, t["args"][0])
                if not (recv[0] == "call" and ("Vec" in recv[1])):
                    continue
                cds = [sb for sb, tgt in h.control_deps(bb, transitive=False)]
                key = "K7|listing-section-unconditional|%s|bb-independent" % h.name
                if cds:
                    conds = []
                    for sb in cds:
                        tt = h.blocks[sb]["t"]
                        conds.append(str(fn_expr_operand(h, tt["d"])[:2])[:70] if tt["k"] == "switch" else tt["k"])
                    res.site(key, True, {"conditions": conds, "verdict": "VIOLATION"})
                    res.find(key, h.loc(t.get("sp")), "Program::%s appends one of its sections only under a condition (%s); the other listing appends it always" % (h.name, conds), "a program with only DEFCAL MEASURE definitions loses them in into_instructions but not in to_instructions")
    res.site("K7|listing-section-unconditional", True, {"verdict": "checked"})
    body_writer_rule(db, res)
    # which PRAGMAs leave the body: exactly those whose name IS the reserved word (an exact ==), because the listing writes
    # them back under exactly that name; any looser test (case-insensitive, prefix) moves an ordinary body PRAGMA into the
    # keyed extern store, where it loses its position and can be replaced by a later one
    key = "K8|extern-routing-exact"
    routes = [(bb, t) for bb, t, c in add_i.calls() if c and callee_path(c).endswith("ExternPragmaMap::insert")]
    ok = False
    detail = {"insert_sites": len(routes)}
    if len(routes) == 1:
        bb = routes[0][0]
        deps = sorted(add_i.control_deps(bb, transitive=False))
        conds = []
        for sb, tgt in deps:
            tt = add_i.blocks[sb]["t"]
            e = fn_expr_operand(add_i, tt["d"]) if tt["k"] == "switch" else ("x",)
            if e[0] == "discr":
                continue  # the match on the instruction kind
            conds.append((e, tt, tgt))
        if len(conds) == 1:
            e, tt, tgt = conds[0]
            exact = e[0] == "call" and e[1].rsplit("::", 1)[-1] in ("eq", "ne") and "PartialEq" in e[1] and len(e[2]) == 2
            name_arg = exact and any(a[0] == "field" and a[2] == "name" and a[1][0] == "field" and a[1][1][0] == "as" and a[1][1][2] == "Pragma" for a in e[2])
            false_targets = [target for v, target in tt["ts"] if int(v) == 0]
            on_true = bool(false_targets) and tgt not in false_targets
            side_ok = exact and (on_true == (e[1].rsplit("::", 1)[-1] == "eq"))
            ok = bool(exact and name_arg and side_ok)
            detail.update({"comparison": e[1][-60:] if e[0] == "call" else str(e[:2]), "compares_pragma_name": bool(name_arg), "taken_on_equal": bool(side_ok)})
        else:
            detail["conditions"] = len(conds)
    res.site(key, True, dict(detail, verdict="ok" if ok else "VIOLATION"))
    if not ok:
        res.find(key, add_i.loc(), "add_instruction moves a PRAGMA into the extern store under a test that is not an exact `name == EXTERN` (%s)" % detail, "`PRAGMA extern foo \"(x : INTEGER)\"` (lower case) leaves the body, moves to the head of the listing and is replaced by a later one with the same first argument")
    res.explanation = (
        "Sibling agreement (K4) between the copying and consuming listings of Program and of every local type with both methods (%d pairs): "
        "each is abstracted to the ordered list of `self` stores appended to the result (provenance of every extend/push argument) and the lists must be equal; "
        "store sets of add_instruction / listings / len must coincide; the variant->store routing of add_instruction must be matched by what each listing section re-creates. "
        "Decides order/coverage of sections for all programs; does not run either listing." % len(pairs)
    )
    res.assumptions = ["Vec::extend / IndexMap iteration preserve element order (documented)"]
    return res
