"""Shared helpers for property modules."""
from qv.engine import fn_expr_operand

PARSE_ENTRY_TYPES = [
    "quil_rs::program::Program",
    "quil_rs::instruction::Instruction",
    "quil_rs::expression::Expression",
    "quil_rs::instruction::declaration::MemoryReference",
    "quil_rs::instruction::frame::FrameIdentifier",
]


def parse_entries(ctx, res):
    db = ctx.db("quil_rs")
    entries = []
    for ty in PARSE_ENTRY_TYPES:
        e = db.trait_impl("std::str::FromStr", ty, "from_str")
        if len(e) != 1:
            res.missing_anchor("<%s as FromStr>::from_str" % ty)
            continue
        entries.append(e[0])
    return entries


def parse_reach(ctx, res):
    """(entries, mono parent map, set of reachable local dps) for the parse entry points"""
    db = ctx.db("quil_rs")
    mono = ctx.mono("quil_rs")
    entries = parse_entries(ctx, res)
    roots = mono.roots([e.dp for e in entries])
    parent = mono.reach(roots)
    return entries, parent, mono.local_dps(parent)


def reach_from(ctx, fns):
    mono = ctx.mono("quil_rs")
    parent = mono.reach(mono.roots([f.dp for f in fns]))
    return parent, mono.local_dps(parent)


def in_span(sp, outer):
    """is span sp=[l,c,l2,c2] inside outer?"""
    return (sp[0], sp[1]) >= (outer[0], outer[1]) and (sp[2], sp[3]) <= (outer[2], outer[3])


def aggregates(fn, adt_path=None, variant=None):
    """yield (bb, stmt) for Aggregate assignments constructing adt_path[::variant]"""
    for i, j, s in fn.stmts():
        if s["k"] == "assign" and s["rv"]["k"] == "agg" and s["rv"]["a"]["k"] == "adt":
            a = s["rv"]["a"]
            if (adt_path is None or a["path"] == adt_path) and (variant is None or a["variant"] == variant):
                yield i, s


def require_fn(db, res, path):
    f = None
    try:
        f = db.fn(path)
    except KeyError:
        pass
    if f is None:
        res.missing_anchor(path)
    return f


def byte_to_char(callee=None, cast=None):
    """does a call / cast build a char from a single byte or code unit?"""
    import re

    if callee is not None:
        return bool(re.search(r"(<char as (std|core)::convert::From<u8>>::from$|impl (std|core)::convert::From<u8> for char>::from$)", callee)) or callee.endswith("char::from_u32_unchecked") or callee.endswith("char::from_u32")
    src_t, dst_t = cast
    return dst_t == "char" and src_t in ("u8", "u16", "u32", "i8")


# positive control of the predicate (the rule built on it expects zero matches in the analysed code)
assert byte_to_char(callee="std::char::convert::<impl std::convert::From<u8> for char>::from") and byte_to_char(callee="<char as std::convert::From<u8>>::from") and byte_to_char(cast=("u8", "char")) and not byte_to_char(cast=("char", "u32"))


def byte_to_char_sites(db, fns):
    from qv.engine import callee_path

    hits = []
    for f in fns:
        for bb, t, c in f.calls():
            if c and byte_to_char(callee=callee_path(c)):
                hits.append((f, t.get("sp"), callee_path(c)))
        for i, j, st in f.stmts():
            if st["k"] == "assign" and st["rv"]["k"] == "cast" and "ft" in st["rv"]:
                if byte_to_char(cast=(db.types[st["rv"]["ft"]]["s"], db.types[st["rv"]["t"]]["s"])) and not st.get("exp"):
                    hits.append((f, st.get("sp"), "`as char`"))
    return hits
