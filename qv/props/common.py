"""Shared helpers for property modules."""
from qv.engine import fn_expr_operand

PARSE_ENTRY_TYPES = [
    "quil_rs::program::Program",
    "quil_rs::instruction::Instruction",
    "quil_rs::expression::Expression",
    "quil_rs::instruction::declaration::MemoryReference",
    "quil_rs::instruction::frame::FrameIdentifier",
]


def parse_entries(ctx, res):
    db = ctx.db("quil_rs")
    entries = []
    for ty in PARSE_ENTRY_TYPES:
        e = db.trait_impl("std::str::FromStr", ty, "from_str")
        if len(e) != 1:
            res.missing_anchor("<%s as FromStr>::from_str" % ty)
            continue
        entries.append(e[0])
    return entries


def parse_reach(ctx, res):
    """(entries, mono parent map, set of reachable local dps) for the parse entry points"""
    db = ctx.db("quil_rs")
    mono = ctx.mono("quil_rs")
    entries = parse_entries(ctx, res)
    roots = mono.roots([e.dp for e in entries])
    parent = mono.reach(roots)
    return entries, parent, mono.local_dps(parent)


def reach_from(ctx, fns):
    mono = ctx.mono("quil_rs")
    parent = mono.reach(mono.roots([f.dp for f in fns]))
    return parent, mono.local_dps(parent)


def in_span(sp, outer):
    """is span sp=[l,c,l2,c2] inside outer?"""
    return (sp[0], sp[1]) >= (outer[0], outer[1]) and (sp[2], sp[3]) <= (outer[2], outer[3])


def aggregates(fn, adt_path=None, variant=None):
    """yield (bb, stmt) for Aggregate assignments constructing adt_path[::variant]"""
    for i, j, s in fn.stmts():
        if s["k"] == "assign" and s["rv"]["k"] == "agg" and s["rv"]["a"]["k"] == "adt":
            a = s["rv"]["a"]
            if (adt_path is None or a["path"] == adt_path) and (variant is None or a["variant"] == variant):
                yield i, s


def require_fn(db, res, path):
    f = None
    try:
        f = db.fn(path)
    except KeyError:
        pass
    if f is None:
        res.missing_anchor(path)
    return f
