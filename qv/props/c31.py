"""C31 Extern signatures round-trip and CALL resolution follows the rules.

Decides:
  R1 (K3) the writers of ExternSignature / ExternParameter / ExternParameterType read every field of their type;
  R2 (K7) Call::resolve_to_signature resolves arguments only after the argument-count check (error
          ParameterCount on the failing side);
  R3 (K8) UnresolvedCallArgument::resolve, per argument kind, can fail with exactly the documented errors
          (Identifier: undeclared / mismatched vector / mismatched scalar; MemoryReference: vector slot /
          undeclared / mismatched scalar; Immediate: mutable slot / vector slot), every success value of the
          MemoryReference and Identifier arms is preceded by the declarations lookup, and the Immediate arm tests
          `mutable` before succeeding;
  R4 (K8) resolve_return accepts only MemoryReference | Identifier, looks the region up, compares the type and
          marks the slot mutable.
          A MemoryReference or Immediate argument is accepted for ExternParameterType::Scalar only (decision read from
          the match in the arm or from the Option/Result helper it calls on `data_type`).
Not decided: the full argument x parameter truth table."""
from qv.engine import callee_path, fn_expr_operand, walk_expr
from qv.props.common import in_span, aggregates, require_fn
from qv.report import Result
from qv.rules import k2_coverage as k2

EC = "quil_rs::instruction::extern_call"
UCA = EC + "::UnresolvedCallArgument"
ERR = "CallArgumentResolutionError"
EXPECT = {
    "Identifier": {"UndeclaredMemoryReference", "MismatchedVector", "MismatchedScalar"},
    "MemoryReference": {"InvalidVectorArgument", "UndeclaredMemoryReference", "MismatchedScalar"},
    "Immediate": {"ImmediateArgumentForMutable", "InvalidVectorArgument"},
}


def errors_in(db, fn, span):
    out = set()
    for g in [fn] + db.closures_of(fn):
        for bb, s in aggregates(g):
            a = s["rv"]["a"]
            if a["path"].endswith(ERR) and in_span(s["sp"], span):
                out.add(a["variant"])
    return out


def run(ctx):
    res = Result("C31")
    db = ctx.db("quil_rs")
    res.rules += ["R1 (K3) extern writers read every field", "R2 (K7) count check dominates resolution", "R3 (K8) per-argument-kind error table and guards", "R4 (K8) return slot rules"]
    # R1
    writers = [f for f in db.fns if f.raw.get("impl_trait") == "quil_rs::quil::Quil" and f.name == "write" and (f.impl_self_path() or "").startswith(EC + "::Extern")]
    res.count("extern_writers", len(writers), floor=3)
    for w in writers:
        sp = w.impl_self_path()
        adt = db.adts.get(sp)
        reads = k2.deep_read_paths(db, w)
        units = [((fl["n"],), fl["n"]) for fl in adt["variants"][0]["fields"]] if adt["kind"] == "Struct" else [(("as:" + v["n"], fl["n"]), "%s.%s" % (v["n"], fl["n"])) for v in adt["variants"] for fl in v["fields"]]
        for pref, label in units:
            key = "K3|extern-writer-field|%s|%s" % (sp.rsplit("::", 1)[-1], label)
            ok = k2.has_prefix(reads, pref)
            res.site(key, True, {"type": sp.rsplit("::", 1)[-1], "field": label, "verdict": "ok" if ok else "VIOLATION"})
            if not ok:
                res.find(key, w.loc(), "the writer of %s never reads `%s`: two signatures differing only in it print identically" % (sp.rsplit("::", 1)[-1], label), "`(x : mut INTEGER)` vs `(x : INTEGER)`" if "mutable" in label else "an extern signature with a non-default %s" % label)
    # R2
    rts = require_fn(db, res, EC + "::Call::resolve_to_signature")
    if rts:
        conv = [(bb, t) for bb, t, c in rts.calls() if c and callee_path(c).startswith(EC) and "convert_unresolved" in callee_path(c)]
        key = "K7|count-check-dominates"
        ok = False
        if conv:
            bb = conv[0][0]
            for d in rts.dominators().get(bb, set()):
                tt = rts.blocks[d]["t"]
                if tt["k"] == "switch":
                    e = fn_expr_operand(rts, tt["d"])
                    if e[0] == "bin" and e[1] in ("Ne", "Eq"):
                        calls = []
                        walk_expr(e, lambda n: calls.append(n[1]) if n[0] == "call" else None)
                        if sum(1 for c in calls if c.endswith("::len")) >= 2:
                            ok = True
            ok = ok and "ParameterCount" in {s["rv"]["a"]["variant"] for b2, s in aggregates(rts)}
        res.site(key, True, {"verdict": "ok" if ok else "VIOLATION"})
        if not ok:
            res.find(key, rts.loc(), "argument resolution in resolve_to_signature is not dominated by the comparison of the argument count with the signature's slot count (error ParameterCount)", "`CALL f x` against a two-parameter signature resolves (or indexes past the parameters)")
        # R2b the count check compares the plain number of arguments with (parameters + 1 if there is a return slot)
        key = "K7|count-check-condition"
        verdict, detail = "undecided: comparison not found", {}
        for d in range(len(rts.blocks)):
            tt = rts.blocks[d]["t"]
            if tt["k"] != "switch":
                continue
            e = fn_expr_operand(rts, tt["d"])
            if not (e[0] == "bin" and e[1] in ("Ne", "Eq")):
                continue
            sides = [e[2], e[3]]

            def nn(x):
                out = []
                walk_expr(x, out.append)
                return out

            arg_side = [x for x in sides if any(n[0] == "field" and n[2] == "arguments" for n in nn(x))]
            par_side = [x for x in sides if any(n[0] == "field" and n[2] == "parameters" for n in nn(x))]
            if len(arg_side) != 1 or len(par_side) != 1 or arg_side[0] is par_side[0]:
                continue
            a, p_ = arg_side[0], par_side[0]
            plain_len = a[0] == "call" and a[1].endswith("::len") and not any(n[0] in ("bin", "phi") for n in nn(a))
            lossy = sorted({n[1].rsplit("::", 1)[-1] for n in nn(a) if n[0] == "call" and n[1].rsplit("::", 1)[-1] in ("saturating_sub", "checked_sub", "wrapping_sub", "min", "max", "clamp")})
            plus_one = any(n[0] == "bin" and n[1].startswith("Add") and n[3][0] == "const" and n[3][1] == 1 for n in nn(p_)) or any(n[0] == "cast" or (n[0] == "call" and n[1].endswith("::from")) for n in nn(p_))
            uses_ret = any(tt2["t"]["k"] == "switch" and any(n[0] == "field" and n[2] == "return_type" for n in nn(fn_expr_operand(rts, tt2["t"]["d"]))) for tt2 in rts.blocks) or any(n[0] == "field" and n[2] == "return_type" for n in nn(p_))
            detail = {"argument_side_is_plain_len": plain_len, "lossy_arithmetic_on_argument_count": lossy, "slot_count_adds_return_slot": plus_one and uses_ret}
            if lossy:
                verdict = "VIOLATION"
            elif plain_len and plus_one and uses_ret:
                verdict = "ok"
            else:
                verdict = "undecided: unrecognised form of the count comparison"
            break
        res.site(key, True, dict(detail, verdict=verdict))
        if verdict == "VIOLATION":
            res.find(key, rts.loc(), "the argument-count check applies %s to the number of arguments before comparing: distinct counts are identified, so a call with too few arguments resolves" % detail["lossy_arithmetic_on_argument_count"], "`CALL f` with no arguments against `PRAGMA EXTERN f \"INTEGER\"` (return slot only) resolves")
        elif verdict != "ok":
            res.undecided.append(key + " " + verdict)
    # R1b the `mut` qualifier is written for every mutable parameter, whatever its type: wherever the writers branch on
    #     `mutable`, every path of the true side passes a write of the literal containing "mut"
    key = "K7|mut-qualifier-written"
    from qv.engine import callee_of
    found_switch = False
    bad = []
    for g in db.fns:
        if not g.path.startswith(EC) and not ("extern_call::" in g.path):
            continue
        emits = []
        for bb, t, c in g.calls():
            if c and c.get("name") in ("write_fmt", "write_str", "push_str"):
                es = [fn_expr_operand(g, a) for a in t["args"][1:]]
                consts = []
                for e in es:
                    walk_expr(e, lambda n: consts.append(n[1]) if n[0] == "const" and isinstance(n[1], str) else None)
                if any("mut" in c_ for c_ in consts):
                    emits.append(bb)
        for d in range(len(g.blocks)):
            tt = g.blocks[d]["t"]
            if tt["k"] != "switch":
                continue
            e = fn_expr_operand(g, tt["d"])
            if (e[0] == "field" and e[2] == "mutable") or (e[0] == "param" and e[2] == "mutable"):
                # only in functions that write text
                if not any(c and c.get("name") in ("write_fmt", "write_str") for bb, t, c in g.calls()):
                    continue
                found_switch = True
                true_succ = tt["else"] if [v for v, x in tt["ts"]] == ["0"] else [x for v, x in tt["ts"] if v != "0"][0]
                if not g.all_paths_pass(true_succ, set(emits)):
                    bad.append(g.path)
    ok = found_switch and not bad
    res.site(key, True, {"writers_branching_on_mutable": found_switch, "paths_missing_the_qualifier": bad, "verdict": "ok" if ok else "VIOLATION"})
    if not ok:
        res.find(key, "-", "a mutable extern parameter is not always printed with its `mut` qualifier (%s)" % (bad or "no writer branches on `mutable`"), "`(buffer : mut REAL[])` prints as `(buffer : REAL[])`, which parses back as immutable")
    # R3
    rs = require_fn(db, res, UCA + "::resolve")
    if rs:
        ms = [m for m in k2.match_on(db, rs, UCA)]
        if not ms:
            res.missing_anchor("match in UnresolvedCallArgument::resolve")
        else:
            m = max(ms, key=lambda x: x["sp"][2] - x["sp"][0])
            for arm in m["arms"]:
                vs, _ = k2.arm_variants(arm, UCA)
                for v in sorted(vs & set(EXPECT)):
                    got = errors_in(db, rs, arm["body_sp"])
                    key = "K8|resolve-errors|%s" % v
                    ok = got == EXPECT[v]
                    res.site(key, True, {"argument": v, "errors": sorted(got), "expected": sorted(EXPECT[v]), "verdict": "ok" if ok else "VIOLATION"})
                    if not ok:
                        res.find(key, rs.loc(arm["sp"]), "resolving an %s argument can fail with %s; the rules require exactly %s (missing checks: %s)" % (v, sorted(got), sorted(EXPECT[v]), sorted(EXPECT[v] - got)), "a CALL whose %s argument does not fit its slot resolves anyway" % v)
                    # lookups / mutable test
                    names = {c.get("name") for g in [rs] + db.closures_of(rs) for bb, t, c in g.calls() if c and in_span(t["sp"], arm["body_sp"])}
                    if v in ("Identifier", "MemoryReference"):
                        key = "K7|resolve-looks-up|%s" % v
                        ok = "get" in names
                        res.site(key, True, {"verdict": "ok" if ok else "VIOLATION"})
                        if not ok:
                            res.find(key, rs.loc(arm["sp"]), "the %s arm of resolve does not look the region up in the declarations" % v, "an undeclared region is accepted")
                    if v in ("MemoryReference", "Immediate"):
                        # the slot kinds a scalar argument is accepted for: exactly ExternParameterType::Scalar.  The
                        # decision is read from the match on the slot's type in this arm, or from the match inside a
                        # helper method called on `data_type` in this arm.
                        key = "K8|scalar-argument-slot-kinds|%s" % v
                        EPT = EC + "::ExternParameterType"
                        allv = {x["n"] for x in db.adts[EPT]["variants"]}
                        accepted = None
                        how = None
                        inner = [mm for mm in k2.match_on(db, rs, EPT) if in_span(mm["sp"], arm["body_sp"])]
                        if len(inner) == 1:
                            acc = set()
                            for a2 in inner[0]["arms"]:
                                vs2, catch2 = k2.arm_variants(a2, EPT)
                                if catch2:
                                    vs2 = allv - {x for a3 in inner[0]["arms"] for x in k2.arm_variants(a3, EPT)[0]}
                                if "InvalidVectorArgument" not in errors_in(db, rs, a2["body_sp"]):
                                    acc |= vs2
                            accepted, how = acc, "match in the arm"
                        elif not inner:
                            helpers = []
                            for g in [rs] + db.closures_of(rs):
                                for bb, t, c in g.calls():
                                    if c and c.get("local") and in_span(t["sp"], arm["body_sp"]) and t["args"]:
                                        recv = fn_expr_operand(g, t["args"][0])
                                        hit = []
                                        walk_expr(recv, lambda n: hit.append(1) if n[0] == "field" and n[2] == "data_type" else None)
                                        if hit:
                                            try:
                                                helpers.append(db.fn(callee_path(c)))
                                            except KeyError:
                                                pass
                            helpers = [h for h in helpers if h is not None and k2.match_on(db, h, EPT)]
                            if len(helpers) == 1:
                                h = helpers[0]
                                hm = k2.match_on(db, h, EPT)[0]
                                acc = set()
                                decided = True
                                for a2 in hm["arms"]:
                                    vs2, catch2 = k2.arm_variants(a2, EPT)
                                    if catch2:
                                        vs2 = allv - {x for a3 in hm["arms"] for x in k2.arm_variants(a3, EPT)[0]}
                                    made = {s2["rv"]["a"]["variant"] for bb, s2 in aggregates(h) if in_span(s2["sp"], a2["body_sp"]) and s2["rv"]["a"]["path"].endswith(("option::Option", "result::Result"))}
                                    if made and made <= {"Some", "Ok"}:
                                        acc |= vs2
                                    elif made and made <= {"None", "Err"}:
                                        pass
                                    else:
                                        decided = False
                                if decided:
                                    accepted, how = acc, "match in helper " + h.path.rsplit("::", 1)[-1]
                        if accepted is None:
                            res.site(key, False, {"verdict": "undecided: the slot-kind decision is neither a match in the arm nor a recognised Option/Result helper"})
                            res.undecided.append("scalar-argument-slot-kinds|%s: decision shape not recognised" % v)
                        else:
                            ok = accepted == {"Scalar"}
                            res.site(key, True, {"accepted_slot_kinds": sorted(accepted), "decided_by": how, "verdict": "ok" if ok else "VIOLATION"})
                            if not ok:
                                res.find(key, rs.loc(arm["sp"]), "a %s argument is accepted for slot kinds %s (decided by the %s); only a scalar slot may take it" % (v, sorted(accepted), how), "`CALL f xs[1]` resolves for `(xs : INTEGER[])`")
                    if v == "Immediate":
                        key = "K7|immediate-tests-mutable"
                        reads_mut = False
                        for sp_, p in k2.places_in(rs):
                            if in_span(sp_, arm["body_sp"]) and any(isinstance(pr, dict) and pr.get("n") == "mutable" for pr in p["pr"]):
                                reads_mut = True
                        res.site(key, True, {"verdict": "ok" if reads_mut else "VIOLATION"})
                        if not reads_mut:
                            res.find(key, rs.loc(arm["sp"]), "the Immediate arm of resolve does not test the slot's `mutable` flag", "`CALL f 1.0` for a `mut` parameter resolves")
    # R3c a Mismatched* error is raised exactly when the declared type / size DIFFERS from the expected one
    nmis = 0
    for fn_name in ("resolve", "resolve_return"):
        hf = None
        try:
            hf = db.fn(UCA + "::" + fn_name)
        except KeyError:
            pass
        if hf is None:
            continue
        for g in [hf] + db.closures_of(hf):
            for bb, s_ in aggregates(g):
                a = s_["rv"]["a"]
                if not (a["path"].endswith(ERR) and a["variant"] in ("MismatchedScalar", "MismatchedVector")):
                    continue
                nmis += 1
                key = "K7|mismatch-error-on-inequality|%s|%s#%d" % (fn_name, a["variant"], nmis)
                verdict = None
                for sb, tgt in sorted(g.control_deps(bb, transitive=False)):
                    tt = g.blocks[sb]["t"]
                    if tt["k"] != "switch":
                        continue
                    e = fn_expr_operand(g, tt["d"])
                    if e[0] == "call" and e[1].rsplit("::", 1)[-1] in ("ne", "eq") and "PartialEq" in e[1]:
                        false_targets = [target for v, target in tt["ts"] if int(v) == 0]
                        on_true = bool(false_targets) and tgt not in false_targets
                        verdict = on_true == (e[1].rsplit("::", 1)[-1] == "ne")
                    elif e[0] == "bin" and e[1] in ("Ne", "Eq"):
                        false_targets = [target for v, target in tt["ts"] if int(v) == 0]
                        on_true = bool(false_targets) and tgt not in false_targets
                        verdict = on_true == (e[1] == "Ne")
                if verdict is None:
                    res.site(key, False, {"verdict": "undecided: the guarding comparison was not recognised"})
                    continue
                res.site(key, True, {"raised_when_types_differ": verdict, "verdict": "ok" if verdict else "VIOLATION"})
                if not verdict:
                    res.find(key, g.loc(s_["sp"]), "%s raises %s when the declared type or size EQUALS the expected one (and accepts it when it differs)" % (fn_name, a["variant"]), "`CALL f x` with `DECLARE x REAL` against `(x : REAL)` is rejected, against `(x : INTEGER)` it resolves")
    res.count("mismatch_error_sites", nmis, floor=4)
    # R4
    rr = require_fn(db, res, UCA + "::resolve_return")
    if rr:
        ms = k2.match_on(db, rr, UCA)
        key = "K8|return-slot"
        ok = False
        detail = {}
        if ms:
            m = ms[0]
            acc = set()
            catch_err = False
            for arm in m["arms"]:
                vs, catch = k2.arm_variants(arm, UCA)
                errs = errors_in(db, rr, arm["body_sp"])
                if vs and not errs:
                    acc |= vs
                if (catch or vs) and "ReturnArgument" in errs:
                    catch_err = True
            errs_all = {s["rv"]["a"]["variant"] for g in [rr] + db.closures_of(rr) for bb, s in aggregates(g) if s["rv"]["a"]["path"].endswith(ERR)}
            mut_true = False
            for bb, s in aggregates(rr):
                a = s["rv"]["a"]
                if a["path"].endswith("ResolvedCallArgument") and a["variant"] == "MemoryReference":
                    op = dict(zip(a["fields"], s["rv"]["ops"])).get("mutable")
                    e = fn_expr_operand(rr, op)
                    mut_true = e[0] == "const" and e[1] in (1, "true")
            detail = {"accepted": sorted(acc), "other_kinds_rejected": catch_err, "errors": sorted(errs_all), "mutable_true": mut_true}
            ok = acc == {"MemoryReference", "Identifier"} and catch_err and {"UndeclaredMemoryReference", "MismatchedScalar"} <= errs_all and mut_true
        res.site(key, True, dict(detail, verdict="ok" if ok else "VIOLATION"))
        if not ok:
            res.find(key, rr.loc(), "resolve_return no longer (accepts only MemoryReference | Identifier, looks the region up, compares the type, marks the slot mutable): %s" % detail, "`CALL f 1.0 x` with a return type resolves, or the return slot is not treated as written")
    res.explanation = "Field coverage of the extern writers, guard dominance of the argument-count check, per-arm error-variant tables of resolve / resolve_return (aggregates within HIR arm spans, closures included) against the documented rules."
    res.assumptions = ["IndexMap::get is the declarations lookup"]
    return res
