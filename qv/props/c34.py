"""C34 Placeholder resolution assigns unique, consistent values.

Decides:
  R1 (K2) Instruction::resolve_placeholders names every variant holding a Target in an explicit arm that resolves it,
          and sends everything else through get_qubits_mut, which (K2) reads every Qubit-holding field of every
          body-capable variant; Program::get_targets (used to collect labels) covers the same Target variants;
          get_qubits (collect) and get_qubits_mut (rewrite) cover the same variants;
  R2 (K7) default_target_resolver: candidate labels are tested for membership in the avoid-set in a loop and the chosen
          label is inserted into the avoid-set on every path; the avoid-set is seeded with every fixed target;
  R3 (K8) default_qubit_resolver: candidates come from an unbounded range filtered by non-membership in the set of fixed
          qubits, zipped with the de-duplicated (IndexSet) placeholders;
  R4 (K7) resolve_placeholders_with_custom_resolvers resolves every body instruction and then rebuilds the used-qubit cache.
Not decided: placeholder identity semantics (pointer equality)."""
from qv.engine import callee_path, fn_expr_operand
from qv.props import c17
from qv.props.common import in_span, require_fn
from qv.report import Result
from qv.rules import k2_coverage as k2

INSTRUCTION = "quil_rs::instruction::Instruction"
PROGRAM = "quil_rs::program::Program"
TARGET = "quil_rs::instruction::control_flow::Target"
QUBIT = "quil_rs::instruction::qubit::Qubit"


def calls_named(db, fns, name, recv_ty=None):
    out = []
    for f in fns:
        for bb, t, c in f.calls():
            if c and c.get("name") == name:
                p = callee_path(c)
                if recv_ty is None or recv_ty in p or (c.get("impl_self") is not None and recv_ty in db.ty_s(c["impl_self"])):
                    out.append((f, bb, t, c))
    return out


def run(ctx):
    res = Result("C34")
    db = ctx.db("quil_rs")
    res.rules += ["R1 (K2) traversal coverage for Target and Qubit", "R2 (K7) label uniqueness mechanism", "R3 (K8) qubit uniqueness mechanism", "R4 (K7) resolve all + rebuild cache"]
    rp = require_fn(db, res, INSTRUCTION + "::resolve_placeholders")
    gqm = require_fn(db, res, INSTRUCTION + "::get_qubits_mut")
    gq = require_fn(db, res, INSTRUCTION + "::get_qubits")
    gt = require_fn(db, res, PROGRAM + "::get_targets")
    dtr = require_fn(db, res, PROGRAM + "::default_target_resolver")
    dqr = require_fn(db, res, PROGRAM + "::default_qubit_resolver")
    rcr = require_fn(db, res, PROGRAM + "::resolve_placeholders_with_custom_resolvers")
    if not all((rp, gqm, gq, gt, dtr, dqr, rcr)):
        return res
    bc = c17.body_capable(db)
    tpred = k2.is_adt(TARGET)
    qpred = k2.is_adt(QUBIT)
    tvars = {v: p for v, p in k2.variants_holding(db, INSTRUCTION, tpred).items() if v in bc}  # the property is about the body
    res.analysed["variants_holding_target"] = sorted(tvars)

    # R1a resolve_placeholders / targets
    m = k2.match_on(db, rp, INSTRUCTION)
    if not m:
        res.missing_anchor("match in resolve_placeholders")
        return res
    m = m[0]
    cov = k2.pattern_coverage(db, m, INSTRUCTION, tpred)
    for v in sorted(tvars):
        key = "K2|resolve-target|%s" % v
        c = cov[v]
        ok = c["arm"] == "explicit"
        if ok:
            arm = next(a for a in m["arms"] if v in k2.arm_variants(a, INSTRUCTION)[0])
            ok = any(c2 and c2.get("name") == "resolve_placeholder" and in_span(t["sp"], arm["body_sp"]) for bb, t, c2 in rp.calls())
        res.site(key, True, {"variant": v, "arm": c["arm"], "verdict": "ok" if ok else "VIOLATION"})
        if not ok:
            res.find(key, rp.loc(), "Instruction::%s holds a Target but resolve_placeholders does not resolve it in an explicit arm" % v, "a label placeholder used in a %s instruction stays unresolved" % v)
    # catch-all -> get_qubits_mut
    catch = [a for a in m["arms"] if k2.arm_variants(a, INSTRUCTION)[1]]
    key = "K2|resolve-qubits-via-get_qubits_mut"
    ok = bool(catch) and any(c2 and callee_path(c2) == gqm.path and in_span(t["sp"], catch[0]["body_sp"]) for bb, t, c2 in rp.calls())
    res.site(key, True, {"verdict": "ok" if ok else "VIOLATION"})
    if not ok:
        res.find(key, rp.loc(), "the catch-all arm of resolve_placeholders does not resolve the qubits returned by get_qubits_mut", "a qubit placeholder in a gate stays unresolved")
    # R1b get_qubits_mut / get_qubits coverage over body-capable variants
    for fn, tag in ((gqm, "get_qubits_mut"), (gq, "get_qubits")):
        mm, cv = k2.coverage(db, fn, INSTRUCTION, qpred)
        if mm is None:
            res.missing_anchor("match in " + tag)
            continue
        for v in sorted(cv):
            if v not in bc:
                continue
            key = "K2|%s|%s" % (tag, v)
            ok = cv[v]["arm"] == "explicit" and not cv[v]["missing"]
            res.site(key, True, {"fn": tag, "variant": v, "missing": [".".join(p) for p in cv[v]["missing"]], "verdict": "ok" if ok else "VIOLATION"})
            if not ok:
                res.find(key, fn.loc(), "%s does not reach the Qubit(s) %s of body instruction kind %s: placeholders there are never collected / resolved" % (tag, [".".join(p[1:]) for p in cv[v]["missing"]], v), "a qubit placeholder inside a %s instruction survives resolve_placeholders, so to_quil fails" % v)
    # R1c get_targets covers the same variants
    gtfns = [gt] + db.closures_of(gt)
    got = set()
    for g in gtfns:
        for mm in k2.match_on(db, g, INSTRUCTION):
            for a in mm["arms"]:
                vs, _ = k2.arm_variants(a, INSTRUCTION)
                if any(b for b in k2.pattern_bound_paths(a["pat"])):
                    got |= vs
    key = "K4|get_targets-variants"
    ok = got == set(tvars)
    res.site(key, True, {"get_targets": sorted(got), "holding_target": sorted(tvars), "verdict": "ok" if ok else "VIOLATION"})
    if not ok:
        res.find(key, gt.loc(), "Program::get_targets collects targets from %s but Target values live in %s: existing labels are not all avoided / placeholders not all collected" % (sorted(got), sorted(tvars)), "a fixed label used only as a JUMP-WHEN target can collide with a resolved placeholder")

    # R2 default_target_resolver
    tf = [dtr] + db.closures_of(dtr)
    cont = calls_named(db, tf, "contains", "HashSet")
    ins = calls_named(db, tf, "insert", "HashSet")
    key = "K7|label-uniqueness"
    ok = False
    detail = {}
    for (f, bb, t, c) in cont:
        # the contains result must control a loop: its block is in a cycle
        in_loop = bb in f.reachable_blocks(f.succs(bb)[0]) if f.succs(bb) else False
        ins_same = [(g, b2) for (g, b2, t2, c2) in ins if g is f]
        covers = bool(ins_same) and f.all_paths_pass(0, {b2 for g, b2 in ins_same})
        detail = {"fn": f.path, "contains_in_loop": in_loop, "insert_on_all_paths": covers}
        if in_loop and covers:
            ok = True
    res.site(key, True, dict(detail, verdict="ok" if ok else "VIOLATION"))
    if not ok:
        res.find(key, dtr.loc(), "default_target_resolver does not (loop on membership in the avoid-set and then insert the chosen label on every path): two placeholders with the same base name, or a placeholder and an existing label, can resolve to the same label", "placeholders `a` and `a` (distinct) both resolve to `a_0`")
    seed = any(g is dtr for (g, b2, t2, c2) in ins) and any(c2 and callee_path(c2) == gt.path for bb, t, c2 in dtr.calls())
    key = "K7|avoid-set-seeded"
    res.site(key, True, {"verdict": "ok" if seed else "VIOLATION"})
    if not seed:
        res.find(key, dtr.loc(), "the avoid-set of default_target_resolver is not seeded from Program::get_targets", "an existing label `a_0` collides with the resolution of placeholder `a`")

    # R3 default_qubit_resolver
    qf = [dqr] + db.closures_of(dqr)
    filt = calls_named(db, [dqr], "filter")
    zipc = calls_named(db, [dqr], "zip")
    key = "K8|qubit-uniqueness"
    ok = False
    detail = {}
    if filt and zipc:
        f, bb, t, c = filt[0]
        recv_ty = db.ty_s(c["args"][0]) if c.get("args") else ""
        range_ok = "RangeFrom<u64>" in recv_ty
        clos = [g for g in db.closures_of(dqr) if any(c2 and c2.get("name") == "contains" and "HashSet" in callee_path(c2) for b2, t2, c2 in g.calls())]
        negated = False
        for g in clos:
            for i, j, s in g.stmts():
                if s["k"] == "assign" and s["rv"]["k"] == "un" and s["rv"]["op"] == "Not":
                    negated = True
        zf, zb, zt, zc = zipc[0]
        ztys = [db.ty_s(a) for a in zc.get("args", [])]
        zip_ok = any("IndexSet" in x or "indexmap::set" in x for x in ztys) and any("Filter" in x for x in ztys)
        detail = {"range_from_u64": range_ok, "filter_closure_tests_non_membership": bool(clos) and negated, "zip_of_indexset_and_filter": zip_ok}
        ok = range_ok and bool(clos) and negated and zip_ok
    res.site(key, True, dict(detail, verdict="ok" if ok else "VIOLATION"))
    if not ok:
        res.find(key, dqr.loc(), "default_qubit_resolver no longer draws candidates from `0..` filtered by non-membership in the fixed-qubit set zipped with the de-duplicated placeholder set (%s)" % detail, "a placeholder resolves to a fixed qubit already used by the body, or two placeholders share an index")
    # fixed qubits are recorded from get_qubits of every instruction
    key = "K7|fixed-qubits-collected"
    ok = any(c2 and callee_path(c2) == gq.path for bb, t, c2 in dqr.calls()) and bool(calls_named(db, [dqr], "insert", "HashSet")) and bool(calls_named(db, [dqr], "insert", "IndexSet") or calls_named(db, [dqr], "insert", "indexmap"))
    res.site(key, True, {"verdict": "ok" if ok else "VIOLATION"})
    if not ok:
        res.find(key, dqr.loc(), "default_qubit_resolver does not collect fixed qubits and placeholders from get_qubits of every body instruction", "a resolved qubit equals a fixed qubit of the body")

    # R4
    key = "K7|resolve-all-then-rebuild"
    rc = [bb for bb, t, c in rcr.calls() if c and callee_path(c) == rp.path]
    rb = {bb for bb, t, c in rcr.calls() if c and c.get("name") == "rebuild_used_qubits"}
    ok = bool(rc) and bool(rb) and rcr.all_paths_pass(0, rb)
    res.site(key, True, {"resolve_calls": len(rc), "rebuild_on_all_paths": bool(rb) and rcr.all_paths_pass(0, rb), "verdict": "ok" if ok else "VIOLATION"})
    if not ok:
        res.find(key, rcr.loc(), "resolve_placeholders_with_custom_resolvers does not resolve every instruction and then rebuild the used-qubit cache on every path", "after resolution get_used_qubits() still lists placeholders")
    # "custom resolvers replace exactly the placeholders they return values for": a placeholder the resolver declines must
    # not stop the others from being asked.  The caller's resolvers are handed to every instruction as they are; if they
    # are consulted beforehand instead, that pre-pass must not short-circuit on the first None
    key = "K7|every-placeholder-is-asked"
    fam_ = [rcr] + [g_ for g_ in db.fns if g_.path.startswith(rcr.path + "::{closure")]
    direct = False
    for bb, t, c in rcr.calls():
        if c and callee_path(c) == rp.path and len(t["args"]) >= 3:
            roots = []
            for a in t["args"][1:3]:
                e = fn_expr_operand(rcr, a)
                ps = []
                from qv.engine import walk_expr as _we34
                _we34(e, lambda n: ps.append(n[1]) if n[0] == "param" else None)
                roots.append(set(ps))
            direct = roots[0] == {2} and roots[1] == {3}
    SHORT = ("map_while", "take_while", "scan", "try_for_each", "try_fold", "find_map", "position", "all", "any")
    short = sorted({c.get("name") for g_ in fam_ for bb, t, c in g_.calls() if c and c.get("name") in SHORT})
    qmarks = [g_.path.rsplit("::", 1)[-1] for g_ in fam_[1:] if any(c and callee_path(c).endswith("Try>::branch") for bb, t, c in g_.calls())]
    ok = direct or not (short or qmarks)
    res.site(key, True, {"callers_resolvers_passed_on_unchanged": direct, "short_circuiting_adaptors": short, "closures_using_question_mark": qmarks, "verdict": "ok" if ok else "VIOLATION"})
    if not ok:
        res.find(key, rcr.loc(), "resolve_placeholders_with_custom_resolvers consults the caller's resolvers through %s: the first placeholder a resolver declines stops every later placeholder from being resolved" % (short + qmarks), "a custom qubit resolver that knows q2 but not q1, in a body where q1 appears first: q2 stays a placeholder")
    # identity of placeholders: two placeholders are the same iff they share the Arc allocation.  `address()` (used by
    # Hash / Ord / Eq) must be the address of the allocation itself, never something derived from the contents (an empty
    # String has no buffer: all empty-based label placeholders would collapse into one)
    from qv.engine import callee_path as _cp34
    nid = 0
    for tyname in ("quil_rs::instruction::control_flow::TargetPlaceholder", "quil_rs::instruction::qubit::QubitPlaceholder"):
        addr = [f_ for f_ in db.fns if f_.path == tyname + "::address"]
        eqs = [f_ for f_ in db.fns if f_.path == "<%s as std::cmp::PartialEq>::eq" % tyname]
        short = tyname.rsplit("::", 1)[-1]
        key = "K5|placeholder-identity|%s" % short
        if len(eqs) != 1:
            res.missing_anchor("PartialEq for " + short)
            continue
        fns_ = addr + eqs
        calls = sorted({_cp34(c) for f_ in fns_ for bb, t, c in f_.calls() if c})
        allowed = lambda p_: ("sync::Arc" in p_ and p_.rsplit("::", 1)[-1] in ("deref", "ptr_eq", "as_ptr")) or p_.endswith("::address") or ("for usize>" in p_) or p_.endswith("addr") or p_.endswith("expose_provenance") or p_ in ("core::ptr::from_ref", "core::ptr::eq", "core::ptr::addr_eq", "std::ptr::from_ref", "std::ptr::eq", "std::ptr::addr_eq") or p_.endswith("::cast")
        bad = [p_ for p_ in calls if not allowed(p_)]
        nid += 1
        ok = not bad and bool(calls)
        res.site(key, True, {"calls": [p_.rsplit("::", 2)[-2:] for p_ in calls], "verdict": "ok" if ok else "VIOLATION"})
        if not ok:
            res.find(key, fns_[0].loc(), "the identity of %s is derived through %s instead of the address of its Arc allocation: distinct placeholders can compare equal" % (short, [p_.rsplit("::", 2)[-2:] for p_ in bad]), "two label placeholders created with the empty base label are resolved to one and the same label")
    res.count("placeholder_identity_types", nid, floor=2)
    res.explanation = "Type-directed coverage of the placeholder traversals over the %d body-capable variants, plus structural checks of the two uniqueness mechanisms (membership loop + insertion on all paths; filtered unbounded range zipped with an IndexSet)." % len(bc)
    res.assumptions = ["IndexSet de-duplicates placeholders; HashSet::contains/insert as documented"]
    return res
