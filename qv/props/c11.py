"""C11 Program concatenation appends bodies and merges definitions.

Decides (K3 + direction): `AddAssign::add_assign(&mut self, rhs)` consumes every field of `rhs`,
and each flows into a mutating call (extend / merge) whose receiver is the *same-named* field of
`self` (so B's definitions override A's and A's order is kept, given the container semantics
decided under C08); `Add::add` is `add_assign` followed by returning `self`; the used-qubit cache is
unioned.  Not decided: override/ordering semantics inside the containers (trusted)."""
from qv.engine import callee_path, fn_expr_operand
from qv.report import Result
from qv.rules import k2_coverage as k2

PROGRAM = "quil_rs::program::Program"
MERGING = ("extend", "merge", "append", "extend_from_slice")


def run(ctx):
    res = Result("C11")
    db = ctx.db("quil_rs")
    res.rules += ["K3: add_assign moves every field of rhs into a merging call on the same-named field of self", "K8: Add::add = add_assign + return self"]
    aa = [f for f in db.trait_methods.get(("std::ops::AddAssign", "add_assign"), []) if f.impl_self_path() == PROGRAM]
    ad = [f for f in db.trait_methods.get(("std::ops::Add", "add"), []) if f.impl_self_path() == PROGRAM]
    adt = db.adts.get(PROGRAM)
    if len(aa) != 1 or not adt:
        res.missing_anchor("<Program as AddAssign>::add_assign")
        return res
    aa = aa[0]
    fields = [f["n"] for f in adt["variants"][0]["fields"]]
    pairs = {}
    for bb, t, c in aa.calls():
        if not c or len(t["args"]) < 2:
            continue
        recv = k2.expr_paths(fn_expr_operand(aa, t["args"][0]))
        arg = k2.expr_paths(fn_expr_operand(aa, t["args"][1]))
        r = [p[1][0] for p in recv if p[0] == 1 and p[1]]
        a = [p[1][0] for p in arg if p[0] == 2 and p[1]]
        if r and a:
            pairs.setdefault(a[0], []).append((r[0], c.get("name"), callee_path(c), t["sp"]))
    for f in fields:
        key = "K3|add-assign-field|%s" % f
        uses = pairs.get(f, [])
        ok = len(uses) == 1 and uses[0][0] == f and uses[0][1] in MERGING
        on_all_paths = None
        if ok:
            # the merge must happen on every path through add_assign (no early return / fast path around it)
            blocks = {bb for bb, t, c in aa.calls() if t["sp"] == uses[0][3]}
            on_all_paths = aa.all_paths_pass(0, blocks)
            ok = on_all_paths
        res.site(key, True, {"field": f, "merged_into": [(u[0], u[2]) for u in uses], "on_all_paths": on_all_paths, "verdict": "ok" if ok else "VIOLATION"})
        if not ok:
            if on_all_paths is False:
                res.find(key, aa.loc(uses[0][3]), "`rhs.%s` is merged into `self.%s` only on some paths of add_assign: another path (early return / fast path) skips the merge" % (f, f), "A += B where A is 'empty' by the fast path's test but still holds definitions (e.g. only calibrations)")
                continue
            if not uses:
                msg = "`rhs.%s` is never merged into `self`: the right operand's %s are dropped by A += B" % (f, f)
            elif uses[0][0] != f:
                msg = "`rhs.%s` is merged into `self.%s`" % (f, uses[0][0])
            else:
                msg = "`rhs.%s` reaches `self.%s` through %s, which is not a merging call (%s)" % (f, uses[0][0], uses[0][2], "/".join(MERGING))
            res.find(key, aa.loc(uses[0][3]) if uses else aa.loc(), msg, "A += B where only B has a %s entry: it is missing (or misplaced) in the result" % f)
    res.count("program_fields", len(fields), floor=9)
    # nested merge helpers (local functions `fn(&mut self, other: Self)`): same rule, recursively
    nnested = 0
    seen = set()
    work = [u[2] for us in pairs.values() for u in us]
    while work:
        path = work.pop()
        hs = db.by_path.get(path, [])
        if len(hs) != 1 or path in seen:
            continue
        seen.add(path)
        h = hs[0]
        sp_ = h.impl_self_path()
        hadt = db.adts.get(sp_)
        if not hadt or hadt["kind"] != "Struct" or h.argc != 2:
            continue
        if db.types[h.locals[2]["t"]].get("path") != sp_:
            continue  # second parameter is not `Self` (e.g. extend(iter))
        nnested += 1
        hp = {}
        for bb, t, c in h.calls():
            if not c or len(t["args"]) < 2:
                continue
            recv = [p_[1][0] for p_ in k2.expr_paths(fn_expr_operand(h, t["args"][0])) if p_[0] == 1 and p_[1]]
            arg = [p_[1][0] for p_ in k2.expr_paths(fn_expr_operand(h, t["args"][1])) if p_[0] == 2 and p_[1]]
            if recv and arg:
                hp.setdefault(arg[0], []).append((recv[0], c.get("name"), callee_path(c), t["sp"], bb))
                work.append(callee_path(c))
        for fl in hadt["variants"][0]["fields"]:
            key = "K3|merge-field|%s.%s" % (sp_, fl["n"])
            uses = hp.get(fl["n"], [])
            ok = len(uses) == 1 and uses[0][0] == fl["n"] and uses[0][1] in MERGING
            # and the merge happens on every path: not under a condition (a "nothing to do" fast path decided from part of
            # the other side drops the rest)
            conds = []
            if ok:
                for sb, tgt in h.control_deps(uses[0][4], transitive=False):
                    tt = h.blocks[sb]["t"]
                    conds.append(str(fn_expr_operand(h, tt["d"])[:2])[:70] if tt["k"] == "switch" else tt["k"])
                ok = not conds
            res.site(key, True, {"helper": h.path, "field": fl["n"], "merged_into": [(u[0], u[2]) for u in uses], "conditions": conds, "verdict": "ok" if ok else "VIOLATION"})
            if not ok:
                res.find(key, h.loc(), "%s does not merge `other.%s` into `self.%s` with a merging call on every path (found %s%s)" % (h.path, fl["n"], fl["n"], [(u[0], u[2]) for u in uses], (", only under " + str(conds)) if conds else ""), "A += B where only B holds an item in %s.%s" % (sp_.rsplit("::", 1)[-1], fl["n"]))
    res.count("nested_merge_helpers", nnested, floor=2)
    # no field of self is used as the argument (direction) and nothing else is written
    for a, uses in pairs.items():
        if a not in fields:
            res.find("K3|add-assign-unknown|%s" % a, aa.loc(), "add_assign merges an unknown field %s" % a)
    # Add::add
    key = "K8|add-is-add-assign"
    if len(ad) != 1:
        res.missing_anchor("<Program as Add>::add")
    else:
        ad = ad[0]
        callees = [callee_path(c) for bb, t, c in ad.calls() if c]
        calls_aa = [c for bb, t, c in ad.calls() if c and callee_path(c) == aa.path]
        from qv.engine import fn_expr_local

        ret = fn_expr_local(ad, 0)
        ok = len(calls_aa) == 1 and ret[0] == "param" and ret[1] == 1
        # argument direction: add_assign(&mut self, rhs)
        if ok:
            for bb, t, c in ad.calls():
                if c and callee_path(c) == aa.path:
                    a0 = k2.expr_paths(fn_expr_operand(ad, t["args"][0]))
                    a1 = k2.expr_paths(fn_expr_operand(ad, t["args"][1]))
                    ok = bool(a0 and a0[0][0] == 1 and a1 and a1[0][0] == 2)
        res.site(key, True, {"calls": callees, "returns": str(ret)[:60], "verdict": "ok" if ok else "VIOLATION"})
        if not ok:
            res.find(key, ad.loc(), "`Program + Program` is not `self += rhs; self`: calls %s, returns %s" % (callees, str(ret)[:80]), "A + B differs from A += B")
    res.explanation = "Field coverage and direction of <Program as AddAssign>::add_assign over %d fields (MIR provenance of each merging call's receiver and argument), and Add::add = add_assign + return self. Container merge semantics are trusted (C08)." % len(fields)
    res.assumptions = ["Vec::extend appends in order; IndexMap::extend / CalibrationSet::extend / FrameSet::merge override existing keys in place and append new ones"]
    return res
