"""C16 Calibration lookup follows the documented precedence rules.

Decides:
  R1 (K3) CalibrationIdentifier::matches reads all four signature components of the calibration and of the gate
          (name, modifiers, parameters, qubits);
  R2 (K8) its per-qubit table is {Placeholder on either side -> no match, Fixed/Fixed -> equality,
          Variable/anything -> match, Fixed/Variable -> no match} (first-match semantics over the match arms);
  R3 (K8) tie rule of get_match_for_gate: candidates are visited in definition order and a candidate replaces the
          incumbent when its fixed-qubit count is >= (equivalently: reverse order with >); MatchedCalibration counts
          exactly the Fixed qubits;
  R4 (K8) get_match_for_measurement visits calibrations in reverse definition order, requires equal name and equal
          presence of a target, classifies Fixed-equal as exact and Variable as wildcard, and returns exact.or(wildcard);
  R5 in-place replacement of an identical signature is decided under C08.
Not decided: parameter equality after simplification (depends on C12)."""
from qv.engine import callee_path, fn_expr_operand, fn_expr_local, walk_expr, expr_calls
from qv.props.common import require_fn
from qv.report import Result
from qv.rules import k2_coverage as k2
from qv.rules.guards import root
from qv.synq import find_all, src

CID = "quil_rs::instruction::calibration::CalibrationIdentifier"
GATE = "quil_rs::instruction::gate::Gate"
CAL = "quil_rs::program::calibration::Calibrations"
KINDS = ["Fixed", "Variable", "Placeholder"]
EXPECTED = {("Placeholder", k): "false" for k in KINDS}
EXPECTED.update({(k, "Placeholder"): "false" for k in KINDS})
EXPECTED.update({("Fixed", "Fixed"): "eq", ("Variable", "Fixed"): "true", ("Variable", "Variable"): "true", ("Fixed", "Variable"): "false"})


def pat_kind_matches(p, kind):
    k = p["k"]
    if k in ("wild", "ident"):
        return True
    if k == "ref":
        return pat_kind_matches(p["p"], kind)
    if k in ("tstruct", "path", "struct"):
        return (p.get("path") or p.get("p")).split("::")[-1] == kind
    if k == "or":
        return any(pat_kind_matches(x, kind) for x in p["ps"])
    return False


def _root_is_param(e, idx):
    while e[0] in ("field", "as", "cast"):
        e = e[1] if e[0] != "cast" else e[2]
    return e[0] == "param" and e[1] == idx


def run(ctx):
    res = Result("C16")
    db = ctx.db("quil_rs")
    syn = ctx.syn()
    res.rules += ["R1 (K3) matcher reads every signature component", "R2 (K8) per-qubit match table", "R3 (K8) tie rule toward the later definition", "R4 (K8) measurement lookup order and preference"]
    mt = require_fn(db, res, CID + "::matches")
    gmg = require_fn(db, res, CAL + "::get_match_for_gate")
    gmm = require_fn(db, res, CAL + "::get_match_for_measurement")
    if not (mt and gmg and gmm):
        return res
    # R1
    for param, adt, label in ((1, CID, "calibration"), (2, GATE, "gate")):
        reads = k2.deep_read_paths(db, mt, param)
        for fld in ("name", "modifiers", "parameters", "qubits"):
            key = "K3|matches-reads|%s.%s" % (label, fld)
            ok = k2.has_prefix(reads, (fld,))
            res.site(key, True, {"side": label, "field": fld, "verdict": "ok" if ok else "VIOLATION"})
            if not ok:
                res.find(key, mt.loc(), "CalibrationIdentifier::matches never reads the %s's `%s`: calibrations differing only in it match the same gates" % (label, fld), "`DEFCAL DAGGER X 0` matching a plain `X 0` (or the analogous case for %s)" % fld)
    # R1b the whole-signature components are compared exactly: name and modifiers by (in)equality of the two fields
    #     themselves (a modifier list is an ordered sequence: DAGGER CONTROLLED differs from CONTROLLED DAGGER), the
    #     parameter and qubit counts by (in)equality of the two lengths
    from qv.engine import fn_expr_operand as _op
    cmp_found = {}

    def _rejects(start):
        """does control reach `return false` from block `start` without another decision?"""
        b_, seen_ = start, set()
        while b_ is not None and b_ not in seen_:
            seen_.add(b_)
            for st_ in mt.blocks[b_]["s"]:
                if st_["k"] == "assign" and st_["p"]["l"] == 0 and not st_["p"]["pr"] and st_["rv"]["k"] == "use" and "k" in st_["rv"]["o"]:
                    return st_["rv"]["o"]["k"].get("s") == "false"
            t_ = mt.blocks[b_]["t"]
            b_ = t_["t"] if t_["k"] == "goto" else None
        return False

    def _polarity(tt, is_ne):
        """'==' when the side on which the two values DIFFER leads straight to `return false`"""
        false_targets = [target for v, target in tt["ts"] if int(v) == 0]
        true_target = tt["else"] if false_targets else None
        differs_target = (true_target if is_ne else (false_targets[0] if false_targets else None))
        return "==" if differs_target is not None and _rejects(differs_target) else "differs-side does not reject"

    for sb in range(len(mt.blocks)):
        tt = mt.blocks[sb]["t"]
        if tt["k"] != "switch":
            continue
        e = _op(mt, tt["d"])
        if e[0] == "call" and e[1] and e[1].rsplit("::", 1)[-1] in ("ne", "eq") and len(e[2]) == 2:
            a_, b_ = e[2]
            if a_[0] == "field" and b_[0] == "field" and a_[2] == b_[2] and {a_[1][0], b_[1][0]} == {"param"} and a_[1][1] != b_[1][1]:
                cmp_found[a_[2]] = _polarity(tt, e[1].rsplit("::", 1)[-1] == "ne")
        if e[0] == "bin" and e[1] in ("Ne", "Eq"):
            a_, b_ = e[2], e[3]
            if all(x[0] == "call" and x[1].endswith("::len") and x[2] and x[2][0][0] == "field" for x in (a_, b_)) and a_[2][0][2] == b_[2][0][2] and a_[2][0][1] != b_[2][0][1]:
                cmp_found[a_[2][0][2] + ".len"] = _polarity(tt, e[1] == "Ne")
    for comp in ("name", "modifiers", "parameters.len", "qubits.len"):
        key = "K8|matches-exact|%s" % comp
        ok = cmp_found.get(comp) == "=="
        res.site(key, True, {"component": comp, "comparison": cmp_found.get(comp), "verdict": "ok" if ok else "VIOLATION"})
        if not ok:
            res.find(key, mt.loc(), "CalibrationIdentifier::matches does not compare `%s` of the calibration and of the gate for plain equality" % comp, "`DAGGER CONTROLLED X 1 0` matches `DEFCAL CONTROLLED DAGGER X 1 0`")
    # R2 table from syntax
    sf = syn.fn_for(mt)
    tab = None
    if sf:
        for m in find_all(sf["body"], lambda n: n.get("k") == "match"):
            e = m["e"]
            if e.get("k") == "tuple" and len(e["es"]) == 2 and all("qubits" in src(x) for x in e["es"]):
                tab = m
    if not tab:
        res.missing_anchor("per-qubit match table in CalibrationIdentifier::matches")
    else:
        # which tuple position is the calibration's qubit?
        first_is_cal = "self" in src(tab["e"]["es"][0])
        for (ck, gk), want in sorted(EXPECTED.items()):
            got = None
            for arm in tab["arms"]:
                alts = arm["pat"]["ps"] if arm["pat"]["k"] == "or" else [arm["pat"]]
                hit = False
                for a in alts:
                    if a["k"] == "tuple" and len(a["ps"]) == 2:
                        pc, pg = (a["ps"][0], a["ps"][1]) if first_is_cal else (a["ps"][1], a["ps"][0])
                        if pat_kind_matches(pc, ck) and pat_kind_matches(pg, gk):
                            hit = True
                    elif a["k"] == "wild":
                        hit = True
                if hit:
                    b = arm["body"]
                    while b.get("k") == "block" and len(b["stmts"]) == 1 and b["stmts"][0]["k"] == "expr":
                        b = b["stmts"][0]["e"]
                    if b.get("k") == "lit" and b["t"] == "bool":
                        got = "true" if b["v"] else "false"
                    elif b.get("k") == "bin" and b["op"] == "==":
                        got = "eq"
                    else:
                        got = src(b)[:40]
                    break
            key = "K8|qubit-table|%s/%s" % (ck, gk)
            ok = got == want
            res.site(key, True, {"calibration_qubit": ck, "gate_qubit": gk, "result": got, "expected": want, "verdict": "ok" if ok else "VIOLATION"})
            if not ok:
                res.find(key, mt.loc(), "a %s calibration qubit against a %s gate qubit yields `%s`, the documented rule says `%s`" % (ck, gk, got, want), "`DEFCAL X %s:` looked up for `X %s`" % ({"Fixed": "0", "Variable": "q", "Placeholder": "<placeholder>"}[ck], {"Fixed": "1", "Variable": "q", "Placeholder": "<placeholder>"}[gk]))
    # R3 tie rule
    cmpop = None
    for i, j, s in gmg.stmts():
        if s["k"] == "assign" and s["rv"]["k"] == "bin" and s["rv"]["op"] in ("Ge", "Gt", "Le", "Lt"):
            a = fn_expr_operand(gmg, s["rv"]["a"])
            b = fn_expr_operand(gmg, s["rv"]["b"])
            na, nb = [], []
            walk_expr(a, lambda n: na.append(n[2]) if n[0] == "field" else None)
            walk_expr(b, lambda n: nb.append(n[2]) if n[0] == "field" else None)
            if "fixed_qubit_count" in na and "fixed_qubit_count" in nb:
                # "new" = derives from a MatchedCalibration::new call; "old" = from the incumbent option payload
                def is_candidate(e):
                    # the candidate of this iteration is directly `MatchedCalibration::new(..).fixed_qubit_count`;
                    # the incumbent is read out of the running best (an Option / phi)
                    r, pth = root(e)
                    return r[0] == "call" and "MatchedCalibration" in r[1] and r[1].endswith("::new") and pth == ("fixed_qubit_count",)

                a_new, b_new = is_candidate(a), is_candidate(b)
                cmpop = (s["rv"]["op"], a_new, b_new, s["sp"])
    reversed_iter = any(c and c.get("name") == "rev" for bb, t, c in gmg.calls())
    key = "K8|gate-tie-rule"
    ok = False
    if cmpop:
        op, a_new, b_new, sp = cmpop
        if a_new and not b_new:
            ties_to_new = op == "Ge"
            strict_new = op == "Gt"
        elif b_new and not a_new:
            ties_to_new = op == "Le"
            strict_new = op == "Lt"
        else:
            ties_to_new = strict_new = False
        ok = (ties_to_new and not reversed_iter) or (strict_new and reversed_iter)
        res.site(key, True, {"comparison": op, "left_is_candidate": a_new, "right_is_candidate": b_new, "reverse_iteration": reversed_iter, "verdict": "ok" if ok else "VIOLATION"})
    else:
        res.site(key, True, {"verdict": "VIOLATION: comparison of fixed-qubit counts not found"})
    if not ok:
        res.find(key, gmg.loc(cmpop[3]) if cmpop else gmg.loc(), "among matching calibrations with equally many fixed qubits, get_match_for_gate does not prefer the later definition (comparison %s, reverse iteration: %s)" % (cmpop[:3] if cmpop else None, reversed_iter), "`DEFCAL X 0: <A>` then `DEFCAL X 0 ...` with a different but equally specific signature, e.g. two variable-qubit calibrations `DEFCAL X q: A`, `DEFCAL X r: B`: `X 0` must expand to B")
    # MatchedCalibration::new counts Fixed qubits
    mcn = [f for f in db.fns if "MatchedCalibration" in f.path and f.name == "new"]
    key = "K8|fixed-qubit-count"
    ok = False
    if mcn:
        sfm = syn.fn_for(mcn[0])
        if sfm:
            ms = find_all(sfm["body"], lambda n: n.get("k") == "match")
            for m in ms:
                t = {}
                for arm in m["arms"]:
                    alts = arm["pat"]["ps"] if arm["pat"]["k"] == "or" else [arm["pat"]]
                    for a in alts:
                        nm = (a.get("path") or a.get("p") or "_").split("::")[-1] if a["k"] != "wild" else "_"
                        t[nm] = src(arm["body"])
                ok = t.get("Fixed") == "True" and all(v == "False" for k_, v in t.items() if k_ != "Fixed") and any(c and c.get("name") == "count" for g in [mcn[0]] + db.closures_of(mcn[0]) for bb, tt, c in g.calls())
                res.site(key, True, {"table": t, "verdict": "ok" if ok else "VIOLATION"})
    if not ok:
        res.find(key, mcn[0].loc() if mcn else gmg.loc(), "MatchedCalibration::new does not count exactly the Fixed qubits of the calibration identifier", "a calibration with more fixed qubits loses against a more general one")
    # R4 measurement
    sfm = syn.fn_for(gmm)
    key = "K8|measurement-lookup"
    detail = {}
    if sfm:
        chain = src(sfm["body"])
        has_rev = any(c and c.get("name") == "rev" for bb, t, c in gmm.calls())
        clos = db.closures_of(gmm)
        # name equality and target presence equality in the filter closure
        name_eq = any(c and c.get("name") in ("eq", "ne") for g in clos for bb, t, c in g.calls())
        is_some_n = sum(1 for g in clos for bb, t, c in g.calls() if c and c.get("name") == "is_some")
        # final: Option::or(exact, wildcard)
        or_ok = False
        for bb, t, c in gmm.calls():
            if c and c.get("name") == "or" and "Option" in callee_path(c) and len(t["args"]) == 2:
                n0 = gmm.local_name((t["args"][0].get("m") or t["args"][0].get("c") or {}).get("l", 0))
                n1 = gmm.local_name((t["args"][1].get("m") or t["args"][1].get("c") or {}).get("l", 0))
                e0 = fn_expr_operand(gmm, t["args"][0])
                e1 = fn_expr_operand(gmm, t["args"][1])
                # partition_map result: .0 = Left = exact, .1 = Right = wildcard
                p0 = root(e0)[1]
                p1 = root(e1)[1]
                or_ok = (p0[:1] == ("0",) and p1[:1] == ("1",))
        # classification table in the closure: Fixed (guard ==) -> true ; Variable -> false
        tab_ok = False
        for m in find_all(sfm["body"], lambda n: n.get("k") == "match"):
            rows = {}
            for arm in m["arms"]:
                ps = src(arm["pat"])
                rows[ps] = (src(arm["guard"]) if arm.get("guard") else None, src(arm["body"]))
            fixed_rows = [(g, b) for p, (g, b) in rows.items() if "Fixed" in p and "|" not in p]
            var_rows = [(g, b) for p, (g, b) in rows.items() if p.startswith("Qubit::Variable")]
            if fixed_rows and var_rows:
                tab_ok = any(g and "==" in g and b.replace(" ", "").endswith("True))") for g, b in fixed_rows) and any(b.replace(" ", "").endswith("False))") for g, b in var_rows)
        # Left for exact
        lr_ok = False
        for iff in find_all(sfm["body"], lambda n: n.get("k") == "if"):
            if src(iff["c"]) == "exact":
                lr_ok = "Either::Left" in src(iff["t"]) and "Either::Right" in src(iff["f"])
        detail = {"reverse_iteration": has_rev, "name_compared": name_eq, "target_presence_compared": is_some_n >= 2, "classification_table": tab_ok, "exact_is_left": lr_ok, "returns_exact_or_wildcard": or_ok}
    ok = bool(detail) and all(detail.values())
    res.site(key, True, dict(detail, verdict="ok" if ok else "VIOLATION"))
    if not ok:
        res.find(key, gmm.loc(), "get_match_for_measurement no longer implements (reverse definition order; same name; same target presence; exact fixed-qubit match preferred over a variable one): %s" % {k_: v for k_, v in detail.items() if not v}, "`DEFCAL MEASURE q addr: A` and `DEFCAL MEASURE 0 addr: B`: `MEASURE 0 ro` must use B; with two variable ones the later wins")
    # in-place replacement of a redefined calibration (shared with C08)
    from qv.props.c08 import in_place_replace_rule
    in_place_replace_rule(db, res)
    # R5 "identical signature": has_signature is an equality of the whole signature.  Accepted: `self.signature() == *sig`;
    # a hand-written comparison is accepted too unless it compares a derived property of a component (is_some, len,
    # starts_with, ...) instead of the component: then two different signatures replace each other
    WEAK = ("is_some", "is_none", "len", "is_empty", "starts_with", "ends_with", "contains", "eq_ignore_ascii_case", "to_lowercase", "to_uppercase", "first", "last", "count")
    nsig = 0
    for hs in [f_ for f_ in db.fns if f_.name == "has_signature" and "calibration" in f_.path]:
        nsig += 1
        short = (hs.impl_self_path() or hs.path).rsplit("::", 1)[-1]
        key = "K8|signature-equality|%s" % short
        ret = fn_expr_local(hs, 0)
        whole = ret[0] == "call" and ret[1].rsplit("::", 1)[-1] in ("eq", "ne") and any(a[0] == "call" and a[1].rsplit("::", 1)[-1] == "signature" for a in ret[2]) and any(_root_is_param(a, 2) for a in ret[2])
        weak = sorted({c.get("name") for g_ in [hs] + db.closures_of(hs) for bb, t, c in g_.calls() if c and c.get("name") in WEAK})
        ok = whole or not weak
        res.site(key, True, {"whole_signature_equality": whole, "derived_property_comparisons": weak, "verdict": "ok" if ok else "VIOLATION"})
        if not ok:
            res.find(key, hs.loc(), "%s::has_signature compares a derived property of a signature component (%s) instead of the component: calibrations with different signatures count as identical and replace each other" % (short, weak), "`DEFCAL MEASURE q addr`, `DEFCAL MEASURE r addr`, `DEFCAL MEASURE q dest`: the third overwrites the first in place and `MEASURE 0 ro` picks the second")
    res.count("signature_predicates", nsig, floor=2)
    res.explanation = "Field coverage of the matcher (MIR reads of both operands), first-match evaluation of the per-qubit table from the source arms against the documented table, and the tie / order / preference structure of both lookup functions."
    res.assumptions = ["iter_calibrations / iter_measure_calibrations iterate in definition order (C08)"]
    return res
