"""C30 Type checking is per-instruction and follows the typing rules.

Decides:
  R1 (K5) `type_check` carries no state across instructions: no local defined before the loop is written inside it
          (other than the iterator), and every call in the loop body receives only the current instruction, parts of
          it, and `program.memory_regions` => the verdict is per-instruction, order- and duplication-independent;
  R2 (K2) `should_be_real` names every Expression variant explicitly, recurses into every child of every variant
          with sub-expressions, and every recursive verdict reaches the return value; Variable is an error;
          Address is looked up in the declarations and compared with REAL;
  R3 (K8) every instruction kind whose payload is (frame, expression) — the five SET-*/SHIFT-* kinds, computed from
          the ADT definitions — is checked with should_be_real on its expression field;
  R4 (K5) no string constant is compared with a region name anywhere in the type checker (renaming invariance).
Not decided: the scalar typing tables of the classical instructions."""
from qv.engine import callee_path, fn_expr_operand, fn_expr_local, walk_expr, expr_calls
from qv.props.common import in_span, require_fn, reach_from
from qv.report import Result
from qv.rules import k2_coverage as k2
from qv.rules.guards import root

INSTRUCTION = "quil_rs::instruction::Instruction"
EXPRESSION = "quil_rs::expression::Expression"
FRAMEID = "quil_rs::instruction::frame::FrameIdentifier"
TC = "quil_rs::program::type_check"


def _mentions_im(e):
    hit = []
    walk_expr(e, lambda n: hit.append(1) if n[0] == "field" and n[2] == "im" else None)
    return bool(hit)


def run(ctx):
    res = Result("C30")
    db = ctx.db("quil_rs")
    res.rules += ["R1 (K5) no cross-instruction state", "R2 (K2) should_be_real coverage and propagation", "R3 (K8) SET-*/SHIFT-* expressions are checked", "R4 (K5) no name constants"]
    tc = require_fn(db, res, TC + "::type_check")
    sbr = require_fn(db, res, TC + "::should_be_real")
    if not (tc and sbr):
        return res
    # ---- R1 loop-carried state
    nexts = [(bb, t) for bb, t, c in tc.calls() if c and c.get("name") == "next" and c.get("trait") == "std::iter::Iterator"]
    if len(nexts) != 1:
        res.missing_anchor("the single instruction loop of type_check")
        return res
    nb, nt = nexts[0]
    loop = {b for b in tc.reachable_blocks(nb) if nb in tc.reachable_blocks(b)}
    iter_locals = set(tc.backward_slice(tc.operand_locals(nt["args"][0])))
    carried = []
    for l, ds in tc.defs().items():
        if l == 0 or l in iter_locals:
            continue
        blocks = {d[1] for d in ds}
        inside = blocks & loop
        outside = blocks - loop
        if inside and outside:
            carried.append((l, tc.local_name(l)))
        # mutable borrows inside the loop of a local defined outside
    for i, j, s in tc.stmts():
        if i in loop and s["k"] == "assign" and s["rv"]["k"] == "ref" and s["rv"].get("m") == "mut":
            l = s["rv"]["p"]["l"]
            ds = tc.defs().get(l, [])
            if l not in iter_locals and ds and all(d[1] not in loop for d in ds):
                carried.append((l, tc.local_name(l)))
    key = "K5|no-loop-carried-state"
    res.site(key, True, {"loop_blocks": len(loop), "carried_locals": carried, "verdict": "ok" if not carried else "VIOLATION"})
    if carried:
        res.find(key, tc.loc(), "type_check keeps state across instructions (locals %s are defined before the loop and written inside it): the verdict for one instruction can depend on the others" % carried, "reordering or duplicating instructions changes the verdict")
    # arguments of calls in the loop body
    item = ("call", nt)
    bad_args = []
    ncalls = 0
    for bb, t, c in tc.calls():
        if bb not in loop or not c or t is nt:
            continue
        p = callee_path(c)
        if not p.startswith(TC + "::"):
            continue
        ncalls += 1
        for a in t["args"]:
            e = fn_expr_operand(tc, a)
            r, pth = root(e)
            ok = (r[0] == "call" and r[1].endswith("::next") and r[3] == nb) or (r[0] == "param" and r[1] == 1 and pth[:1] == ("memory_regions",)) or r[0] == "const"
            if not ok:
                bad_args.append((p.rsplit("::", 1)[-1], str(r)[:60], pth))
    key = "K5|checker-inputs"
    res.site(key, True, {"checker_calls_in_loop": ncalls, "foreign_inputs": bad_args, "verdict": "ok" if not bad_args and ncalls >= 10 else "VIOLATION"})
    if bad_args or ncalls < 10:
        res.find(key, tc.loc(), "a per-instruction checker receives something other than the current instruction and program.memory_regions: %s (calls: %d)" % (bad_args, ncalls), "the verdict of an instruction depends on its position or on other instructions")
    # ---- R2 should_be_real
    ms = k2.match_on(db, sbr, EXPRESSION)
    if not ms:
        res.missing_anchor("match in should_be_real")
        return res
    m = max(ms, key=lambda x: len(x["arms"]))
    epred = k2.is_adt(EXPRESSION)
    cov = k2.pattern_coverage(db, m, EXPRESSION, epred)
    any_catch = any(k2.arm_variants(a, EXPRESSION)[1] for a in m["arms"])
    key = "K2|should_be_real|catch-all"
    res.site(key, True, {"catch_all": any_catch, "verdict": "ok" if not any_catch else "VIOLATION"})
    if any_catch:
        res.find(key, sbr.loc(), "should_be_real has a catch-all arm: some expression kind is accepted (or rejected) without being inspected", "`SET-PHASE 0 \"xy\" %x` or a non-REAL reference nested in an unlisted node kind type-checks")
    ret = fn_expr_local(sbr, 0)
    ret_calls = {c[3] for c in expr_calls(ret) if c[1] == sbr.path}
    for v in sorted(cov):
        c = cov[v]
        arm = next((a for a in m["arms"] if v in k2.arm_variants(a, EXPRESSION)[0]), None)
        rec = [bb for bb, t, cc in sbr.calls() if cc and callee_path(cc) == sbr.path and arm and in_span(t["sp"], arm["body_sp"])]
        reach_ret = [bb for bb in rec if bb in ret_calls]
        ok = c["arm"] == "explicit" and not c["missing"] and len(rec) >= len(c["required"]) and len(reach_ret) == len(rec)
        key = "K2|should_be_real|%s" % v
        res.site(key, True, {"variant": v, "children": [".".join(p[1:]) for p in c["required"]], "recursive_calls": len(rec), "verdicts_reaching_return": len(reach_ret), "verdict": "ok" if ok else "VIOLATION"})
        if not ok:
            res.find(key, sbr.loc(arm["sp"]) if arm else sbr.loc(), "should_be_real does not check every sub-expression of Expression::%s and propagate its verdict (children %s, recursive calls %d, reaching the result %d)" % (v, [".".join(p[1:]) for p in c["required"]], len(rec), len(reach_ret)), "`SET-FREQUENCY 0 \"xy\" 1 + %x` (a variable in the right operand) type-checks")
    # Variable -> error, Address -> lookup
    for v, need in (("Variable", "real_value_required"), ("Address", "get")):
        arm = next((a for a in m["arms"] if v in k2.arm_variants(a, EXPRESSION)[0]), None)
        names = {cc.get("name") for bb, t, cc in sbr.calls() if cc and arm and in_span(t["sp"], arm["body_sp"])}
        ok = arm is not None and need in names
        key = "K8|should_be_real-leaf|%s" % v
        res.site(key, True, {"variant": v, "calls": sorted(x for x in names if x), "verdict": "ok" if ok else "VIOLATION"})
        if not ok:
            res.find(key, sbr.loc(), "should_be_real does not %s for Expression::%s" % ("report an error" if v == "Variable" else "look the region up in the declarations", v), "`SET-SCALE 0 \"xy\" %x` type-checks" if v == "Variable" else "an undeclared or INTEGER region is accepted as real")
    # Number: a literal is real iff its imaginary part vanishes, whatever its sign: the test is on |im| (or im != 0) and the
    # error is reported on the non-zero side
    key = "K7|number-leaf-sign-symmetric"
    arm = next((a for a in m["arms"] if "Number" in k2.arm_variants(a, EXPRESSION)[0]), None)
    tests = []
    for bi, b in enumerate(sbr.blocks):
        t = b["t"]
        if t["k"] != "switch":
            continue
        d = fn_expr_operand(sbr, t["d"])
        mentions = []
        walk_expr(d, lambda n: mentions.append(n) if n[0] == "field" and n[2] in ("im", "re") and n[1][0] == "field" and n[1][1][0] == "as" and n[1][1][2] == "Number" else None)
        if mentions:
            tests.append((bi, t, d, mentions))
    ok = False
    detail = {"tests_on_the_literal": len(tests)}
    if arm is not None and len(tests) == 1:
        bi, t, d, mentions = tests[0]
        only_im = all(n[2] == "im" for n in mentions)
        shape = None
        if d[0] == "bin" and d[1] in ("Gt", "Ge", "Lt", "Le", "Eq", "Ne"):
            sides = [d[2], d[3]]
            imside = [x for x in sides if _mentions_im(x)]
            other = [x for x in sides if not _mentions_im(x)]
            if len(imside) == 1 and len(other) == 1 and other[0][0] == "const":
                x = imside[0]
                under_abs = x[0] == "call" and x[1].endswith("::abs") and x[2][0][0] == "field" and x[2][0][2] == "im"
                bare = x[0] == "field" and x[2] == "im"
                try:
                    cval = float(other[0][1])
                except (TypeError, ValueError):
                    cval = None
                im_left = sides[0] is x
                if under_abs and cval is not None and 0.0 <= cval < 1e-9 and d[1] in ("Gt", "Ge", "Lt", "Le"):
                    # which side of the switch is "non-zero"?
                    nonzero_when_true = (d[1] in ("Gt", "Ge")) == im_left
                    shape = ("abs", nonzero_when_true)
                elif bare and cval == 0.0 and d[1] in ("Eq", "Ne"):
                    shape = ("cmp0", d[1] == "Ne")
        err_side_ok = False
        if shape:
            false_targets = [target for v, target in t["ts"] if int(v) == 0]
            errs = [bb for bb, tt, cc in sbr.calls() if cc and cc.get("name") == "real_value_required" and in_span(tt["sp"], arm["body_sp"])]
            if len(errs) == 1:
                deps = [x for x in sbr.control_deps(errs[0], transitive=False) if x[0] == bi]
                if len(deps) == 1:
                    on_true = deps[0][1] not in false_targets
                    err_side_ok = on_true == shape[1]
        ok = only_im and shape is not None and err_side_ok
        detail.update({"only_imaginary_part_tested": only_im, "shape": shape[0] if shape else None, "error_on_nonzero_side": err_side_ok})
    res.site(key, True, dict(detail, verdict="ok" if ok else "VIOLATION"))
    if not ok:
        res.find(key, sbr.loc(arm["sp"]) if arm else sbr.loc(), "should_be_real does not reject a number literal exactly when |imaginary part| is non-zero (%s)" % detail, "`SET-PHASE 0 \"xy\" x * (1-2i)` with the literal built through the API (imaginary part -2) type-checks")
    # Address: accepted exactly when the declared type IS Real: the type error sits on the "differs" side of the
    # comparison of the region's data type with ScalarType::Real
    key = "K7|address-leaf-real-accepted"
    arm_a = next((a for a in m["arms"] if "Address" in k2.arm_variants(a, EXPRESSION)[0]), None)
    ok = False
    detail = {}
    if arm_a is not None:
        errs = [bb for bb, tt, cc in sbr.calls() if cc and cc.get("name") == "real_value_required" and in_span(tt["sp"], arm_a["body_sp"])]
        detail["type_errors_in_arm"] = len(errs)
        if len(errs) == 1:
            for sb, tgt in sorted(sbr.control_deps(errs[0], transitive=False)):
                tt = sbr.blocks[sb]["t"]
                if tt["k"] != "switch":
                    continue
                e = fn_expr_operand(sbr, tt["d"])
                if e[0] == "call" and e[1].rsplit("::", 1)[-1] in ("eq", "ne") and len(e[2]) == 2:
                    names = []
                    walk_expr(e, lambda n: names.append(n[2]) if n[0] == "field" else None)
                    consts = [a_[1] for a_ in e[2] if a_[0] == "const" and isinstance(a_[1], str)]
                    is_real = False
                    for cpath in consts:
                        for h in db.fns:
                            if h.path == cpath:
                                for i_, j_, st in h.stmts():
                                    if st["k"] == "assign" and st["rv"]["k"] == "agg" and st["rv"]["a"].get("variant") == "Real":
                                        is_real = True
                    false_targets = [target for v, target in tt["ts"] if int(v) == 0]
                    on_true = bool(false_targets) and tgt not in false_targets
                    error_when_differs = on_true == (e[1].rsplit("::", 1)[-1] == "ne")
                    ok = "data_type" in names and is_real and error_when_differs
                    detail.update({"compares_data_type": "data_type" in names, "with_Real": is_real, "error_when_type_differs": error_when_differs})
    res.site(key, True, dict(detail, verdict="ok" if ok else "VIOLATION"))
    if not ok:
        res.find(key, sbr.loc(arm_a["sp"]) if arm_a else sbr.loc(), "should_be_real does not accept a memory reference exactly when its region is declared REAL (%s)" % detail, "`DECLARE x REAL; SET-PHASE 0 \"rf\" x` is rejected and an INTEGER region is accepted")
    # ---- R3 SET/SHIFT variants
    mt = k2.match_on(db, tc, INSTRUCTION)
    m2 = max(mt, key=lambda x: len(x["arms"])) if mt else None
    targets = []
    for v in db.adts[INSTRUCTION]["variants"]:
        if len(v["fields"]) != 1:
            continue
        pt = db.types[v["fields"][0]["t"]]
        adt = db.adts.get(pt.get("path", ""))
        if not adt or adt["kind"] != "Struct":
            continue
        fl = adt["variants"][0]["fields"]
        tys = [db.types[x["t"]] for x in fl]
        if len(fl) == 2 and any(t.get("path") == FRAMEID for t in tys) and any(t.get("path") == EXPRESSION for t in tys):
            ename = next(x["n"] for x, t in zip(fl, tys) if t.get("path") == EXPRESSION)
            targets.append((v["n"], ename))
    res.count("frame_expression_instruction_kinds", len(targets), floor=5)
    for v, ename in targets:
        key = "K8|real-valued-argument|%s" % v
        arm = next((a for a in m2["arms"] if v in k2.arm_variants(a, INSTRUCTION)[0]), None) if m2 else None
        ok = False
        if arm:
            for bb, t, cc in tc.calls():
                if cc and callee_path(cc) == sbr.path and in_span(t["sp"], arm["body_sp"]) and len(t["args"]) >= 2:
                    paths = k2.expr_paths(fn_expr_operand(tc, t["args"][1]))
                    e = fn_expr_operand(tc, t["args"][1])
                    names = []
                    walk_expr(e, lambda n: names.append(n[2]) if n[0] == "field" else None)
                    if ename in names:
                        ok = True
        res.site(key, True, {"variant": v, "expression_field": ename, "verdict": "ok" if ok else "VIOLATION"})
        if not ok:
            res.find(key, tc.loc(), "Instruction::%s carries a frame and an expression but type_check does not pass its `%s` to should_be_real" % (v, ename), "`%s 0 \"xy\" %%x` type-checks" % v)
    # ---- R4 no name constants
    parent, local = reach_from(ctx, [tc])
    nconst = 0
    for dp in local:
        g = db.by_dp.get(dp)
        if g is None or not g.path.startswith(TC):
            continue
        for bb, t, cc in g.calls():
            if cc and cc.get("name") in ("eq", "ne") and len(t["args"]) == 2:
                es = [fn_expr_operand(g, a) for a in t["args"]]
                consts = [e for e in es if e[0] == "const" and isinstance(e[1], str) and e[2] in ("&str", "std::string::String")]
                if consts:
                    nconst += 1
                    key = "K5|name-constant|%s" % g.path
                    res.site(key, True)
                    res.find(key, g.loc(t["sp"]), "the type checker compares a name with the string constant %r: the verdict is not invariant under consistent renaming of memory regions" % consts[0][1], "renaming region `%s` consistently changes the verdict" % consts[0][1])
    res.site("K5|name-constant", True, {"string_constant_comparisons": nconst, "verdict": "ok" if not nconst else "VIOLATION"})
    # R5 every declaration lookup reports an undeclared region: for each `memory_regions.get(..)` in the type checker the
    #    None outcome leads to an UndefinedMemoryReference error (match/if-let on the result, or ok_or(..)? on it)
    nlook = 0
    for g in db.fns:
        if not g.path.startswith(TC + "::"):
            continue
        gets = [(bb, t) for bb, t, c in g.calls() if c and c.get("name") == "get" and "IndexMap" in callee_path(c) and fn_expr_operand(g, t["args"][0])[0] in ("param", "field")]
        if not gets:
            continue
        # error producers in g: calls to undefined_memory_reference and constructions of the variant
        prods = [bb for bb, t, c in g.calls() if c and c.get("name") == "undefined_memory_reference"]
        for b_ in range(len(g.blocks)):
            for s_ in g.blocks[b_]["s"]:
                if s_["k"] == "assign" and s_["rv"]["k"] == "agg" and s_["rv"]["a"].get("variant") == "UndefinedMemoryReference":
                    prods.append(b_)
        for bb, t in gets:
            nlook += 1
            key = "K7|undeclared-reported|%s|get@%s" % (g.path.replace(TC + "::", ""), len([x for x in gets if x[0] < bb]))
            ok = False
            # (a) a producer control dependent on the discriminant of this very lookup
            for pb in prods:
                for sb, tgt in g.control_deps(pb, transitive=False):
                    tt = g.blocks[sb]["t"]
                    if tt["k"] == "switch":
                        e = fn_expr_operand(g, tt["d"])
                        if e[0] == "discr" and e[1][0] == "call" and e[1][1].endswith("::get") and e[1][3] == bb:
                            ok = True
            # (b) ok_or / ok_or_else on the lookup whose error value is the variant
            for b2, t2, c2 in g.calls():
                if c2 and c2.get("name") in ("ok_or", "ok_or_else"):
                    a = [fn_expr_operand(g, x) for x in t2["args"]]
                    if a[0][0] == "call" and a[0][1].endswith("::get") and a[0][3] == bb:
                        errv = a[1]
                        names = []
                        walk_expr(errv, lambda n: names.append(n[2]) if n[0] == "agg" else None)
                        if "UndefinedMemoryReference" in names:
                            ok = True
                        if errv[0] == "closure":
                            for h in db.by_path.get(errv[1], []):
                                if any(s_["k"] == "assign" and s_["rv"]["k"] == "agg" and s_["rv"]["a"].get("variant") == "UndefinedMemoryReference" for b_ in h.blocks for s_ in b_["s"]):
                                    ok = True
            res.site(key, True, {"verdict": "ok" if ok else "VIOLATION"})
            if not ok:
                res.find(key, g.loc(t.get("sp")), "%s looks a memory region up in the declarations but does not report UndefinedMemoryReference when it is not declared" % g.path.replace(TC + "::", ""), "`GE flag n[0] limit` with `limit` undeclared type-checks, and declaring `limit REAL` then makes the same program fail")
    res.count("declaration_lookups", nlook, floor=18)
    res.explanation = "Loop-carried-state and input-provenance analysis of type_check, type-directed coverage and verdict propagation in should_be_real, a type-computed list of (frame, expression) instruction kinds that must be checked for realness, and absence of name constants in the checker."
    res.assumptions = ["IndexMap::get by name is the only use of region names"]
    return res
