"""Shared extraction for the scheduling-graph properties C22, C23, C24:
facts about ScheduledBasicBlock::build and DependencyQueue read from MIR origin expressions."""
from qv.engine import callee_path, fn_expr_operand, fn_expr_local, walk_expr, expr_calls
from qv.props.common import aggregates
from qv.rules.guards import root

NODE = "quil_rs::program::scheduling::graph::ScheduledGraphNode"
EDEP = "quil_rs::program::scheduling::graph::ExecutionDependency"
IFI = "quil_rs::program::scheduling::graph::InstructionFrameInteraction"
MAT = "quil_rs::program::memory::MemoryAccessType"


def find_build(db):
    fs = [f for f in db.fns if f.kind == "AssocFn" and f.name == "build" and "ScheduledBasicBlock" in f.path]
    return fs[0] if len(fs) == 1 else None


def classify_node_expr(e):
    """'BlockStart' | 'BlockEnd' | ('loop', bb) for the current node of the main loop | ('drawn', [calls]) | 'other'"""
    if e[0] == "agg" and e[1] == NODE:
        return e[2]
    r, pth = root(e)
    if r[0] == "call":
        nm = r[1]
        if nm.endswith("Chain<A, B> as std::iter::Iterator>::next"):
            return ("loop", r[3])
        if nm.endswith("::next"):
            return ("drawn", [c[1] for c in expr_calls(r)] + [c[1] for a in r[2] for c in expr_calls(a)])
    if r[0] == "phi":
        kinds = [classify_node_expr(x) for x in r[1]]
        return kinds[0] if len(set(map(str, kinds))) == 1 else "other"
    return "other"


def edge_sites(db, f):
    """[(bb, line, source_class, target_class, {edge kinds constructed on that line}, source_expr)]"""
    kinds_by_line = {}
    for bb, s in aggregates(f, EDEP):
        kinds_by_line.setdefault(s["sp"][0], set()).add(s["rv"]["a"]["variant"])
    out = []
    for bb, t, c in f.calls():
        if c and c.get("name") == "add_edge" and "GraphMap" in callee_path(c) and len(t["args"]) >= 3:
            se = fn_expr_operand(f, t["args"][1])
            te = fn_expr_operand(f, t["args"][2])
            out.append((bb, t["sp"][0], classify_node_expr(se), classify_node_expr(te), kinds_by_line.get(t["sp"][0], set()), se, t))
    return out


def record_sites(db, f):
    """record_access_and_get_dependencies calls in f and its closures: dict(fn, bb, term, node_class, access const, recv expr)"""
    out = []
    for g in [f] + db.closures_of(f):
        for bb, t, c in g.calls():
            if c and c.get("name") == "record_access_and_get_dependencies" and len(t["args"]) == 3:
                acc = fn_expr_operand(g, t["args"][2])
                out.append({"fn": g, "bb": bb, "t": t, "node": fn_expr_operand(g, t["args"][1]), "access": acc, "recv": fn_expr_operand(g, t["args"][0])})
    return out
