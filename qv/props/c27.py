"""C27 Reported memory accesses match each instruction's semantics.

Decides: for every Instruction variant, which operand field flows into which of `reads` / `writes` / `captures`
of the MemoryAccesses value DefaultHandler::memory_accesses returns, compared with the specification table
(qv/oracles/memory_access_table.py).  Flows are computed from MIR origin expressions of the MemoryAccesses
aggregates, with summaries (parameter -> access kinds) of the local helper functions.  The match must have no
catch-all arm.  For CALL (Call::default_memory_accesses): every argument is read, the return slot is read and
written, and `writes` of an argument is control-dependent on the parameter's `mutable` flag.
Not decided: set contents at run time; index-level precision."""
from qv.engine import callee_path, fn_expr_operand, fn_expr_local, walk_expr
from qv.oracles import memory_access_table as oracle
from qv.props.common import in_span, aggregates
from qv.report import Result
from qv.rules import k2_coverage as k2

INSTRUCTION = "quil_rs::instruction::Instruction"
MA = "quil_rs::program::memory::MemoryAccesses"
KINDS = ("reads", "writes", "captures")


def param_leaves(e):
    out = set()
    walk_expr(e, lambda n: out.add(n[1]) if n[0] == "param" else None)
    return out


def summary(db, h, memo, depth=0):
    """param index -> set of access kinds that parameter flows into in the MemoryAccesses h returns"""
    if h.dp in memo:
        return memo[h.dp]
    memo[h.dp] = {}
    out = {}

    def from_expr(e):
        if e[0] == "agg" and e[1] == MA:
            for kind in KINDS:
                if kind in e[3]:
                    for p in param_leaves(e[3][kind]):
                        out.setdefault(p, set()).add(kind)
        elif e[0] == "phi":
            for x in e[1]:
                from_expr(x)
        elif e[0] == "call" and depth < 3:
            hs = db.by_path.get(e[1], [])
            if len(hs) == 1:
                sub = summary(db, hs[0], memo, depth + 1)
                for k, kinds in sub.items():
                    if k - 1 < len(e[2]):
                        for p in param_leaves(e[2][k - 1]):
                            out.setdefault(p, set()).update(kinds)

    from_expr(fn_expr_local(h, 0))
    # a set that is built first and extended afterwards (`let mut reads = access(d); reads.extend(access_operand(s));`):
    # what is added through a mutable borrow of the local that becomes a field of the returned value flows there too
    field_locals = {}
    for i, j, st in h.stmts():
        if st["k"] == "assign" and st["rv"]["k"] == "agg" and st["rv"]["a"]["k"] == "adt" and st["rv"]["a"]["path"] == MA:
            for kind, op in zip(st["rv"]["a"]["fields"], st["rv"]["ops"]):
                pl = op.get("m") or op.get("c")
                if pl and not pl["pr"] and kind in KINDS:
                    l_ = pl["l"]
                    for _ in range(4):  # the operand is usually a move of the named local
                        field_locals.setdefault(l_, set()).add(kind)
                        ds_ = h.defs().get(l_, [])
                        src_ = ds_[0][3]["rv"]["o"] if len(ds_) == 1 and ds_[0][0] == "s" and ds_[0][3]["k"] == "assign" and ds_[0][3]["rv"]["k"] == "use" else None
                        spl = (src_.get("m") or src_.get("c")) if src_ else None
                        if not spl or spl["pr"]:
                            break
                        l_ = spl["l"]
    if field_locals:
        for bb, t, c in h.calls():
            if not (c and c.get("name") in ("extend", "insert", "union", "append", "push") and len(t["args"]) >= 2):
                continue
            pl = t["args"][0].get("m") or t["args"][0].get("c")
            base = None
            hops = 0
            while pl is not None and hops < 3:
                if pl["l"] in field_locals and not [x for x in pl["pr"] if x != "*"]:
                    base = pl["l"]
                    break
                ds = h.defs().get(pl["l"], [])
                pl = ds[0][3]["rv"].get("p") if len(ds) == 1 and ds[0][0] == "s" and ds[0][3]["k"] == "assign" and ds[0][3]["rv"]["k"] == "ref" else None
                hops += 1
            if base is None:
                continue
            added = fn_expr_operand(h, t["args"][1])
            leaves = set(param_leaves(added))
            # through a local helper returning a set: map its parameters back to our arguments
            if added[0] == "call":
                hs = db.by_path.get(added[1], [])
                if len(hs) == 1 and depth < 3:
                    leaves = set()
                    inner = param_leaves(fn_expr_local(hs[0], 0))
                    for k in inner:
                        if k - 1 < len(added[2]):
                            leaves |= param_leaves(added[2][k - 1])
            for p_ in leaves:
                out.setdefault(p_, set()).update(field_locals[base])
    memo[h.dp] = out
    return out


def must_summary(db, h, memo, depth=0):
    """like summary, but a parameter counts for an access kind only if it flows there on EVERY path of h (phi -> intersection)"""
    if h.dp in memo:
        return memo[h.dp]
    memo[h.dp] = {}

    def from_expr(e):
        out = {}
        if e[0] == "agg" and e[1] == MA:
            for kind in KINDS:
                if kind in e[3]:
                    for p in must_leaves(e[3][kind]):
                        out.setdefault(p, set()).add(kind)
        elif e[0] == "phi":
            alts = [from_expr(x) for x in e[1]]
            for p in set().union(*[set(a) for a in alts]) if alts else ():
                common = set.intersection(*[a.get(p, set()) for a in alts])
                if common:
                    out[p] = common
        elif e[0] == "call" and depth < 3:
            hs = db.by_path.get(e[1], [])
            if len(hs) == 1:
                sub = must_summary(db, hs[0], memo, depth + 1)
                for k, kinds in sub.items():
                    if k - 1 < len(e[2]):
                        for p in must_leaves(e[2][k - 1]):
                            out.setdefault(p, set()).update(kinds)
        return out

    def must_leaves(e):
        # parameters that certainly flow into the set expression: through calls on every argument path, not through phis
        # unless in every alternative
        if e[0] == "param":
            return {e[1]}
        if e[0] == "phi":
            alts = [must_leaves(x) for x in e[1]]
            return set.intersection(*alts) if alts else set()
        if e[0] == "call":
            hs = db.by_path.get(e[1], [])
            out = set()
            if len(hs) == 1 and hs[0].path.count("::") and depth < 3:
                # a local helper returning a set: follow its return expression
                ret = fn_expr_local(hs[0], 0)
                inner = must_leaves(ret)
                for k in inner:
                    if k - 1 < len(e[2]):
                        out |= must_leaves(e[2][k - 1])
                return out
            for a in e[2]:
                out |= must_leaves(a)
            return out
        if e[0] in ("field", "as", "cast"):
            return must_leaves(e[1] if e[0] != "cast" else e[2])
        if e[0] == "agg":
            out = set()
            for v in e[3].values():
                out |= must_leaves(v)
            return out
        if e[0] in ("tuple", "array"):
            out = set()
            for v in e[1]:
                out |= must_leaves(v)
            return out
        return set()

    out = from_expr(fn_expr_local(h, 0))
    memo[h.dp] = out
    return out


def run(ctx):
    res = Result("C27")
    db = ctx.db("quil_rs")
    res.rules += ["K2 no catch-all; K5 operand -> access-kind flows per variant vs the specification table; CALL rule"]
    fs = [f for f in db.fns if f.path == "<quil_rs::instruction::DefaultHandler as quil_rs::instruction::InstructionHandler>::memory_accesses"]
    if len(fs) != 1 or MA not in db.adts:
        res.missing_anchor("DefaultHandler::memory_accesses / MemoryAccesses")
        return res
    f = fs[0]
    ms = k2.match_on(db, f, INSTRUCTION)
    if not ms:
        res.missing_anchor("match on Instruction in memory_accesses")
        return res
    m = max(ms, key=lambda x: sum(len(k2.arm_variants(a, INSTRUCTION)[0]) for a in x["arms"]))
    any_catch = any(k2.arm_variants(a, INSTRUCTION)[1] for a in m["arms"])
    res.site("K2|memory-accesses|catch-all", True, {"catch_all": any_catch, "verdict": "ok" if not any_catch else "VIOLATION"})
    if any_catch:
        res.find("K2|memory-accesses|catch-all", f.loc(), "memory_accesses has a catch-all arm: a new instruction kind silently reports no memory accesses")
    # parameter index of `instruction`
    ip = 3
    memo = {}
    flows = {}  # variant -> field -> kinds
    arm_of = {}
    for arm in m["arms"]:
        vs, _ = k2.arm_variants(arm, INSTRUCTION)
        span = arm["body_sp"]
        got = {}

        def add(e, kind):
            for n in _paths(e, ip):
                # n = ('as:V','0',field,...)
                if len(n) >= 3 and n[0].startswith("as:"):
                    got.setdefault((n[0][3:], n[2]), set()).add(kind)

        for bb, s in aggregates(f, MA):
            if in_span(s["sp"], span):
                ops = dict(zip(s["rv"]["a"]["fields"], s["rv"]["ops"]))
                for kind in KINDS:
                    add(fn_expr_operand(f, ops[kind]), kind)
        for bb, t, c in f.calls():
            if not c or not in_span(t["sp"], span):
                continue
            hs = db.by_path.get(callee_path(c), [])
            if len(hs) != 1 or db.ty_s(hs[0].raw.get("output", 0)) != MA and "MemoryAccesses" not in db.ty_s(hs[0].raw.get("output", 0)):
                continue
            sm = summary(db, hs[0], memo)
            for k, kinds in sm.items():
                if k - 1 < len(t["args"]):
                    ae = fn_expr_operand(f, t["args"][k - 1])
                    for kind in kinds:
                        add(ae, kind)
                    # the whole payload is handed over: attribute the kinds to the fields the callee reads of it
                    for n in [r[1] for r in k2.expr_paths(ae) if r[0] == ip]:
                        if len(n) == 2 and n[0].startswith("as:"):
                            for rp in k2.deep_read_paths(db, hs[0], k, 2):
                                if rp:
                                    for kind in kinds:
                                        got.setdefault((n[0][3:], rp[0]), set()).add(kind)
        for v in vs:
            arm_of[v] = arm
            for (vv, fld), kinds in got.items():
                if vv == v:
                    flows.setdefault(v, {}).setdefault(fld, set()).update(kinds)
    nrows = 0
    allv = {v["n"] for v in db.adts[INSTRUCTION]["variants"]}
    for v in sorted(allv):
        if v in oracle.RECURSIVE:
            continue
        want = oracle.TABLE.get(v, {} if v in oracle.NOTHING else None)
        if want is None:
            res.find("K8|memory-access-table|%s|unknown" % v, f.loc(), "Instruction::%s is not in the specification table of the checker (new instruction kind): its memory accesses cannot be judged" % v)
            continue
        got = flows.get(v, {})
        for fld in sorted(set(want) | set(got)):
            nrows += 1
            key = "K8|memory-access-table|%s.%s" % (v, fld)
            w = want.get(fld, set())
            g = got.get(fld, set())
            ok = w == g
            res.site(key, True, {"variant": v, "field": fld, "reported_as": sorted(g), "specification": sorted(w), "verdict": "ok" if ok else "VIOLATION"} if (not ok or nrows % 3 == 0) else None)
            if not ok:
                arm = arm_of.get(v)
                res.find(key, f.loc(arm["sp"]) if arm else f.loc(), "%s.%s is reported as %s; the instruction's semantics say %s" % (v, fld, sorted(g) or "nothing", sorted(w) or "nothing"), "two %s instructions on the same region are ordered (or left unordered) wrongly by the scheduler" % v)
    res.count("table_rows_checked", nrows, floor=35)

    # CALL rule
    dm = [g for g in db.fns if g.path == "quil_rs::instruction::extern_call::Call::default_memory_accesses"]
    if not dm:
        res.missing_anchor("Call::default_memory_accesses")
    else:
        g = dm[0]
        gfns = [g] + db.closures_of(g)
        # writes must be conditional on `mutable`
        key = "K5|call-writes-iff-mutable"
        reads_mut = False
        for h in gfns:
            for sp, p in k2.places_in(h):
                if any(isinstance(pr, dict) and pr.get("n") == "mutable" for pr in p["pr"]):
                    reads_mut = True
        res.site(key, True, {"reads_parameter_mutable_flag": reads_mut, "verdict": "ok" if reads_mut else "VIOLATION"})
        if not reads_mut:
            res.find(key, g.loc(), "Call::default_memory_accesses never consults the parameter's `mutable` flag: either every passed region is reported written or none", "`CALL f x` with an immutable parameter is treated as writing x")
        touched = set()
        for h in gfns:
            for bb, s in aggregates(h, MA):
                touched |= set(s["rv"]["a"]["fields"])
            for i, j, s in h.stmts():
                if s["k"] == "assign":
                    for pl in (s["p"], s["rv"].get("p") if s["rv"]["k"] == "ref" else None):
                        if pl:
                            for pr in pl["pr"]:
                                if isinstance(pr, dict) and pr.get("o") == MA:
                                    touched.add(pr["n"])
        key = "K5|call-reads-and-writes"
        ok = {"reads", "writes"} <= touched
        res.site(key, True, {"fields_touched": sorted(touched), "verdict": "ok" if ok else "VIOLATION"})
        if not ok:
            res.find(key, g.loc(), "Call::default_memory_accesses does not populate both reads and writes (touches %s)" % sorted(touched), "a CALL is not ordered against a later read of its return slot")
        # CALL table: which set each region-carrying argument is inserted into, and under exactly which conditions
        from qv.rules.guards import same_origin
        from qv.engine import expr_calls
        final = [s_ for bb, s_ in aggregates(g, MA)]
        sets = {}
        if len(final) == 1:
            for n, o in zip(final[0]["rv"]["a"]["fields"], final[0]["rv"]["ops"]):
                sets[n] = fn_expr_operand(g, o)

        def nodes(e):
            out = []
            walk_expr(e, out.append)
            return out

        def classify_ctl(sb, tgt):
            tt = g.blocks[sb]["t"]
            if tt["k"] != "switch":
                return "other:" + tt["k"]
            e = fn_expr_operand(g, tt["d"])
            taken = [int(v) for v, x in tt["ts"] if x == tgt]
            truthy = (taken != [0]) if taken else ([int(v) for v, x in tt["ts"]] == [0])
            ns = nodes(e)
            if e[0] == "discr":
                inner = e[1]
                if inner[0] == "call" and inner[1].endswith("Try>::branch"):
                    return "lookup-ok"
                if inner[0] == "call" and inner[1].endswith("::next"):
                    return "iter-next"
                if any(n[0] == "call" and n[1].endswith("::next") for n in ns):
                    return "arg-variant"
            if e[0] == "call" and e[1].endswith("::is_some") and any(n[0] == "field" and n[2] == "return_type" for n in ns):
                return "has-return-type" if truthy else "no-return-type"
            if e[0] == "field" and e[2] == "mutable":
                return "mutable" if truthy else "not-mutable"
            return "other:" + (e[1] if e[0] == "call" else e[0])[-40:]

        rows = {}
        for bb, t, c in g.calls():
            if not (c and c.get("name") == "insert"):
                continue
            a = [fn_expr_operand(g, x) for x in t["args"]]
            which = [n for n, se in sets.items() if same_origin(se, a[0])]
            if len(which) != 1:
                continue
            val = a[1]
            ns = nodes(val)
            variants = sorted({n[2] for n in ns if n[0] == "as" and n[2] in ("MemoryReference", "Identifier")})  # a merged (phi) region name stands for each variant it merges
            src_ = "loop" if any(n[0] == "call" and n[1].endswith("::zip") for n in ns) else "return-slot" if any(n[0] == "call" and n[1].endswith("::next") for n in ns) else "?"
            ctl = frozenset(classify_ctl(sb, tgt) for sb, tgt in g.control_deps(bb))
            for variant in variants:
                rows.setdefault((src_, variant, which[0]), set()).add(ctl)
        base_loop = {"lookup-ok", "iter-next", "arg-variant"}
        base_slot = base_loop | {"has-return-type"}
        for src_, base in (("loop", base_loop), ("return-slot", base_slot)):
            for variant in ("MemoryReference", "Identifier"):
                for which in ("reads", "writes"):
                    key = "K5|call-table|%s|%s|%s" % (src_, variant, which)
                    want = base | ({"mutable"} if (src_ == "loop" and which == "writes") else set())
                    got = rows.get((src_, variant, which))
                    ok = got == {frozenset(want)}
                    res.site(key, True, {"conditions": [sorted(x) for x in got] if got else None, "expected": sorted(want), "verdict": "ok" if ok else "VIOLATION"})
                    if not ok:
                        res.find(key, g.loc(), "CALL %s argument (%s): insertion into `%s` happens under conditions %s; expected exactly %s" % (src_, variant, which, [sorted(x) for x in got] if got else "never", sorted(want)), "`CALL f x x` with (a : REAL, b : mut REAL): the write of x is not reported, or an immutable argument is reported written")
        res.count("call_table_rows", len(rows), floor=8)
    # MemoryAccesses::union (used to fold the accesses of definition bodies) merges all three sets on every path
    un = [g_ for g_ in db.fns if g_.path == MA + "::union"]
    if len(un) != 1:
        res.missing_anchor("MemoryAccesses::union")
    else:
        u = un[0]
        for fld in ("reads", "writes", "captures"):
            key = "K3|union-merges|%s" % fld
            sites_ = []
            for bb, t, c in u.calls():
                if c and c.get("name") in ("extend", "union", "append") and len(t["args"]) >= 2:
                    recv = fn_expr_operand(u, t["args"][0])
                    arg = fn_expr_operand(u, t["args"][1])
                    r_ok = any(n[0] == "field" and n[2] == fld and n[1][0] == "param" and n[1][1] == 1 for n in _paths_nodes(recv))
                    a_ok = any(n[0] == "field" and n[2] == fld and n[1][0] == "param" and n[1][1] == 2 for n in _paths_nodes(arg))
                    if r_ok and a_ok:
                        sites_.append(bb)
            ok = len(sites_) == 1 and not u.control_deps(sites_[0], transitive=False) and all(sites_[0] in u.dominators().get(rb, set()) for rb in u.return_blocks())
            res.site(key, True, {"merge_sites": len(sites_), "verdict": "ok" if ok else "VIOLATION"})
            if not ok:
                res.find(key, u.loc(), "MemoryAccesses::union does not merge `rhs.%s` into `self.%s` on every path" % (fld, fld), "the accesses of `DEFCIRCUIT c q: MEASURE q ro; RZ(theta) q` lose the capture of `ro`")
    # a region that is certainly there (a helper parameter of type &MemoryReference) is reported the same way on every
    # path of the helper: a helper that reports the destination of an updating operator as read on one path only loses
    # that read for some operand shapes
    memo_may, memo_must = {}, {}
    nh = 0
    for h in db.fns:
        if not h.path.startswith(f.path + "::") or "{closure" in h.path or h.is_derived():
            continue
        may = summary(db, h, memo_may)
        must = must_summary(db, h, memo_must)
        for pi in range(1, h.argc + 1):
            ty = h.local_ty(pi)
            while ty["k"] in ("ref", "ptr"):
                ty = db.types[ty["t"]]
            if not (ty["k"] == "adt" and ty["path"].endswith("::MemoryReference")):
                continue
            nh += 1
            key = "K5|helper-path-independent|%s|%s" % (h.name, h.local_name(pi))
            ok = may.get(pi, set()) == must.get(pi, set())
            res.site(key, True, {"helper": h.name, "parameter": h.local_name(pi), "on_some_path": sorted(may.get(pi, set())), "on_every_path": sorted(must.get(pi, set())), "verdict": "ok" if ok else "VIOLATION"})
            if not ok:
                res.find(key, h.loc(), "helper `%s` reports its `%s` as %s on some paths but only as %s on every path" % (h.name, h.local_name(pi), sorted(may.get(pi, set())), sorted(must.get(pi, set()))), "`ADD a b` (b a memory reference): the read of `a` is not reported")
    res.count("helper_memory_reference_parameters", nh, floor=4)
    # references are collected from the expression as written: a region that appears in an instruction's expression is
    # consulted when the instruction runs, whatever an algebraic simplifier would make of the expression
    key = "K5|references-from-expression-as-written"
    fam = [g_ for g_ in db.fns if g_.path == f.path or g_.path.startswith(f.path + "::")]
    rewrites = sorted({c.get("name") for g_ in fam for bb, t, c in g_.calls() if c and c.get("name") in ("into_simplified", "simplify", "simplified", "substitute_variables", "evaluate")})
    mr = sum(1 for g_ in fam for bb, t, c in g_.calls() if c and c.get("name") == "memory_references")
    ok = not rewrites and mr >= 1
    res.site(key, True, {"memory_references_calls": mr, "expression_rewrites": rewrites, "verdict": "ok" if ok else "VIOLATION"})
    if not ok:
        res.find(key, f.loc(), "memory_accesses rewrites an expression (%s) before listing its memory references: references the rewrite removes are not reported as read" % rewrites, "`SET-PHASE 0 \"rf\" 0*theta[0]` does not read theta")
    res.explanation = "Per-variant operand-to-access-kind flows (%d table rows) computed from the MemoryAccesses aggregates and helper summaries of DefaultHandler::memory_accesses, compared with the specification table; exhaustive match; CALL's mutable-dependent writes." % nrows
    res.assumptions = ["oracle table in qv/oracles/memory_access_table.py"]
    return res


def _paths(e, ip):
    out = []

    def v(n):
        for r in k2.expr_paths(n):
            if r[0] == ip and r[1]:
                out.append(r[1])

    walk_expr(e, v)
    return out


def _paths_nodes(e):
    out = []
    walk_expr(e, out.append)
    return out
