"""C03 Serialized expressions denote the same value when parsed back (vocabulary and operand-grouping clauses).

  R1 (K8) three-way operator table: InfixOperator Display string -> lexer tag -> parse_infix arm must be the identity on
          the five operators; PrefixOperator::Minus likewise through parse_prefix (Plus prints nothing);
          ExpressionFunction Display string -> keyword arm of parse_expression_identifier is the identity on the five
          functions; `pi`, `i` keywords; `%` sigil of variables;
  R2 (K7) grouping of operands: the operand printer (format_inner_expression) wraps a nested Infix in parentheses on
          every path; it wraps a Number that has both a real and an imaginary part (printed as a sum); the Prefix arm of
          Expression::write wraps an operand that itself starts with a sign (a nested Prefix or a negative literal),
          because the parser accepts exactly one prefix operator before an atom (R3);
  R3 (K8) the parser's side of that contract: in `parse`, the prefix is applied to the atom before the infix loop (prefix
          binds tightest, which is what lets `-3*(pi/2)` stay unparenthesised) and parse_prefix is consulted once.
Not decided: number formatting, evaluation."""
import re

from qv.props.common import require_fn
from qv.report import Result
from qv.synq import find_all, src, walk


def arms_table(fn_body, pat_prefix=None):
    """{pattern text: body node} for the (largest) match in the body"""
    ms = find_all(fn_body, lambda n: n.get("k") == "match")
    best = {}
    for m in ms:
        t = {}
        for a in m["arms"]:
            for p in (a["pat"]["ps"] if a["pat"].get("k") == "or" else [a["pat"]]):
                t[src(p)] = a
        if len(t) > len(best) and (pat_prefix is None or any(k.startswith(pat_prefix) or "::" not in k for k in t)):
            best = t
    return best


def str_lit(n):
    n = n["body"] if "body" in n else n
    return n["v"] if n.get("k") == "lit" and n.get("t") == "str" else None


def emissions(body):
    """ordered write!/write_str emissions of a block: list of ('lit', text) | ('hole', name) | ('call', rendered)"""
    out = []

    def visit(n):
        if n.get("k") == "macro" and n["name"].rsplit("::", 1)[-1] in ("write", "writeln") and "template" in n:
            for piece in n["template"]:
                if "lit" in piece:
                    out.append(("lit", piece["lit"]))
                else:
                    out.append(("hole", piece["hole"].get("name") or "?"))
            return False
        if n.get("k") == "call" and n["f"].get("k") == "path" and n["f"]["p"].rsplit("::", 1)[-1] not in ("Ok", "Err", "Some", "into", "from"):
            out.append(("call", n["f"]["p"]))
        if n.get("k") == "mcall" and n["m"] in ("write", "write_str", "push_str"):
            out.append(("call", "." + n["m"]))
        return None

    walk(body, visit)
    return out


def wrapped(em):
    lits = [x for x in em]
    return bool(lits) and lits[0] == ("lit", "(") and lits[-1] == ("lit", ")") or (len(lits) >= 2 and lits[0][0] == "lit" and lits[0][1].startswith("(") and lits[-1][0] == "lit" and lits[-1][1].endswith(")"))


def run(ctx):
    res = Result("C03")
    syn = ctx.syn()
    db = ctx.db("quil_rs")
    res.rules += ["R1 (K8) printer/lexer/parser vocabulary tables compose to the identity", "R2 (K7) operand grouping in the printer", "R3 (K8) single-prefix, prefix-binds-tightest parser contract"]

    def fn1(name, file_part, impl_self=None):
        xs = [f for f in syn.fns if f["name"] == name and file_part in f["file"] and (impl_self is None or f.get("impl_self") == impl_self)]
        if len(xs) != 1:
            res.missing_anchor("%s%s in %s" % ((impl_self + "::") if impl_self else "", name, file_part))
            return None
        return xs[0]

    d_infix = fn1("fmt", "expression/mod.rs", "InfixOperator")
    d_prefix = fn1("fmt", "expression/mod.rs", "PrefixOperator")
    d_fun = fn1("fmt", "expression/mod.rs", "ExpressionFunction")
    lexop = fn1("lex_operator", "parser/lexer")
    pinfix = fn1("parse_infix", "parser/expression.rs")
    pprefix = fn1("parse_prefix", "parser/expression.rs")
    pident = fn1("parse_expression_identifier", "parser/expression.rs")
    parse = fn1("parse", "parser/expression.rs")
    ewrite = fn1("write", "expression/mod.rs", "Expression")
    inner = fn1("format_inner_expression", "expression/mod.rs")
    if not all((d_infix, d_prefix, d_fun, lexop, pinfix, pprefix, pident, parse, ewrite, inner)):
        return res
    # R1 operators
    disp = {k.rsplit("::", 1)[-1]: str_lit(a) for k, a in arms_table(d_infix["body"]).items()}
    lex = {}
    for c in find_all(lexop["body"], lambda n: n.get("k") == "call" and n["f"].get("k") == "path" and n["f"]["p"] == "value" and len(n["args"]) == 2):
        tagc = c["args"][1]
        if tagc.get("k") == "call" and tagc["f"].get("p") == "tag" and tagc["args"] and tagc["args"][0].get("k") == "lit":
            lex[tagc["args"][0]["v"]] = src(c["args"][0]).rsplit("::", 1)[-1]
    pin = {k.rsplit("::", 1)[-1]: src(a["body"]).rsplit("::", 1)[-1] for k, a in arms_table(pinfix["body"], "Operator::").items() if k.startswith("Operator::")}
    res.count("infix_operators", len(disp), floor=5)
    for v, text in sorted(disp.items()):
        key = "K8|infix-operator|%s" % v
        tok = lex.get((text or "").strip())
        back = pin.get(tok) if tok else None
        ok = text is not None and back == v
        res.site(key, True, {"printed": text, "lexed_as": tok, "parsed_as": back, "verdict": "ok" if ok else "VIOLATION"})
        if not ok:
            res.find(key, "%s:%d" % (d_infix["file"], d_infix["ln"]), "InfixOperator::%s prints %r, which lexes as Operator::%s and parses as InfixOperator::%s" % (v, text, tok, back), "`%%a%s%%b` parses back with a different operator" % (text or "?"))
    # tokens must not be prefixes of one another in lexer order (alt takes the first match): all single characters
    key = "K8|operator-tags-single-char"
    ok = all(len(t) == 1 for t in lex) and len(set(lex.values())) == len(lex)
    res.site(key, True, {"tags": sorted(lex), "verdict": "ok" if ok else "VIOLATION"})
    if not ok:
        res.find(key, "%s:%d" % (lexop["file"], lexop["ln"]), "operator tags are not distinct single characters: %s" % lex, "-")
    # prefix
    dpre = {k.rsplit("::", 1)[-1]: str_lit(a) for k, a in arms_table(d_prefix["body"]).items()}
    pre_pats = [src(p) for p in find_all(pprefix["body"], lambda n: n.get("k") == "path" and n["p"].startswith("Operator::"))]
    pre_out = [src(p) for p in find_all(pprefix["body"], lambda n: n.get("k") == "path" and n["p"].startswith("PrefixOperator::"))]
    key = "K8|prefix-operator|Minus"
    ok = dpre.get("Minus") is not None and lex.get(dpre["Minus"].strip()) == "Minus" and pre_pats == ["Operator::Minus"] and pre_out == ["PrefixOperator::Minus"] and dpre.get("Plus") == ""
    res.site(key, True, {"printed": dpre, "parser_accepts": pre_pats, "verdict": "ok" if ok else "VIOLATION"})
    if not ok:
        res.find(key, "%s:%d" % (d_prefix["file"], d_prefix["ln"]), "PrefixOperator Display %s does not round-trip through the lexer (%s) and parse_prefix (%s -> %s)" % (dpre, lex, pre_pats, pre_out), "`-%x` parses back as something else")
    # functions
    dfun = {k.rsplit("::", 1)[-1]: str_lit(a) for k, a in arms_table(d_fun["body"]).items()}
    kw = {}
    for k, a in arms_table(pident["body"]).items():
        if k.startswith("'") or k.startswith('"'):
            word = k.strip("'\"")
            fnames = [src(p).rsplit("::", 1)[-1] for p in find_all(a["body"], lambda n: n.get("k") == "path" and n["p"].startswith("ExpressionFunction::"))]
            other = [src(p) for p in find_all(a["body"], lambda n: n.get("k") == "path" and n["p"].startswith("Expression::"))]
            kw[word] = fnames[0] if fnames else (other[0] if other else None)
    res.count("functions", len(dfun), floor=5)
    for v, text in sorted(dfun.items()):
        key = "K8|function|%s" % v
        ok = text is not None and kw.get(text) == v and text == text.lower()
        res.site(key, True, {"printed": text, "keyword_parses_as": kw.get(text or ""), "verdict": "ok" if ok else "VIOLATION"})
        if not ok:
            res.find(key, "%s:%d" % (d_fun["file"], d_fun["ln"]), "ExpressionFunction::%s prints %r; parse_expression_identifier maps that keyword to %s" % (v, text, kw.get(text or "")), "`%s(%%x)` parses back as a memory reference or another function" % text)
    key = "K8|constants"
    warms = arms_table(ewrite["body"])
    pi_txt = [e for e in emissions(warms["PiConstant()"]["body"])] if "PiConstant()" in warms else []
    var_txt = [e for e in emissions(warms["Variable(identifier)"]["body"])] if "Variable(identifier)" in warms else []
    ok = pi_txt == [("lit", "pi")] and kw.get("pi") == "Expression::PiConstant" and kw.get("i") == "Expression::Number" and var_txt[:1] == [("lit", "%")]
    res.site(key, True, {"pi": pi_txt, "variable": var_txt, "keywords": {k: kw.get(k) for k in ("pi", "i")}, "verdict": "ok" if ok else "VIOLATION"})
    if not ok:
        res.find(key, "%s:%d" % (ewrite["file"], ewrite["ln"]), "`pi` / `i` / `%%name` spellings of the printer and the parser keywords disagree", "-")
    # R2 grouping
    iarms = arms_table(inner["body"])
    inf = [a for k, a in iarms.items() if k.startswith("Expression::Infix")]
    key = "K7|nested-infix-parenthesised"
    ok = len(inf) == 1 and wrapped(emissions(inf[0]["body"])) and not inf[0].get("guard")
    res.site(key, True, {"verdict": "ok" if ok else "VIOLATION"})
    if not ok:
        res.find(key, "%s:%d" % (inner["file"], inner["ln"]), "format_inner_expression does not wrap a nested infix expression in parentheses on every path", "(a+b)*c prints as a+b*c")
    num = [a for k, a in iarms.items() if k.startswith("Expression::Number")]
    key = "K7|operand-atomic|compound-number"
    ok = False
    detail = {"number_arms": len(num)}
    for a in num:
        g = src(a["guard"]) if a.get("guard") else ""
        if wrapped(emissions(a["body"])) and (not g or (".re" in g and ".im" in g)):
            ok = True
            detail["guard"] = g
    res.site(key, True, dict(detail, verdict="ok" if ok else "VIOLATION"))
    if not ok:
        res.find(key, "%s:%d" % (inner["file"], inner["ln"]), "a Number with both a real and an imaginary part is printed as a bare sum (`1+2.0i`) in operand position: format_inner_expression has no parenthesising arm for it",
                 "Number(1+2i) * %x prints `1+2.0i*%x`, which parses as 1 + (2i * x)")
    pre = [a for k, a in warms.items() if k.startswith("Prefix")]
    key = "K7|operand-atomic|signed-under-prefix"
    ok = False
    detail = {}
    if len(pre) == 1:
        body = pre[0]["body"]
        em = emissions(body)
        has_wrap = ("lit", "(") in em and ("lit", ")") in em and em.index(("lit", "(")) < len(em) - 1 - em[::-1].index(("lit", ")"))
        pats = {src(p).split("(")[0].rsplit("::", 1)[-1] for p in find_all(body, lambda n: n.get("k") in ("tstruct", "path", "struct") and src(n).split("(")[0].rsplit("::", 1)[-1] in ("Prefix", "Number"))}
        neg = [b for b in find_all(body, lambda n: n.get("k") == "bin" and n["op"] in ("<", "<=", ">", ">="))]
        signfn = [m for m in find_all(body, lambda n: n.get("k") == "mcall" and n["m"] in ("is_sign_negative", "starts_with"))]
        detail = {"wraps_on_some_path": has_wrap, "inspects": sorted(pats), "sign_test": bool(neg or signfn)}
        ok = has_wrap and "Prefix" in pats and "Number" in pats and bool(neg or signfn)
        # an unconditional wrap of every operand is also fine
        if not ok and wrapped([e for e in em if e != ("hole", "operator")]):
            ok = True
    res.site(key, True, dict(detail, verdict="ok" if ok else "VIOLATION"))
    if not ok:
        res.find(key, "%s:%d" % (ewrite["file"], ewrite["ln"]), "the Prefix arm of Expression::write prints an operand that itself starts with a sign (a nested Prefix, a negative literal) directly after the operator: the parser accepts only one prefix operator before an atom (%s)" % detail,
                 "Prefix(-, Prefix(-, %x)) prints `--%x`, which does not parse; Prefix(-, Number(1+2i)) prints `-1+2.0i` = -1+2i")
    # every direct (un-grouped) recursive write of the operand inside the Prefix arm sits between "(" and ")" of its own
    # block: an operand is never printed bare, whatever the operator (a `+` prints nothing, so a bare operand would
    # merge with the surrounding infix expression)
    key = "K7|operand-atomic|prefix-operand-never-bare"
    ok = False
    detail = {}
    if len(pre) == 1:
        bare = []
        nrec = [0]

        def blocks_with_direct_writes(n):
            if isinstance(n, dict):
                if n.get("k") == "block":
                    direct = []

                    def v(x):
                        if x is not n and x.get("k") == "block":
                            return False  # nested blocks are handled on their own
                        if x.get("k") == "mcall" and x["m"] == "write" and src(x).replace(" ", "").startswith(("expression.write(", "(**expression).write(", "(*expression).write(")):
                            direct.append(x)
                        return None

                    walk(n, v)
                    if direct:
                        nrec[0] += len(direct)
                        # in the emission sequence of this block every direct write is immediately preceded by "(" and
                        # immediately followed by ")"
                        em_ = emissions(n)
                        for i_, e_ in enumerate(em_):
                            if e_ == ("call", ".write"):
                                before = em_[i_ - 1] if i_ > 0 else None
                                after = em_[i_ + 1] if i_ + 1 < len(em_) else None
                                if not (before and before[0] == "lit" and before[1].endswith("(") and after and after[0] == "lit" and after[1].startswith(")")):
                                    bare.append(src(direct[0])[:60])
                for k_, v_ in n.items():
                    if k_ in ("template", "template_raw"):
                        continue
                    if isinstance(v_, (dict, list)):
                        blocks_with_direct_writes(v_)
            elif isinstance(n, list):
                for x in n:
                    blocks_with_direct_writes(x)

        blocks_with_direct_writes(pre[0]["body"])
        inner_calls = find_all(pre[0]["body"], lambda n: n.get("k") == "call" and n["f"].get("k") == "path" and n["f"]["p"].rsplit("::", 1)[-1] == "format_inner_expression")
        ok = not bare and (nrec[0] + len(inner_calls)) >= 1
        detail = {"direct_recursive_writes": nrec[0], "bare": bare, "through_format_inner_expression": len(inner_calls)}
    res.site(key, True, dict(detail, verdict="ok" if ok else "VIOLATION"))
    if not ok:
        res.find(key, "%s:%d" % (ewrite["file"], ewrite["ln"]), "the Prefix arm of Expression::write prints its operand bare on some path (%s): with an operator that prints nothing (`+`) or an infix operand the text regroups" % detail,
                 "Infix(Prefix(+, a+b), *, c) prints `%a+%b*%c`")
    # both operands of the Infix arm go through the grouping printer, never through the bare writer
    infw = [a for k, a in warms.items() if k.startswith("Infix")]
    key = "K7|operand-atomic|infix-operands-through-grouping"
    ok = False
    detail = {}
    if len(infw) == 1:
        calls_ = find_all(infw[0]["body"], lambda n: n.get("k") == "call" and n["f"].get("k") == "path" and n["f"]["p"].rsplit("::", 1)[-1] == "format_inner_expression")
        operands = sorted({src(c["args"][-1]).strip("&* ") for c in calls_ if c.get("args")})
        direct = [src(x)[:50] for x in find_all(infw[0]["body"], lambda n: n.get("k") == "mcall" and n["m"] in ("write", "to_quil", "to_quil_or_debug", "to_string"))]
        ok = operands == ["left", "right"] and not direct and not infw[0].get("guard")
        detail = {"grouped_operands": operands, "bare_writes": direct}
    res.site(key, True, dict(detail, verdict="ok" if ok else "VIOLATION"))
    if not ok:
        res.find(key, "%s:%d" % (ewrite["file"], ewrite["ln"]), "the Infix arm of Expression::write does not print both operands through format_inner_expression (%s)" % detail, "a*(b+c) prints as a*b+c")
    # an Address always prints as `name[index]`, whatever the name; the identifier parser therefore has to try the
    # bracketed memory reference BEFORE it looks the word up among the function / constant keywords
    key = "K8|bracketed-address-before-keywords"
    kw_match = None
    for m_ in find_all(pident["body"], lambda n: n.get("k") == "match"):
        pats_ = {src(a["pat"]).strip("'\"") for a in m_["arms"]}
        if {"cis", "pi"} <= pats_:
            kw_match = m_
    brk = find_all(pident["body"], lambda n: n.get("k") == "path" and n["p"].rsplit("::", 1)[-1] == "parse_memory_reference_with_brackets")
    rets = [r for r in find_all(pident["body"], lambda n: n.get("k") == "return") if find_all(r, lambda n: n.get("k") == "path" and n["p"].endswith("Expression::Address"))]
    ok = kw_match is not None and len(brk) >= 1 and brk[0]["ln"] < kw_match["ln"] and any(r["ln"] < kw_match["ln"] for r in rets)
    # MemoryReference prints its brackets unconditionally
    mw = [f_ for f_ in syn.fns if f_["name"] == "write" and f_.get("impl_self") == "MemoryReference" and "declaration.rs" in f_["file"]]
    mem_txt = emissions(mw[0]["body"]) if len(mw) == 1 else []
    always_brackets = [x for x in mem_txt if x[0] == "lit"] == [("lit", "["), ("lit", "]")] and not find_all(mw[0]["body"], lambda n: n.get("k") in ("if", "match")) if len(mw) == 1 else False
    ok = ok and always_brackets
    res.site(key, True, {"keyword_match_found": kw_match is not None, "bracketed_parser_first": bool(brk) and kw_match is not None and brk[0]["ln"] < kw_match["ln"], "returns_address_before_keywords": any(kw_match is not None and r["ln"] < kw_match["ln"] for r in rets), "printer_always_brackets": always_brackets, "verdict": "ok" if ok else "VIOLATION"})
    if not ok:
        res.find(key, "%s:%d" % (pident["file"], pident["ln"]), "parse_expression_identifier does not try `name[index]` before the keyword table (or MemoryReference no longer always prints its brackets): a region named like a function or constant does not parse back", "Address(exp[0]) prints `exp[0]`, which the parser reads as the start of a call to exp")
    # R3 parser contract
    key = "K8|single-prefix-binds-tightest"
    is_prefix_ctor = lambda n: (n.get("k") == "path" and n["p"].endswith("Expression::Prefix")) or (n.get("k") == "struct" and str(n.get("path", "")).endswith("PrefixExpression"))
    pp = find_all(parse["body"], lambda n: n.get("k") == "path" and n["p"].rsplit("::", 1)[-1] == "parse_prefix")
    loops = find_all(parse["body"], lambda n: n.get("k") in ("while", "loop", "for"))
    pre_apply = find_all(parse["body"], lambda n: n.get("k") == "path" and n["p"].endswith("Expression::Prefix"))
    ok = len(pp) == 1 and len(loops) == 1 and len(pre_apply) == 1 and pre_apply[0]["ln"] < loops[0]["ln"] and not find_all(loops[0], is_prefix_ctor) and not find_all(loops[0], lambda n: n.get("k") == "path" and n["p"].rsplit("::", 1)[-1] == "parse_prefix")
    res.site(key, True, {"parse_prefix_calls": len(pp), "prefix_applied_before_infix_loop": bool(pre_apply and loops and pre_apply[0]["ln"] < loops[0]["ln"]), "verdict": "ok" if ok else "VIOLATION"})
    if not ok:
        res.find(key, "%s:%d" % (parse["file"], parse["ln"]), "the Pratt parser no longer applies exactly one optional prefix operator to the atom before the infix loop; the printer's grouping rules (R2) assume it does", "`-%x^2` parses as -(x^2) while the printer wrote it for (-x)^2")
    # R4 (K8) positional whole numbers fit the lexer's integer token: with trim_floats the real part of a number below
    #    10^positive_exponent_break is written as a bare digit string, which the lexer reads as Token::Integer(uN);
    #    10^break must not exceed uN::MAX, or such a number is written as text the lexer rejects
    from qv.engine import fn_expr_operand as _op
    key = "K8|positional-integers-fit-lexer"
    tok = db.adts.get("quil_rs::parser::token::Token")
    width = None
    if tok:
        for v in tok["variants"]:
            if v["n"] == "Integer" and v["fields"]:
                m_ = re.match(r"^[ui](\d+)$", db.ty_s(v["fields"][0]["t"]))
                if m_:
                    width = int(m_.group(1)) - (1 if db.ty_s(v["fields"][0]["t"]).startswith("i") else 0)
    brk = trim = None
    for g in db.fns:
        if g.path.startswith("quil_rs::expression::FORMAT_REAL_OPTIONS::{closure"):
            for bb, t, c in g.calls():
                if c and c.get("name") == "positive_exponent_break":
                    a = _op(g, t["args"][1])
                    consts = []
                    from qv.engine import walk_expr as _we

                    def _ints(e_, depth_=0):
                        # integer literals of the operand; a named `const` item is followed to its initializer
                        def v_(n):
                            if n[0] == "const" and isinstance(n[1], int) and not isinstance(n[1], bool):
                                consts.append(n[1])
                            elif n[0] == "const" and isinstance(n[1], str) and n[1].startswith("quil_rs::") and depth_ < 4:
                                for h in db.fns:
                                    if h.path == n[1]:
                                        _ints(_op(h, {"m": {"l": 0, "pr": []}}), depth_ + 1)
                        _we(e_, v_)

                    _ints(a)
                    brk = consts[0] if len(consts) == 1 else None
                if c and c.get("name") == "trim_floats":
                    a = _op(g, t["args"][1])
                    trim = a[1] if a[0] == "const" else None
    if width is None or brk is None:
        res.site(key, False, {"verdict": "undecided: Token::Integer width or FORMAT_REAL_OPTIONS not found"})
        res.undecided.append(key)
    else:
        ok = (not trim) or 10 ** brk <= 2 ** width - 1
        res.site(key, True, {"lexer_integer_bits": width, "positive_exponent_break": brk, "trim_floats": bool(trim), "verdict": "ok" if ok else "VIOLATION"})
        if not ok:
            res.find(key, "-", "whole real parts below 1e%d are written as bare digit strings (trim_floats), but the lexer's integer token holds %d bits: numbers between 2^%d and 1e%d print as text that does not lex" % (brk, width, width, brk), "Number(18446744073709552000) prints `18446744073709552000`, which overflows the integer lexer")
    res.explanation = "Composition of the printer's operator/function spellings with the lexer's tags and the parser's arms (syntax-tree tables); grouping discipline of operand printing derived from the parser's single-prefix contract."
    res.assumptions = ["number formatting (lexical) round-trips: decided under C02's literal rule, not here"]
    return res
