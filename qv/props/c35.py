"""C35 Dead-code removal keeps execution and removes exactly unused definitions.

Decides (which fields of the result are changed, and from what):
  R1 (K6) Program::simplify starts from expand_calibrations(self) and writes exactly the stores
          {calibrations, frames, waveforms, extern_pragma_map} of that result; declarations, gate definitions,
          circuits and the (expanded) body are not written;
  R2 (K5) calibrations := the empty value; frames := self.frames.intersection(used) where `used` collects the `.used`
          component of handler.matching_frames(expanded program, instruction) over the *expanded* body;
          waveforms are retained by membership in the names collected from get_waveform_invocation;
          extern pragmas are retained by membership in the names of CALL instructions;
  R3 (K2) Instruction::get_waveform_invocation covers every variant holding a WaveformInvocation.
Not decided: equality of schedules before/after."""
from qv.engine import callee_path, fn_expr_operand, fn_expr_local, walk_expr, expr_calls
from qv.props.common import in_span, require_fn
from qv.report import Result
from qv.rules import k2_coverage as k2
from qv.rules.guards import root

PROGRAM = "quil_rs::program::Program"
INSTRUCTION = "quil_rs::instruction::Instruction"
WFI = "quil_rs::instruction::waveform::WaveformInvocation"
EXPECT_WRITTEN = {"calibrations", "frames", "waveforms", "extern_pragma_map"}


def _polarity(db, g, e, depth=0):
    """'member' if the boolean expression is a positive membership test (`used.contains(x)`), 'not member' / a description
    if it is negated or defaults to true, None if not recognised"""
    if depth > 4:
        return None
    if e[0] == "call":
        nm = e[1].rsplit("::", 1)[-1]
        if nm == "contains":
            return "member"
        if nm in ("unwrap_or", "map_or") and len(e[2]) >= 2:
            default = e[2][1] if nm == "unwrap_or" else e[2][1]
            dval = default[1] if default[0] == "const" else None
            if dval not in (0, "false", False):
                return "absent name kept (default %s)" % (dval,)
            inner = e[2][0] if nm == "unwrap_or" else e[2][2]
            return _polarity(db, g, inner, depth + 1)
        if nm in ("map", "is_some_and", "and_then") and len(e[2]) >= 2 and e[2][1][0] == "closure":
            hs = db.by_path.get(e[2][1][1], [])
            if len(hs) == 1:
                return _polarity(db, hs[0], fn_expr_operand(hs[0], {"m": {"l": 0, "pr": []}}), depth + 1)
        return None
    if e[0] == "un" and e[1] == "Not":
        inner = _polarity(db, g, e[2], depth + 1)
        return "not member" if inner == "member" else None
    return None


def run(ctx):
    res = Result("C35")
    db = ctx.db("quil_rs")
    res.rules += ["R1 (K6) who-writes on the result of simplify", "R2 (K5) provenance of each rewritten store", "R3 (K2) get_waveform_invocation coverage"]
    sfs = [f for f in db.fns if f.path.startswith(PROGRAM + "::simplify") and f.kind == "AssocFn"]
    gwi = require_fn(db, res, INSTRUCTION + "::get_waveform_invocation")
    if len(sfs) != 1 or not gwi:
        res.missing_anchor("Program::simplify")
        return res
    f = sfs[0]
    # the result local: the one whose value is the Ok payload of expand_calibrations(self)
    result_l = None
    for l in range(len(f.locals)):
        if f.local_ty(l)["s"] != PROGRAM:
            continue
        e = fn_expr_local(f, l)
        r, pth = root(e)
        if r[0] == "call" and r[1] == PROGRAM + "::expand_calibrations" and r[2] and r[2][0][0] == "param" and r[2][0][1] == 1:
            # the local moved into Ok(..) at the end
            result_l = l if result_l is None else result_l
    key = "K5|starts-from-expand_calibrations"
    res.site(key, True, {"result_local": result_l, "verdict": "ok" if result_l is not None else "VIOLATION"})
    if result_l is None:
        res.find(key, f.loc(), "simplify does not start from self.expand_calibrations(): the result is not the calibration-expanded program", "a program with a calibrated gate keeps the unexpanded gate after simplify")
        return res
    # pick the named binding (several temporaries carry the same value): the one that is field-written
    cands = [l for l in range(len(f.locals)) if f.local_ty(l)["s"] == PROGRAM]
    written = {}
    for i, j, s in f.stmts():
        if s["k"] != "assign":
            continue
        for how, pl in (("store", s["p"]), ("mutref", s["rv"].get("p") if s["rv"]["k"] == "ref" and s["rv"].get("m") == "mut" else None)):
            if pl and pl["l"] in cands:
                for pr in pl["pr"]:
                    if isinstance(pr, dict) and pr.get("o") == PROGRAM and "n" in pr:
                        written.setdefault(pr["n"], []).append((how, i, s))
                        break
    key = "K6|simplify-writes"
    ok = set(written) == EXPECT_WRITTEN
    res.site(key, True, {"written": sorted(written), "expected": sorted(EXPECT_WRITTEN), "verdict": "ok" if ok else "VIOLATION"})
    if not ok:
        extra = sorted(set(written) - EXPECT_WRITTEN)
        missing = sorted(EXPECT_WRITTEN - set(written))
        res.find(key, f.loc(), "simplify writes stores %s of the result; it must write exactly %s (unexpectedly written: %s; not written: %s)" % (sorted(written), sorted(EXPECT_WRITTEN), extra, missing), "declarations / gate definitions / circuits change under simplify, or unused %s survive" % (missing or "definitions"))
    # R2 calibrations := default
    for how, bb, s in written.get("calibrations", []):
        if how == "store":
            e = fn_expr_operand(f, s["rv"]["o"]) if s["rv"]["k"] == "use" else ("x",)
            key = "K5|calibrations-emptied"
            ok = e[0] == "call" and e[1].endswith("Default>::default") and not e[2]
            res.site(key, True, {"value": str(e)[:80], "verdict": "ok" if ok else "VIOLATION"})
            if not ok:
                res.find(key, f.loc(s["sp"]), "simplify assigns %s to the result's calibrations instead of the empty value" % str(e)[:80], "calibrations survive simplify")
    # frames := intersection(self.frames, used)
    for how, bb, s in written.get("frames", []):
        if how != "store":
            continue
        e = fn_expr_operand(f, s["rv"]["o"]) if s["rv"]["k"] == "use" else ("x",)
        key = "K5|frames-intersection"
        ok = e[0] == "call" and e[1].endswith("FrameSet::intersection") and e[2] and "frames" in k2.expr_paths(e[2][0])[0][1] if e[0] == "call" and e[2] and k2.expr_paths(e[2][0]) else False
        res.site(key, True, {"value": str(e)[:100], "verdict": "ok" if ok else "VIOLATION"})
        if not ok:
            res.find(key, f.loc(s["sp"]), "the result's frames are not self.frames.intersection(used frames)", "unused frames survive, or used frames are dropped")
    # `used` is extended from matching_frames(..).used over the expanded body
    mf = [(bb, t, c) for bb, t, c in f.calls() if c and c.get("name") == "matching_frames"]
    key = "K5|frames-used-provenance"
    ok = False
    detail = {}
    if mf:
        bb, t, c = mf[0]
        prog_arg = fn_expr_operand(f, t["args"][1]) if len(t["args"]) > 1 else ("x",)
        rp, _ = root(prog_arg)
        over_expanded = rp[0] == "call" and rp[1] == PROGRAM + "::expand_calibrations"
        # the extend of frames_used takes the `.used` field of the result
        used_field = False
        for b2, t2, c2 in f.calls():
            if c2 and c2.get("name") == "extend" and len(t2["args"]) > 1:
                e = fn_expr_operand(f, t2["args"][1])
                names = []
                walk_expr(e, lambda n: names.append(n[2]) if n[0] == "field" else None)
                if "used" in names and "blocked" not in names and any(x[1].endswith("matching_frames") for x in expr_calls(e)):
                    used_field = True
        # the loop iterates the expanded program's instructions
        loop_src = False
        for b2, t2, c2 in f.calls():
            if c2 and c2.get("name") == "into_iter" and t2["args"]:
                e = fn_expr_operand(f, t2["args"][0])
                rr, pp = root(e)
                if "instructions" in pp and rr[0] == "call" and rr[1] == PROGRAM + "::expand_calibrations":
                    loop_src = True
        detail = {"matching_frames_on_expanded_program": over_expanded, "extends_with_used_component": used_field, "loop_over_expanded_body": loop_src}
        ok = over_expanded and used_field and loop_src
    res.site(key, True, dict(detail, verdict="ok" if ok else "VIOLATION"))
    if not ok:
        res.find(key, f.loc(), "the set of used frames is not built from handler.matching_frames(expanded program, instruction).used over the expanded body (%s)" % detail, "a frame used only inside a calibration body is dropped, or a merely blocked frame is kept")
    # the used-name sets must be computed over the expanded body too: simplify never reads the unexpanded body
    key = "K6|used-sets-from-expanded-body-only"
    reads = []
    for g in [f] + db.closures_of(f):
        for sp, pl in k2.places_in(g):
            names = [pr.get("n") for pr in pl["pr"] if isinstance(pr, dict)]
            if "instructions" in names:
                e = fn_expr_operand(g, {"c": {"l": pl["l"], "pr": []}})
                rr, pp = root(e)
                if rr[0] == "param" and rr[2] == "self":
                    reads.append(g.loc(sp))
    # names of CALLs are inserted inside the loop over the expanded body
    call_ins = False
    for b2, t2, c2 in f.calls():
        if c2 and c2.get("name") == "insert" and len(t2["args"]) > 1:
            e = fn_expr_operand(f, t2["args"][1])
            if any(n[0] == "as" and n[2] == "Call" for n in _nodes(e)) and any(x[1] == PROGRAM + "::expand_calibrations" for x in expr_calls(e)):
                call_ins = True
    ok = not reads and call_ins
    res.site(key, True, {"reads_of_self.instructions": reads[:3], "call_names_from_expanded_body": call_ins, "verdict": "ok" if ok else "VIOLATION"})
    if not ok:
        res.find(key, f.loc(), "simplify computes a used-definitions set from the unexpanded body (reads of self.instructions: %s; CALL names taken from the expanded body: %s)" % (reads[:3], call_ins), "a CALL that appears only inside an applied DEFCAL body loses its PRAGMA EXTERN")
    # waveforms / extern: retain with membership closures
    for store, src_name in (("waveforms", "get_waveform_invocation"), ("extern_pragma_map", None)):
        key = "K5|%s-retained-by-membership" % store
        ok = False
        for how, bb, s in written.get(store, []):
            if how != "mutref":
                continue
            l = s["p"]["l"]
            for b2, t2, c2 in f.calls():
                if c2 and c2.get("name") == "retain" and any((a.get("m") or a.get("c") or {}).get("l") == l for a in t2["args"]):
                    # the closure tests `contains`
                    for g in db.closures_of(f):
                        if any(c3 and c3.get("name") == "contains" for b3, t3, c3 in g.calls()) and in_span(g.raw["hsp"], t2["sp"]):
                            ok = True
                    # ... and keeps an entry exactly when its name IS in the used set: the predicate is the membership test
                    # itself (not negated); for the optional name of an extern pragma, an absent name keeps nothing
                    for g in db.closures_of(f):
                        if g.path.count("{closure#") != 1 or not in_span(g.raw["hsp"], t2["sp"]):
                            continue
                        ret_ = fn_expr_operand(g, {"m": {"l": 0, "pr": []}})
                        pol = _polarity(db, g, ret_)
                        key_p = "K5|%s-kept-iff-used" % store
                        if pol is None:
                            res.site(key_p, False, {"verdict": "undecided: predicate shape not recognised"})
                        else:
                            res.site(key_p, True, {"predicate": pol, "verdict": "ok" if pol == "member" else "VIOLATION"})
                            if pol != "member":
                                res.find(key_p, g.loc(), "simplify keeps an entry of `%s` under `%s` instead of exactly when its name is in the used set" % (store, pol), "every used waveform is dropped and every unused one kept; or a PRAGMA EXTERN without a name survives")
        if src_name:
            ok = ok and any(c2 and c2.get("name") == src_name for b2, t2, c2 in f.calls())
        res.site(key, True, {"store": store, "verdict": "ok" if ok else "VIOLATION"})
        if not ok:
            res.find(key, f.loc(), "simplify does not filter `%s` with retain(|..| used.contains(..))%s" % (store, " over names from get_waveform_invocation" if src_name else ""), "unused %s survive simplify or used ones are dropped" % store)
    # the three pruning steps run on every path: nothing but the `?` of expand_calibrations controls them (a size
    # comparison or an emptiness test in front of one of them leaves unused definitions behind for some programs)
    rets = [rb for rb in f.return_blocks()]
    for label, pred in (
        ("frames", lambda c_, t_: c_.get("name") == "intersection"),
        ("waveforms", lambda c_, t_: c_.get("name") == "retain" and "IndexMap" in callee_path(c_)),
        ("extern_pragma_map", lambda c_, t_: c_.get("name") == "retain" and "ExternPragmaMap" in callee_path(c_)),
    ):
        key = "K7|prune-unconditional|%s" % label
        sites_ = [(bb, t) for bb, t, c in f.calls() if c and pred(c, t)]
        ok = False
        conds = []
        if len(sites_) == 1:
            bb = sites_[0][0]
            seen_, work = set(), [bb]
            while work:
                b_ = work.pop()
                for sb, tgt in sorted(f.control_deps(b_, transitive=False)):
                    if sb in seen_:
                        continue
                    seen_.add(sb)
                    tt = f.blocks[sb]["t"]
                    e = fn_expr_operand(f, tt["d"]) if tt["k"] == "switch" else ("x",)
                    # the early return of `self.expand_calibrations()?`, and the exit test of the loop over the body
                    if e[0] == "discr" and e[1][0] == "call" and (e[1][1].endswith("Try>::branch") or e[1][1].endswith("Iterator>::next")):
                        work.append(sb)
                        continue
                    conds.append(str(e)[:90])
            ok = not conds
        res.site(key, True, {"sites": len(sites_), "conditions": conds, "verdict": "ok" if ok else "VIOLATION"})
        if not ok:
            res.find(key, f.loc(), "simplify prunes `%s` only under conditions %s (sites: %d); the pruning must happen on every path" % (label, conds, len(sites_)), "two DEFWAVEFORMs, one used, plus a `flat(...)` template in the body: the count test skips the prune and the unused waveform survives")
    # R3
    mm, cov = k2.coverage(db, gwi, INSTRUCTION, k2.is_adt(WFI))
    if mm is None:
        res.missing_anchor("match in get_waveform_invocation")
    else:
        from qv.props import c17

        bc = c17.body_capable(db)
        for v in sorted(cov):
            if v not in bc:
                continue  # simplify walks the expanded *body*; definitions nest instructions but are not body instructions
            key = "K2|get_waveform_invocation|%s" % v
            ok = cov[v]["arm"] == "explicit" and not cov[v]["missing"]
            res.site(key, True, {"variant": v, "verdict": "ok" if ok else "VIOLATION"})
            if not ok:
                res.find(key, gwi.loc(), "Instruction::%s holds a WaveformInvocation that get_waveform_invocation does not report: simplify drops a waveform that is in use" % v, "a program whose only use of waveform `w` is in a %s instruction loses DEFWAVEFORM w" % v)
    res.explanation = "Who-writes enumeration on the result of Program::simplify (exactly four stores), provenance of each new value (origin expressions over MIR), and type-directed coverage of get_waveform_invocation."
    res.assumptions = ["FrameSet::intersection / retain semantics as documented; matching_frames correctness is C26"]
    return res


def _nodes(e):
    out = []
    walk_expr(e, out.append)
    return out
