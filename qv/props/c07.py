"""C07 Quoted strings survive printing and parsing unchanged.

Decides:
  R1 (K6) who may quote: in every function reachable from a Quil::write, a literal `"` is emitted
          (format template piece / string or char constant) only inside <QuotedString as Display>::fmt;
          Debug-formatting (`{:?}`) of a String/str (Rust escaping != Quil escaping) is a quoting site too;
  R2 (K8) the escape table of QuotedString::fmt and the replacement list of the lexer's un-escaper are
          inverse tables: both `"` and `\\` are escaped with a backslash, both escapes are undone;
  R3 (K8) every field the parser fills from a string token (`token!(String(..))`) is written by its
          writer through QuotedString.
Not decided: the scanning loop that finds the closing quote; an un-escaper that is not a
`replace` chain is recorded as undecided, not as a violation."""
import re

from qv.engine import callee_of, callee_path, fn_expr_operand
from qv.report import Result
from qv.rules import k2_coverage as k2
from qv.synq import find_all, src, unparen, walk

QUIL = "quil_rs::quil::Quil"
QS = "quil_rs::instruction::QuotedString"


def str_debug_holes(db, f):
    out = []
    for bb, t, c in f.calls():
        if not c:
            continue
        p = callee_path(c)
        if re.match(r"^core::fmt::rt::Argument::<'_>::new_debug$", p) and c.get("args"):
            ty = db.types[c["args"][0]]
            while ty["k"] == "ref":
                ty = db.types[ty["t"]]
            if ty["s"] in ("str", "std::string::String") or ty["s"].startswith("std::borrow::Cow<'_, str>"):
                out.append((bb, t))
    return out


def run(ctx):
    res = Result("C07")
    db = ctx.db("quil_rs")
    mono = ctx.mono("quil_rs")
    syn = ctx.syn()
    res.rules += [
        "R1 (K6) a literal double quote is emitted on serialization paths only inside QuotedString::fmt; no {:?} of strings",
        "R2 (K8) QuotedString escape table and lexer un-escape list are inverse",
        "R3 (K8) every parser field filled from Token::String is written through QuotedString",
    ]
    writers = [f for f in db.fns if f.raw.get("impl_trait") == QUIL and f.name == "write"]
    res.count("quil_write_impls", len(writers), floor=60)
    qfmt = [f for f in db.trait_methods.get(("std::fmt::Display", "fmt"), []) if f.impl_self_path() == QS]
    if len(qfmt) != 1:
        res.missing_anchor("<QuotedString as Display>::fmt")
        return res
    qfmt = qfmt[0]
    parent = mono.reach(mono.roots([w.dp for w in writers]))
    local = mono.local_dps(parent)
    res.count("writer_reachable_functions", len(local), floor=60)

    # ---- R1
    allowed_sites = 0
    other_sites = 0
    seen_syn = set()
    for dp in sorted(local):
        f = db.by_dp.get(dp)
        if f is None or f.kind == "Promoted":
            continue
        sites = []
        # MIR string / char constants containing a double quote
        for bb, t, c in f.calls():
            for a in t["args"]:
                k = a.get("k")
                if not k:
                    continue
                if ("str" in k and '"' in k["str"]) or k.get("s") == "'\"'" or (k.get("s", "").startswith("const b\"") and '\\"' in k["s"]):
                    sites.append(("const", t["sp"]))
        for i, j, s in f.stmts():
            if s["k"] == "assign":
                for o in f.rvalue_operands(s["rv"]):
                    k = o.get("k")
                    if k and (("str" in k and '"' in k["str"]) or k.get("s") == "'\"'" or (k.get("s", "").startswith("b\"") and '\\"' in k["s"])):
                        sites.append(("const", s["sp"]))
        # un-expanded templates (second, independent reading)
        sf = syn.fn_for(f)
        if sf and id(sf) not in seen_syn and f.kind != "Closure":
            seen_syn.add(id(sf))
            for m in find_all(sf["body"], lambda n: n.get("k") == "macro" and "template" in n):
                if any("lit" in pc and '"' in pc["lit"] for pc in m["template"]):
                    sites.append(("template", [m["ln"], m.get("col", 0), m["ln"], 0]))
        for bb, t in str_debug_holes(db, f):
            sites.append(("debug-of-string", t["sp"]))
        if not sites:
            continue
        inside = f.dp == qfmt.dp or f.path.startswith(qfmt.path + "::{closure")
        kinds = sorted({k for k, _ in sites})
        key = "K6|quote-site|%s" % f.path
        if inside:
            allowed_sites += len(sites)
            res.site(key, True, {"fn": f.path, "kinds": kinds, "n": len(sites), "verdict": "allowed (the escaping function)"})
        else:
            other_sites += len(sites)
            res.site(key, True, {"fn": f.path, "kinds": kinds, "verdict": "VIOLATION"})
            res.find(key, f.loc(sites[0][1]), "%s emits a double quote (%s) on a serialization path outside QuotedString::fmt: the string inside is not escaped the way the lexer un-escapes it" % (f.path.replace("quil_rs::", ""), ", ".join(kinds)), "a string containing `\"` or `\\` in that position, e.g. `DELAY 0 \"a\\\"b\" 1.0` prints text that no longer parses back to the same string")
    res.count("quote_sites_inside_QuotedString (positive control)", allowed_sites, floor=3)
    res.count("quote_sites_elsewhere", other_sites)

    # ---- R2 escape table from the syntax of QuotedString::fmt
    sf = syn.fn_for(qfmt)
    esc = {}
    default_identity = False
    if sf:
        for m in find_all(sf["body"], lambda n: n.get("k") == "match"):
            for arm in m["arms"]:
                p = arm["pat"]
                w = find_all(arm["body"], lambda n: n.get("k") == "macro" and "template_raw" in n)
                if p["k"] == "lit" and p["e"]["t"] == "char" and w:
                    esc[p["e"]["v"]] = w[0]["template_raw"]
                elif p["k"] == "ident" and w and w[0]["template_raw"] == "{%s}" % p["name"]:
                    default_identity = True
    key = "K8|escape-table"
    ok = esc.get('"') == '\\"' and esc.get("\\") == "\\\\" and default_identity and set(esc) == {'"', "\\"}
    res.site(key, True, {"escape_map": esc, "default_arm_is_identity": default_identity, "verdict": "ok" if ok else "VIOLATION"})
    if not ok:
        res.find(key, qfmt.loc(), "QuotedString::fmt does not implement the escape table {\" -> \\\", \\ -> \\\\, c -> c}: found %s (identity default: %s)" % (esc, default_identity), "a string with a backslash directly followed by a quote: `a\\\"b`")
    # un-escape list
    un = [f for f in db.fns if f.path.endswith("lexer::quoted_strings::unescaped_quoted_string")]
    unc = [f for f in db.fns if "lexer::quoted_strings::unescaped_quoted_string::{closure" in f.path]
    key = "K8|unescape-table"
    if not un:
        res.missing_anchor("unescaped_quoted_string")
    else:
        pairs = []
        for g in un + unc:
            for bb, t, c in g.calls():
                if c and callee_path(c) == "std::str::<impl str>::replace" or (c and callee_path(c).endswith("impl str>::replace")):
                    a = [fn_expr_operand(g, x) for x in t["args"][1:3]]
                    if len(a) == 2 and a[0][0] == "const" and a[1][0] == "const":
                        pairs.append((a[0][1], a[1][1]))
        if not pairs:
            res.site(key, False, {"verdict": "undecided: the un-escaper is not a chain of str::replace calls"})
            res.undecided.append("unescape-table: implementation shape not recognised (not a str::replace chain)")
        else:
            want = {('\\"', '"'), ("\\\\", "\\")}
            ok = set(pairs) == want
            res.site(key, True, {"replacements_in_order": pairs, "verdict": "ok" if ok else "VIOLATION"})
            if not ok:
                res.find(key, un[0].loc(), "the lexer un-escapes %s, which is not the inverse of the writer's escape table {\\\" -> \", \\\\ -> \\}" % (pairs,), "a string containing `\\` or `\"` does not survive print + parse")
        # escaping must be enabled in the scanner
        sfu = syn.fn_for(un[0])
        if sfu:
            calls = find_all(sfu["body"], lambda n: n.get("k") == "call" and src(n["f"]).endswith("surrounded"))
            ok = bool(calls) and len(calls[0]["args"]) == 3 and src(calls[0]["args"][0]) == "'\"'" and src(calls[0]["args"][1]) == "'\"'" and src(calls[0]["args"][2]) == "True"
            res.site("K8|scanner-args", True, {"surrounded_args": [src(a) for a in calls[0]["args"]] if calls else None, "verdict": "ok" if ok else "VIOLATION"})
            if not ok:
                res.find("K8|scanner-args", un[0].loc(), "the string scanner is not invoked as surrounded('\"', '\"', true): escaped quotes inside strings are not skipped")

    # ---- R3 parser string fields -> QuotedString in the writer
    fields = set()
    for sfn in syn.fns:
        if not sfn["module"].startswith("quil_rs::parser"):
            continue
        names = set()
        ctors = []

        def is_string_token(n):
            return n.get("k") == "macro" and n["name"].rsplit("::", 1)[-1] == "token" and re.match(r"\s*String\s*\(", n.get("raw", ""))

        for st in find_all(sfn["body"], lambda n: n.get("k") == "local" and n.get("init")):
            if find_all(st["init"], is_string_token):
                pt = st["pat"]
                if pt["k"] == "tuple" and len(pt["ps"]) == 2 and pt["ps"][1]["k"] == "ident":
                    names.add(pt["ps"][1]["name"])
        for c in find_all(sfn["body"], lambda n: n.get("k") == "call" and src(n["f"]).rsplit("::", 1)[-1] == "map" and len(n["args"]) == 2):
            if is_string_token(unparen(c["args"][0])) and c["args"][1].get("k") == "path":
                fields.add(tuple(c["args"][1]["p"].split("::")[-2:]) + ("0",))
        for se in find_all(sfn["body"], lambda n: n.get("k") == "struct" and "fields" in n and n["fields"] and "e" in n["fields"][0]):
            for fl in se["fields"]:
                e = unparen(fl["e"])
                if e.get("k") == "path" and e["p"] in names:
                    fields.add((se["path"].split("::")[-1], None, fl["n"]))
    res.count("parser_string_fields", len(fields), floor=5)
    by_short = {}
    for w in writers:
        by_short.setdefault(w.impl_self_path().rsplit("::", 1)[-1], []).append(w)
    for (ty, variant, field) in sorted(fields, key=str):
        ws = by_short.get(ty, [])
        key = "K8|string-field-quoted|%s.%s" % (ty if variant is None else ty + "::" + variant, field)
        if len(ws) != 1:
            res.find(key, "-", "no unique Quil writer found for parser type %s" % ty)
            continue
        w = ws[0]
        want = (field,) if variant is None else ("as:" + variant, field)
        ok = False
        for g in [w] + db.closures_of(w):
            for i, j, s in g.stmts():
                if s["k"] == "assign" and s["rv"]["k"] == "agg" and s["rv"]["a"]["k"] == "adt" and s["rv"]["a"]["path"] == QS:
                    from qv.engine import fn_expr_operand as feo

                    for r in k2.expr_paths(feo(g, s["rv"]["ops"][0])):
                        if r[1][: len(want)] == want or (g is not w and True and r[1][:1] and r[1][0].startswith("cap")):
                            ok = ok or (g is w) or _closure_capture_is(db, w, g, r, want)
        res.site(key, True, {"field": "%s.%s" % (ty, field), "writer": w.path, "verdict": "quoted via QuotedString" if ok else "VIOLATION"})
        if not ok:
            res.find(key, w.loc(), "the parser fills %s.%s from a quoted-string token, but <%s as Quil>::write does not write it through QuotedString: quotes/backslashes in it are not escaped" % (ty, field, ty), "`DELAY 0 \"a\\\"b\" 1.0` prints `DELAY 0 \"a\"b\" 1`, which fails to parse")
    # K6 serialized text is emitted verbatim: a writer that takes the text of a nested value (to_quil / to_quil_or_debug /
    #    format!) and re-processes it by lines or by substitution changes the content of any string literal that contains
    #    the affected characters
    from qv.engine import fn_expr_operand as _op, walk_expr as _wx, callee_path as _cp
    REPROCESS = {"split", "lines", "split_terminator", "replace", "replacen", "trim", "trim_end", "trim_start", "split_whitespace", "to_uppercase", "to_lowercase", "split_inclusive", "rsplit", "splitn"}
    writers_ = [f for f in db.fns if f.name == "write" and f.path.endswith("as quil_rs::quil::Quil>::write")]
    # ... and the helpers they share (anything that takes the fall_back_to_debug flag, e.g. write_instruction_block)
    from qv.props.c04 import flag_param as _flag_param

    writers_ += [f for f in db.fns if f not in writers_ and f.kind in ("Fn", "AssocFn") and not f.is_derived() and _flag_param(f) is not None and f.name not in ("to_quil", "to_quil_or_debug")]
    nre = 0
    for w in writers_:
        for g in [w] + db.closures_of(w):
            for bb, t, c in g.calls():
                if not (c and c.get("name") in REPROCESS and t["args"]):
                    continue
                if "str" not in _cp(c) and "String" not in _cp(c):
                    continue
                e = _op(g, t["args"][0])
                ns = []
                _wx(e, ns.append)
                srcs = [n[1].rsplit("::", 1)[-1] for n in ns if n[0] == "call" and n[1] and n[1].rsplit("::", 1)[-1] in ("to_quil", "to_quil_or_debug", "format", "to_string")]
                if not srcs:
                    continue
                nre += 1
                key = "K6|serialized-text-reprocessed|%s" % (w.impl_self_path() or w.path)
                res.site(key, True, {"operation": c.get("name"), "on_result_of": sorted(set(srcs)), "verdict": "VIOLATION"})
                res.find(key, g.loc(t.get("sp")), "the writer of %s re-processes the serialized text of a nested value with str::%s: a string literal inside it that contains the affected characters is changed" % ((w.impl_self_path() or w.path).replace("quil_rs::", ""), c.get("name")),
                         "`DEFCIRCUIT FOO:\n    PRAGMA note \"a<newline>b\"`: the line break inside the string comes back followed by four spaces")
    res.site("K6|serialized-text-reprocessed", True, {"writers": len(writers_), "reprocessing_sites": nre})
    # K7 the end of a quoted string is found with escape-parity tracking: whether a quote is escaped depends on the parity of
    #    the run of escape characters before it, which no bounded look-behind can decide.  The scanner must toggle a flag on
    #    every escape character (or compute a run length modulo 2), or delegate to nom's `escaped*` combinators
    key = "K7|escape-parity-tracked"
    scan = [f for f in db.fns if f.path.startswith("quil_rs::parser::lexer::quoted_strings::surrounded")]
    if not scan:
        res.missing_anchor("parser::lexer::quoted_strings::surrounded")
    else:
        from qv.engine import fn_expr_operand as _op2, callee_path as _cp2
        parity = []
        for g in scan:
            # a boolean toggled (x = !x) in a block controlled by a comparison of the current character with a constant
            for b_ in range(len(g.blocks)):
                for s_ in g.blocks[b_]["s"]:
                    if s_["k"] == "assign" and s_["rv"]["k"] == "un" and s_["rv"]["op"] == "Not" and db.ty_s(g.locals[s_["p"]["l"]]["t"]) == "bool":
                        for sb, tgt in g.control_deps(b_, transitive=False):
                            tt = g.blocks[sb]["t"]
                            if tt["k"] == "switch":
                                e = _op2(g, tt["d"])
                                if e[0] == "bin" and e[1] in ("Eq", "Ne") and any(x[0] == "const" for x in (e[2], e[3])):
                                    parity.append("toggle on %s" % ([x[1] for x in (e[2], e[3]) if x[0] == "const"][0]))
                    if s_["k"] == "assign" and s_["rv"]["k"] == "bin" and s_["rv"]["op"] in ("Rem", "BitAnd"):
                        k_ = s_["rv"]["b"].get("k") or {}
                        if str(k_.get("int")) in ("2", "1"):
                            parity.append("run length parity")
            for bb, t, c in g.calls():
                if c and _cp2(c).rsplit("::", 1)[-1] in ("escaped", "escaped_transform"):
                    parity.append("nom::" + _cp2(c).rsplit("::", 1)[-1])
        ok = bool(parity)
        res.site(key, True, {"mechanism": sorted(set(parity)), "verdict": "ok" if ok else "VIOLATION"})
        if not ok:
            res.find(key, scan[0].loc(), "the quoted-string scanner does not track the parity of escape characters before a closing quote (no flag toggled per escape character, no run-length parity, no nom escaped combinator): a bounded look-behind misjudges `\\\\\\\"`", "the value `say \\\"hi\\\"` is written as `say \\\\\\\"hi...` and the lexer ends the literal early")
    # quoted text is never rebuilt byte by byte: a char made from a single byte re-encodes every non-ASCII character
    from qv.props.common import byte_to_char_sites

    key = "K6|byte-to-char-conversion"
    lexfns = [f for f in db.fns if not f.is_derived() and (f.path.startswith("quil_rs::parser::lexer") or f.path.startswith("quil_rs::instruction::QuotedString") or "QuotedString" in f.path)]
    hits = byte_to_char_sites(db, lexfns)
    res.site(key, True, {"functions_scanned": len(lexfns), "conversions": [h[0].path for h in hits], "verdict": "ok" if not hits else "VIOLATION"})
    res.count("lexer_and_quoting_functions", len(lexfns), floor=20)
    if hits:
        res.find(key, hits[0][0].loc(hits[0][1]), "%s builds a char from a single byte (%s) while handling quoted text: non-ASCII characters do not survive" % (hits[0][0].path.replace("quil_rs::", ""), hits[0][2]), "`PRAGMA note \"µ\"` comes back as `Âµ`")
    res.explanation = (
        "Effect confinement for the quote character over the %d functions reachable from the %d Quil::write impls (MIR constants and un-expanded templates, two independent readings): "
        "%d quoting sites inside QuotedString::fmt (positive control), %d elsewhere (must be 0). The escape table extracted from QuotedString::fmt and the str::replace list of the lexer must be inverse; "
        "%d parser fields filled from string tokens must be written through QuotedString.  Does not decide the scanning loop of the lexer." % (len(local), len(writers), allowed_sites, other_sites, len(fields))
    )
    res.assumptions = ["str::replace replaces all non-overlapping matches left to right", "sequential un-escaping (\\\" then \\\\, in either order) inverts the writer's escaping on its own outputs (argument in DESIGN.md C07)"]
    return res


def _closure_capture_is(db, w, g, r, want):
    return False
