"""C10 A program's used-qubit set and equality depend only on its content.

Decides three necessary conditions for the hand-maintained cache `Program::used_qubits`
(which the derived `==` compares):
  R1 (K6)  every function that adds to / replaces content of a qubit-bearing store of an existing
           Program also updates the cache (or rebuilds it) on every path to its return;
  R2       a Program struct literal with a fresh empty cache but a non-empty qubit-bearing store
           must be followed on every path by a cache rebuild / extension from that store;
  R3 (K2)  `Instruction::get_qubits` (what "mentioned" means) and `get_qubits_mut` cover every
           variant whose payload holds a Qubit, and cover the same variants.
Not decided: stale supersets after removals; histories in general."""
import re

from qv.engine import callee_of, callee_path, fn_expr_operand, expr_calls
from qv.props import c09
from qv.props.common import require_fn
from qv.report import Result
from qv.rules import k2_coverage as k2

PROGRAM = "quil_rs::program::Program"
INSTRUCTION = "quil_rs::instruction::Instruction"
QUBIT = "quil_rs::instruction::qubit::Qubit"
CACHE = "used_qubits"
# definition templates whose Qubit values are formal parameters of the definition, not program qubits
TEMPLATE_VARIANTS = {
    "GateDefinition": "DEFGATE ... AS SEQUENCE bodies mention only the definition's formal qubit variables",
    "CircuitDefinition": "DEFCIRCUIT bodies mention only the circuit's formal qubit variables",
}
REMOVAL = re.compile(r"(::clear$|::retain$|::intersection$|::truncate$|as std::default::Default>::default$|::new$|::drain$|::iter_mut$|::get_mut$|::values_mut$)")
REBUILD_NAMES = ("rebuild_used_qubits", "add_instruction", "add_instructions")


def fresh_empty(e):
    """is an origin expression a freshly created empty collection?"""
    if e[0] == "call":
        return bool(re.search(r"(::new$|as std::default::Default>::default$|::with_capacity$|::default$)", e[1])) and not any(x[0] == "param" for x in e[2])
    return False


def cache_touch_blocks(db, fn):
    """blocks in fn that write the cache field of a Program or call a rebuild/add function"""
    out = set()
    for i, j, s in fn.stmts():
        if s["k"] != "assign":
            continue
        for pl in (s["p"], s["rv"].get("p") if s["rv"]["k"] == "ref" and s["rv"].get("m") == "mut" else None):
            if pl:
                for pr in pl["pr"]:
                    if isinstance(pr, dict) and pr.get("o") == PROGRAM and pr.get("n") == CACHE:
                        out.add(i)
    for bb, t, c in fn.calls():
        if c and c.get("name") in REBUILD_NAMES and callee_path(c).startswith(PROGRAM + "::"):
            out.add(bb)
    return out


def run(ctx):
    res = Result("C10")
    db = ctx.db("quil_rs")
    res.rules += [
        "R1 (K6) additions to a qubit-bearing Program store are mirrored in used_qubits on every path",
        "R2 a Program literal with an empty cache and a non-empty qubit-bearing store is followed by a rebuild on every path",
        "R3 (K2) get_qubits / get_qubits_mut cover every variant holding a Qubit, identically",
    ]
    gq = require_fn(db, res, INSTRUCTION + "::get_qubits")
    gqm = require_fn(db, res, INSTRUCTION + "::get_qubits_mut")
    to_i = require_fn(db, res, PROGRAM + "::to_instructions")
    add_i = require_fn(db, res, PROGRAM + "::add_instruction")
    if not (gq and gqm and to_i and add_i):
        return res
    qpred = k2.is_adt(QUBIT)

    # ---- R3 coverage
    m1, cov = k2.coverage(db, gq, INSTRUCTION, qpred)
    m2, covm = k2.coverage(db, gqm, INSTRUCTION, qpred)
    if m1 is None or m2 is None:
        res.missing_anchor("match on Instruction in get_qubits/get_qubits_mut")
        return res
    covered = set()
    for v in sorted(cov):
        for fn_, cv, tag in ((gq, cov[v], "get_qubits"), (gqm, covm[v], "get_qubits_mut")):
            key = "K2|%s|%s" % (tag, v)
            ok = cv["arm"] == "explicit" and not cv["missing"]
            if v in TEMPLATE_VARIANTS and not ok:
                res.site(key, True, {"variant": v, "verdict": "exception: " + TEMPLATE_VARIANTS[v]})
                res.exceptions.append((key, TEMPLATE_VARIANTS[v]))
                continue
            res.site(key, True, {"fn": tag, "variant": v, "required_fields": [".".join(p) for p in cv["required"]], "missing": [".".join(p) for p in cv["missing"]], "arm": cv["arm"], "verdict": "ok" if ok else "VIOLATION"})
            if ok:
                if tag == "get_qubits":
                    covered.add(v)
            else:
                res.find(key, fn_.loc(), "Instruction::%s holds Qubit values in field(s) %s but %s %s: those qubits are never reported (used-qubit set, placeholder resolution and RESET frame matching miss them)" % (v, [".".join(p[1:]) for p in cv["missing"]], tag, "handles it only in the catch-all arm" if cv["arm"] == "catch-all" else "does not read them"), "a program whose only mention of qubit 7 is in an Instruction::%s does not list 7 in get_used_qubits()" % v)
    res.count("variants_holding_qubits", len(cov), floor=15)

    # ---- qubit-bearing stores: stores whose listing re-creates a covered variant
    routing = {}
    ms = [m for m in db.matches_by_owner.get(add_i.path, []) if m["k"] == "match" and db.types[m["scrut_t"]].get("path") == INSTRUCTION]
    muts = c09.fields_mutated(db, add_i)
    from qv.props.common import in_span

    bearing = set()
    if ms:
        for arm in ms[0]["arms"]:
            vs, catch = k2.arm_variants(arm, INSTRUCTION)
            stores = {f for f, sps in muts.items() for sp in sps if in_span(sp, arm["body_sp"])} - {CACHE}
            if (vs & covered) or catch:
                bearing |= stores
    res.analysed["qubit_bearing_stores"] = sorted(bearing)
    if not bearing:
        res.missing_anchor("qubit-bearing stores of Program")

    # ---- R1: who mutates qubit-bearing stores of an existing Program
    nmut = 0
    for f in db.fns:
        if f.is_derived():
            continue
        touched = {}
        for i, j, s in f.stmts():
            if s["k"] != "assign":
                continue
            pls = [("store", s["p"])]
            if s["rv"]["k"] == "ref" and s["rv"].get("m") == "mut":
                pls.append(("mutref", s["rv"]["p"]))
            for how, pl in pls:
                for pr in pl["pr"]:
                    if isinstance(pr, dict) and pr.get("o") == PROGRAM and pr.get("n") in bearing:
                        touched.setdefault(pr["n"], []).append((i, j, s, how))
        if not touched:
            continue
        ctb = cache_touch_blocks(db, f)
        for store, sites in sorted(touched.items()):
            for (bb, j, s, how) in sites:
                nmut += 1
                # what is done with the borrow?  find the call that consumes it
                use = None
                if how == "mutref":
                    l = s["p"]["l"]
                    for b2, t2, c2 in f.calls():
                        if any((a.get("m") or a.get("c") or {}).get("l") == l for a in t2["args"]):
                            use = callee_path(c2) if c2 else "?"
                removal = bool(use and REMOVAL.search(use)) or (how == "store" and fresh_empty(fn_rv(f, s)))
                key = "K6|cache-mirror|%s|%s" % (f.path, store)
                dom = f.dominators().get(bb, set())
                # content merged in from ANOTHER Program (a Program-typed parameter other than self): the cache update has
                # to account for that program's share of this store -- a rebuild, a union with that program's cache, or
                # add_instruction(s) fed from the same store of it; adding only its body does not cover its definitions
                ctb_here = ctb
                merged_from = None
                if how == "mutref":
                    l = s["p"]["l"]
                    for b2, t2, c2 in f.calls():
                        if c2 and len(t2["args"]) >= 2 and (t2["args"][0].get("m") or t2["args"][0].get("c") or {}).get("l") == l:
                            from qv.engine import walk_expr as _we10
                            hit = []
                            _we10(fn_expr_operand(f, t2["args"][1]), lambda n: hit.append(n[1][1]) if n[0] == "field" and n[2] == store and n[1][0] == "param" and n[1][1] != 1 and "quil_rs::program::Program" in f.local_ty(n[1][1])["s"] else None)
                            if hit:
                                merged_from = hit[0]
                if merged_from is not None:
                    ctb_here = set()
                    for b3, t3, c3 in f.calls():
                        if not c3:
                            continue
                        nm3 = c3.get("name")
                        if nm3 == "rebuild_used_qubits" and callee_path(c3).startswith(PROGRAM + "::"):
                            ctb_here.add(b3)
                        elif len(t3["args"]) >= 2:
                            recv3 = fn_expr_operand(f, t3["args"][0])
                            arg3 = fn_expr_operand(f, t3["args"][1])
                            names3 = []
                            _we10(arg3, lambda n: names3.append(n[2]) if n[0] == "field" and n[1][0] == "param" and n[1][1] == merged_from else None)
                            if nm3 in ("extend", "union", "append") and CACHE in c09.self_fields(recv3) and CACHE in names3:
                                ctb_here.add(b3)
                            if nm3 in ("add_instruction", "add_instructions") and callee_path(c3).startswith(PROGRAM + "::") and store in names3:
                                ctb_here.add(b3)
                ok = removal or bb in ctb_here or bool(dom & ctb_here) or f.all_paths_pass(bb, ctb_here)
                res.site(key, True, {"fn": f.path, "store": store, "how": how, "via": use, "removal_type": removal, "merged_from_program_param": merged_from, "cache_update_on_all_paths": ok, "verdict": "ok" if ok else "VIOLATION"})
                if not ok:
                    res.find(key, f.loc(s["sp"]), "%s mutates store `%s` of a Program (%s) without updating `used_qubits` (or rebuilding it) on every path to its return" % (f.path, store, use or how), "add an instruction mentioning a new qubit through this function: get_used_qubits() misses it and the program is != an equal-content program")
    res.count("store_mutation_sites", nmut, floor=10)

    # ---- R4: a function that re-assigns the cache wholesale must derive it from every qubit-bearing store on every path
    nre = 0
    for f in db.fns:
        if f.is_derived() or f.impl_self_path() != PROGRAM:
            continue
        whole = []
        for i, j, s in f.stmts():
            if s["k"] == "assign" and s["p"]["l"] == 1:
                prs = [pr for pr in s["p"]["pr"] if isinstance(pr, dict) and "n" in pr]
                if len(prs) == 1 and prs[0].get("o") == PROGRAM and prs[0]["n"] == CACHE:
                    whole.append((i, s))
        if not whole:
            continue
        nre += 1
        # a rebuild that enumerates the qubits of a definition by hand (instead of asking get_qubits of the listed
        # instruction) must read every Qubit-holding field of that definition type
        fam = [f] + [g_ for g_ in db.fns if g_.path.startswith(f.path + "::{closure")]
        for g_ in fam:
            for pi in range(1, g_.argc + 1):
                ty = g_.local_ty(pi)
                while ty["k"] in ("ref", "ptr"):
                    ty = db.types[ty["t"]]
                if ty["k"] == "tuple" and ty.get("ts"):
                    continue
                if ty["k"] != "adt" or ty["path"] in (PROGRAM, INSTRUCTION) or ty["path"] not in db.adts:
                    continue
                adt_ = db.adts[ty["path"]]
                if adt_["kind"] != "Struct" or g_ is f and pi == 1:
                    continue
                required = sorted(fl["n"] for fl in adt_["variants"][0]["fields"] if db.ty_contains(fl["t"], qpred))
                if not required:
                    continue
                reads_ = k2.deep_read_paths(db, g_, pi, 2)
                whole_ = any(r == () for r in reads_) and not any(r for r in reads_)
                missing = [] if whole_ else [x for x in required if not any(r and r[0] == x for r in reads_)]
                key = "K2|rebuild-element-coverage|%s" % ty["path"].rsplit("::", 1)[-1]
                res.site(key, True, {"element_type": ty["path"], "qubit_holding_fields": required, "read": sorted({r[0] for r in reads_ if r}), "verdict": "ok" if not missing else "VIOLATION"})
                if missing:
                    res.find(key, g_.loc(), "%s collects the qubits of a %s by hand but never reads its field(s) %s, which can hold qubits" % (f.path, ty["path"].rsplit("::", 1)[-1], missing), "`DEFCAL MEASURE 0 addr: FENCE 7` followed by anything that rebuilds the cache: qubit 7 is dropped from the used-qubit set")
        # cache-writing sites of f and the stores whose content flows into the written value
        from qv.engine import fn_expr_rvalue, walk_expr

        def stores_in(e):
            """Program stores (and `store.substore` for stores that are themselves structs of several qubit-bearing
            collections) whose content flows into e"""
            out = set()

            def v(n):
                if n[0] == "field" and n[1][0] == "param" and n[1][1] == 1:
                    out.add(n[2])
                if n[0] == "field" and n[1][0] == "field" and n[1][1][0] == "param" and n[1][1][1] == 1:
                    out.add("%s.%s" % (n[1][2], n[2]))
                if n[0] == "call" and n[2]:
                    hs = db.by_path.get(n[1], [])
                    a0 = n[2][0]
                    if len(hs) == 1 and a0[0] == "param" and a0[1] == 1:
                        for pth in k2.deep_read_paths(db, hs[0], 1, 3):
                            if pth:
                                out.add(pth[0])
                            if len(pth) >= 2:
                                out.add("%s.%s" % (pth[0], pth[1]))
                    if len(hs) == 1 and a0[0] == "field" and a0[1][0] == "param" and a0[1][1] == 1:
                        for pth in k2.deep_read_paths(db, hs[0], 1, 2):
                            if pth:
                                out.add("%s.%s" % (a0[2], pth[0]))

            walk_expr(e, v)
            return out

        writes = []  # (block, stores)
        for i, s_ in whole:
            rv_e = fn_expr_rvalue(f, s_["rv"])
            sts = stores_in(rv_e)
            # the assigned value may be a local collection filled beforehand: `let mut q = HashSet::new(); .. q.extend(..); self.used_qubits = q`
            if rv_e[0] == "call" and rv_e[1] and rv_e[1].rsplit("::", 1)[-1] in ("new", "default", "with_capacity", "with_capacity_and_hasher", "with_hasher"):
                for bb2, t2, c2 in f.calls():
                    if c2 and c2.get("name") in ("extend", "insert", "push", "append", "union") and len(t2["args"]) >= 2:
                        r2 = fn_expr_operand(f, t2["args"][0])
                        if r2[0] == "call" and r2[1] == rv_e[1] and r2[3] == rv_e[3]:
                            sts |= stores_in(fn_expr_operand(f, t2["args"][1]))
            writes.append((i, sts))
        for bb, t, c in f.calls():
            if c and c.get("name") in ("extend", "insert", "union", "append") and len(t["args"]) >= 2:
                recv = fn_expr_operand(f, t["args"][0])
                if CACHE in c09.self_fields(recv):
                    writes.append((bb, stores_in(fn_expr_operand(f, t["args"][1]))))
        # stores that are structs of several qubit-bearing collections must be covered collection by collection
        padt = db.adts.get(PROGRAM)
        sub_required = []
        for fdef in padt["variants"][0]["fields"]:
            if fdef["n"] not in bearing:
                continue
            ty = db.types[fdef["t"]]
            if ty["k"] == "adt" and ty["path"] in db.adts and db.adts[ty["path"]]["kind"] == "Struct":
                subs = [g_["n"] for g_ in db.adts[ty["path"]]["variants"][0]["fields"] if db.ty_contains(g_["t"], qpred)]
                if len(subs) >= 2:
                    sub_required += ["%s.%s" % (fdef["n"], x) for x in subs]
        for store in sorted(bearing) + sub_required:
            blocks = {bb for bb, sts in writes if store in sts}
            key = "R4|rebuild-covers|%s|%s" % (f.path, store)
            ok = bool(blocks) and f.all_paths_pass(0, blocks)
            res.site(key, True, {"fn": f.path, "store": store, "read_in_blocks": sorted(blocks), "on_all_paths": ok, "verdict": "ok" if ok else "VIOLATION"})
            if not ok:
                res.find(key, f.loc(), "%s re-assigns the used-qubit cache but reads store `%s` %s: after it the cache can miss qubits mentioned only there" % (f.path, store, "only on some paths" if blocks else "nowhere"), "a program whose only mention of a qubit is in `%s`, then an operation that rebuilds the cache (resolve_placeholders / expand_defgate_sequences)" % store)
    res.count("cache_reassigning_functions", nre, floor=1)

    # ---- R2: struct literals
    nlit = 0
    adt = db.adts.get(PROGRAM)
    for f in db.fns:
        if f.is_derived():
            continue
        for i, j, s in f.stmts():
            if not (s["k"] == "assign" and s["rv"]["k"] == "agg" and s["rv"]["a"]["k"] == "adt" and s["rv"]["a"]["path"] == PROGRAM):
                continue
            nlit += 1
            flds = dict(zip(s["rv"]["a"]["fields"], s["rv"]["ops"]))
            cache_e = fn_expr_operand(f, flds[CACHE])
            if not fresh_empty(cache_e):
                # a cache carried over from another Program value is right only if every qubit-bearing store is carried
                # over from that same value too; otherwise it can be a stale superset (or miss qubits), so a rebuild
                # must follow on every path
                from qv.engine import walk_expr as _we10b

                def carried(e_, fld):
                    hit = []
                    _we10b(e_, lambda n: hit.append(n[1][1]) if n[0] == "field" and n[2] == fld and n[1][0] == "param" else None)
                    return set(hit)

                src = carried(cache_e, CACHE)
                key = "R2|carried-cache-literal|%s" % f.path
                if src:
                    differing = [st for st in sorted(bearing) if not (carried(fn_expr_operand(f, flds[st]), st) & src) or fn_expr_operand(f, flds[st])[0] == "phi"]
                    # a field written as `x.clone()` / moved is a plain projection or a clone call of it
                    differing = [st for st in differing]
                    good = {bb for bb, t, c in f.calls() if c and callee_path(c).startswith(PROGRAM + "::") and c.get("name") == "rebuild_used_qubits"}
                    ok1 = not differing or f.all_paths_pass(i, good)
                    res.site(key, True, {"fn": f.path, "cache_from_param": sorted(src), "stores_not_carried_over_with_it": differing, "rebuild_on_all_paths": bool(differing) and ok1, "verdict": "ok" if ok1 else "VIOLATION"})
                    if not ok1:
                        res.find(key, f.loc(s["sp"]), "%s builds a Program that takes over the used-qubit cache of another program value while its stores %s do not come from that value, and does not rebuild the cache: qubits that are no longer mentioned stay in the set" % (f.path, differing), "expanding `seq1(pi) 0 7` where the sequence body never uses its second qubit: 7 is gone from the instructions but still a used qubit")
                else:
                    res.site("R2|literal|%s" % f.path, True, {"fn": f.path, "cache": "not fresh-empty, not a carried-over cache", "verdict": "ok"})
                continue
            nonempty = [st for st in sorted(bearing) if not fresh_empty(fn_expr_operand(f, flds[st]))]
            # the rebuild must cover the non-empty stores: rebuild_used_qubits does; add_instruction(s) only covers the body
            ok = True
            for st in nonempty:
                good = set()
                for bb, t, c in f.calls():
                    if c and callee_path(c).startswith(PROGRAM + "::") and c.get("name") == "rebuild_used_qubits":
                        good.add(bb)
                key = "R2|empty-cache-literal|%s|%s" % (f.path, st)
                ok1 = f.all_paths_pass(i, good)
                res.site(key, True, {"fn": f.path, "store_kept": st, "rebuild_on_all_paths": ok1, "verdict": "ok" if ok1 else "VIOLATION"})
                if not ok1:
                    res.find(key, f.loc(s["sp"]), "%s builds a Program whose `%s` store is carried over but whose used-qubit cache starts empty and is not rebuilt: the result differs (derived ==) from a program with the same listing" % (f.path, st), "`DEFCAL X 0:\\n\\tNOP` (no body): result has the same instruction listing as a parsed copy but an empty used-qubit set, so `==` is false")
            if not nonempty:
                res.site("R2|literal|%s" % f.path, True, {"fn": f.path, "verdict": "ok (all qubit-bearing stores fresh)"})
    res.count("program_struct_literals", nlit, floor=3)
    # ---- R5: the cache is only ever extended by add_instruction, so replacing a qubit-bearing definition (same key, new
    #      value) leaves the replaced value's qubits behind unless the replacement triggers a rebuild
    nrep = 0
    for bb, t, c in add_i.calls():
        if not c or not (c.get("name") or "").startswith("insert"):
            continue
        dty = db.types[add_i.locals[t["dest"]["l"]]["t"]]
        if not (dty["k"] == "adt" and dty["path"] == "std::option::Option" and dty.get("args")):
            continue
        inner = db.types[dty["args"][0]]
        if not (inner["k"] == "adt" and db.ty_contains(dty["args"][0], qpred)):
            continue
        vname = inner["path"].rsplit("::", 1)[-1]
        if vname not in covered:
            continue  # get_qubits does not report this kind (templates): replacing it cannot leave anything behind
        nrep += 1
        key = "K6|replaced-definition-stale-cache|%s" % vname
        ok = False
        dest = t["dest"]["l"]
        for sb in range(len(add_i.blocks)):
            tt = add_i.blocks[sb]["t"]
            if tt["k"] != "switch":
                continue
            e = fn_expr_operand(add_i, tt["d"])
            ns = []
            walk_expr(e, ns.append)
            if any(n[0] == "call" and n[3] == bb and n[1] == callee_path(c) for n in ns):
                # some successor side calls rebuild_used_qubits before returning
                for succ in set(add_i.succs(sb)):
                    reb = {b2 for b2, t2, c2 in add_i.calls() if c2 and c2.get("name") == "rebuild_used_qubits"}
                    if reb and any(b2 in add_i.reachable_blocks(succ) for b2 in reb) and not all(b2 in add_i.reachable_blocks(x) for x in set(add_i.succs(sb)) for b2 in reb):
                        ok = True
        # an unconditional rebuild after the insert is fine too
        if not ok:
            reb = {b2 for b2, t2, c2 in add_i.calls() if c2 and c2.get("name") == "rebuild_used_qubits"}
            ok = bool(reb) and add_i.all_paths_pass(t.get("t", bb), reb)
        res.site(key, True, {"insert": callee_path(c).rsplit("::", 1)[-1], "verdict": "ok" if ok else "VIOLATION"})
        if not ok:
            res.find(key, add_i.loc(t.get("sp")), "add_instruction replaces an existing %s (same key) without rebuilding the used-qubit cache: qubits mentioned only by the replaced definition stay in the set" % vname, "`DEFCAL X 0: Y 1` then `DEFCAL X 0: Y 2`: get_used_qubits() still contains 1, and the program differs from the one rebuilt from its own listing")
    res.count("replaceable_qubit_bearing_definitions", nrep, floor=2)
    res.explanation = (
        "Who-may-write / mirror rule for the used-qubit cache: %d mutation sites of qubit-bearing stores (%s) and %d Program struct literals in the crate were enumerated; "
        "each must keep the cache in step on every path (CFG must-pass-through).  K2 coverage: of the %d Instruction variants whose payload type contains a Qubit, "
        "get_qubits and get_qubits_mut must each read every Qubit-holding field in an explicit arm.  Decides necessary conditions of 'cache equals qubits mentioned'; "
        "does not track removals/histories." % (nmut, sorted(bearing), nlit, len(cov))
    )
    res.assumptions = ["Program's derived PartialEq compares used_qubits (qfacts: derive present)"]
    return res


def fn_rv(f, s):
    from qv.engine import fn_expr_rvalue

    return fn_expr_rvalue(f, s["rv"])
