"""C15 Gate modifiers, daggers and program unitaries compose correctly (composition skeleton).

  R1 (K2)  gate_matrix handles all three GateModifier variants explicitly (no catch-all);
  R2 (K8)  end agreement: the constructors (Gate::dagger/controlled/forked) put the new modifier and the new qubit at
           one end of their vectors; gate_matrix must take the modifier it processes from that same end of `modifiers`
           and drop the qubit from that same end of `qubits` - otherwise a stacked CONTROLLED/FORKED pair is applied
           to each other's qubit;
  R3 (K5)  Dagger arm = conj . transpose of the recursive result; Controlled arm = kron(P0, eye(dim(M))) + kron(P1, M);
           Forked arm = kron(P0, M(first half of the parameters)) + kron(P1, M(second half)), guarded against an odd
           count, with P0 = [[1,0],[0,0]] and P1 = [[0,0],[0,1]] read from the statics' initialisers;
  R4 (K5)  Gate::forked is guarded by the parameter-count check (`!=`) and appends the alternative parameters after the
           existing ones; constructors insert at index 0;
  R5 (K5)  Program::to_unitary starts from eye(2^n), folds the body in order with `U_gate.dot(acc)` (later gates on the
           left), ignores HALT and rejects everything else; Program::dagger folds the instruction list from the right and
           applies Gate::dagger to every gate; lifted_gate_matrix conjugates with the permutation (P^dagger . V . P).
Not decided: numeric content (unitarity, the tables of gate matrices, the permutation construction)."""
from qv.engine import callee_path, fn_expr_operand, fn_expr_rvalue, fn_expr_local, walk_expr, expr_calls
from qv.props.common import aggregates, require_fn
from qv.report import Result
from qv.rules import k2_coverage as k2

G = "quil_rs::instruction::gate::"


def nodes(e):
    out = []
    walk_expr(e, out.append)
    return out


def calls_named(f, name):
    return [(bb, t, [fn_expr_operand(f, a) for a in t["args"]]) for bb, t, c in f.calls() if c and c.get("name") == name]


def field_of(e, name):
    return any(n[0] == "field" and n[2] == name for n in nodes(e))


def static_matrix(db, path):
    """2x2 real parts of a `Lazy::new(|| array![[..],[..]])` static"""
    vals = []
    for f in db.fns:
        if f.path.startswith(path + "::{closure"):
            for bb, t, c in f.calls():
                if c and c.get("name") == "new" and "Complex" in callee_path(c):
                    a = [fn_expr_operand(f, x) for x in t["args"]]
                    if a[0][0] == "const" and a[1][0] == "const":
                        vals.append((float(a[0][1]), float(a[1][1])))
    return vals


def run(ctx):
    res = Result("C15")
    db = ctx.db("quil_rs")
    res.rules += ["R1 (K2) modifier match exhaustive", "R2 (K8) constructor/consumer end agreement", "R3 (K5) per-modifier composition skeleton", "R4 (K5) constructors", "R5 (K5) program unitary / dagger folds"]
    gm = require_fn(db, res, G + "gate_matrix")
    gd, gc, gf = require_fn(db, res, G + "Gate::dagger"), require_fn(db, res, G + "Gate::controlled"), require_fn(db, res, G + "Gate::forked")
    pu, pd = require_fn(db, res, "quil_rs::program::Program::to_unitary"), require_fn(db, res, "quil_rs::program::Program::dagger")
    lg = require_fn(db, res, G + "lifted_gate_matrix")
    if not all((gm, gd, gc, gf, pu, pd, lg)):
        return res

    def check(key, ok, loc, msg, manifest, detail=None):
        res.site(key, True, dict(detail or {}, verdict="ok" if ok else "VIOLATION"))
        if not ok:
            res.find(key, loc, msg, manifest)

    # R1
    ms = k2.match_on(db, gm, G + "GateModifier")
    ok = False
    detail = {}
    if ms:
        variants = set()
        catch_all = False
        for a in ms[0]["arms"]:
            vs, catch = k2.arm_variants(a, G + "GateModifier")
            variants |= vs
            catch_all = catch_all or catch
        detail = {"variants": sorted(variants), "catch_all": catch_all}
        ok = variants == {"Controlled", "Dagger", "Forked"} and not catch_all
    check("K2|modifier-match", ok, gm.loc(), "gate_matrix does not handle exactly {Controlled, Dagger, Forked} in explicit arms (%s)" % detail, "a modifier is silently ignored when computing a unitary", detail)

    # R2 ends
    def ctor_end(f, vec):
        ends = set()
        for bb, t, a in calls_named(f, "insert"):
            if field_of(a[0], vec):
                ends.add("front" if a[1][0] == "const" and a[1][1] == 0 else "index?")
        for bb, t, a in calls_named(f, "push"):
            if field_of(a[0], vec):
                ends.add("back")
        return ends

    ctor_mod = ctor_end(gd, "modifiers") | ctor_end(gc, "modifiers") | ctor_end(gf, "modifiers")
    ctor_q = ctor_end(gc, "qubits") | ctor_end(gf, "qubits")
    cons_mod = set()
    for bb, t, a in calls_named(gm, "pop"):
        if field_of(a[0], "modifiers"):
            cons_mod.add("back")
    for bb, t, a in calls_named(gm, "remove"):
        if field_of(a[0], "modifiers"):
            cons_mod.add("front" if a[1][0] == "const" and a[1][1] == 0 else "index?")
    for nm, end in (("first", "front"), ("last", "back"), ("split_first", "front"), ("split_last", "back")):
        for bb, t, a in calls_named(gm, nm):
            if field_of(a[0], "modifiers"):
                cons_mod.add(end)
    cons_q = set()
    for i, j, s in gm.stmts():
        if s["k"] == "assign" and [p.get("n") for p in s["p"]["pr"] if isinstance(p, dict)][-1:] == ["qubits"]:
            e = fn_expr_rvalue(gm, s["rv"])
            for n in nodes(e):
                if n[0] == "agg" and n[1].endswith("RangeFrom") and n[3]["start"][0] == "const" and n[3]["start"][1] == 1:
                    cons_q.add("front")
                if n[0] == "agg" and (n[1].endswith("RangeTo") or n[1].endswith("::Range")):
                    cons_q.add("back?")
    for bb, t, a in calls_named(gm, "remove"):
        if field_of(a[0], "qubits"):
            cons_q.add("front" if a[1][0] == "const" and a[1][1] == 0 else "index?")
    for bb, t, a in calls_named(gm, "pop"):
        if field_of(a[0], "qubits"):
            cons_q.add("back")
    detail = {"constructors_put_modifier_at": sorted(ctor_mod), "constructors_put_qubit_at": sorted(ctor_q), "gate_matrix_takes_modifier_from": sorted(cons_mod), "gate_matrix_drops_qubit_from": sorted(cons_q)}
    ok = len(ctor_mod) == 1 and ctor_mod == cons_mod and len(ctor_q) == 1 and ctor_q == cons_q
    check("K8|modifier-qubit-end-agreement", ok, gm.loc(),
          "gate_matrix takes the modifier to process from the %s of `modifiers` and drops the qubit at the %s of `qubits`, but the constructors put a new modifier at the %s and its qubit at the %s: stacked modifiers are applied to each other's qubits" % ("/".join(sorted(cons_mod)) or "?", "/".join(sorted(cons_q)) or "?", "/".join(sorted(ctor_mod)), "/".join(sorted(ctor_q))),
          "CONTROLLED FORKED RX(0.3, 1.1) 2 1 0: the unitary treats qubit 2 as the fork and qubit 1 as the control", detail)

    # R3 arms
    rec = [(bb, t) for bb, t, c in gm.calls() if c and callee_path(c) == gm.path]
    krons = calls_named(gm, "kron")
    adds = calls_named(gm, "add")
    P = {"P0": [(1.0, 0.0), (0.0, 0.0), (0.0, 0.0), (0.0, 0.0)], "P1": [(0.0, 0.0), (0.0, 0.0), (0.0, 0.0), (1.0, 0.0)]}

    def proj_of(e):
        st = [n[1] for n in nodes(e) if n[0] == "static"]
        if len(st) != 1:
            return None
        v = static_matrix(db, st[0])
        for name, want in P.items():
            if v == want:
                return name
        return "other"

    def rec_bb(e):
        return sorted({c[3] for c in expr_calls(e) if c[1] == gm.path})

    # dagger: map(recursive, closure(conj . t))
    dag = [(bb, t, a) for bb, t, a in calls_named(gm, "map") if a and a[0][0] == "call" and a[0][1] == gm.path]
    ok = False
    if len(dag) == 1:
        clo = [n for n in nodes(dag[0][2][1]) if n[0] == "closure"]
        if clo:
            h = db.by_path.get(clo[0][1], [None])[0]
            if h:
                names = {c.get("name") for bb, t, c in h.calls() if c}
                inner = set()
                for h2 in db.closures_of(h):
                    inner |= {c.get("name") for bb, t, c in h2.calls() if c}
                ok = ("t" in names or "reversed_axes" in names) and ("mapv" in names or "map" in names or "mapv_into" in names) and "conj" in inner
    check("K5|dagger-arm", ok, gm.loc(), "the DAGGER arm is not conj(transpose(recursive result))", "DAGGER RX(0.3) 0 is not the adjoint of RX(0.3) 0")
    # controlled / forked sums
    sums = []
    for bb, t, a in adds:
        terms = []
        for x in a:
            k = [n for n in nodes(x) if n[0] == "call" and n[1].endswith("::kron")]
            if len(k) == 1:
                terms.append((proj_of(k[0][2][0]), k[0][2][1]))
        if len(terms) == 2:
            sums.append((bb, terms))
    ctl_ok = fork_ok = False
    fork_detail = {}
    for bb, terms in sums:
        d = dict((p, e) for p, e in terms)
        if set(d) != {"P0", "P1"}:
            continue
        r0, r1 = rec_bb(d["P0"]), rec_bb(d["P1"])
        has_eye = any(n[0] == "call" and n[1].endswith("::eye") for n in nodes(d["P0"]))
        if has_eye and len(r1) == 1 and r0 == r1 and any(n[0] == "call" and n[1].endswith("::shape") for n in nodes(d["P0"])):
            ctl_ok = True
        if not has_eye and len(r0) == 1 and len(r1) == 1 and r0 != r1:
            halves = {}
            for which, rb in (("P0", r0[0]), ("P1", r1[0])):
                st = [s for s in gm.blocks[rb]["s"] if s["k"] == "assign" and [p.get("n") for p in s["p"]["pr"] if isinstance(p, dict)][-1:] == ["parameters"]]
                if st:
                    e = fn_expr_rvalue(gm, st[-1]["rv"])
                    hs = [n[2] for n in nodes(e) if n[0] == "field" and n[2] in ("0", "1") and n[1][0] == "call" and n[1][1].endswith("::split_at")]
                    if hs:
                        halves[which] = hs[0]
                        sp = [n for n in nodes(e) if n[0] == "call" and n[1].endswith("::split_at")][0]
                        mid = sp[2][1]
                        fork_detail["split_point"] = "len/2" if mid[0] == "bin" and mid[1] == "Div" and mid[3][0] == "const" and mid[3][1] == 2 and mid[2][0] == "call" and mid[2][1].endswith("::len") and field_of(mid[2], "parameters") else "other"
            fork_detail["halves"] = halves
            fork_ok = halves == {"P0": "0", "P1": "1"} and fork_detail.get("split_point") == "len/2"
    check("K5|controlled-arm", ctl_ok, gm.loc(), "the CONTROLLED arm is not kron(|0><0|, eye(dim M)) + kron(|1><1|, M) with M the recursive result", "CONTROLLED X 1 0 is not CNOT")
    check("K5|forked-arm", fork_ok, gm.loc(), "the FORKED arm is not kron(|0><0|, M(first half of parameters)) + kron(|1><1|, M(second half)) (%s)" % fork_detail, "FORKED RX(a, b) 1 0 applies RX(b) when qubit 1 is |0>", fork_detail)
    # odd guard: ForkedGateOddNumParams error constructed under `len & 1 != 0`
    odd = [bb for bb, s in aggregates(gm) if s["rv"]["a"].get("variant") == "ForkedGateOddNumParams"]
    ok = False
    if odd:
        for sb, tgt in gm.control_deps(odd[0], transitive=False):
            tt = gm.blocks[sb]["t"]
            if tt["k"] == "switch":
                e = fn_expr_operand(gm, tt["d"])
                if e[0] == "bin" and e[1] in ("Ne", "Eq") and any(n[0] == "bin" and n[1] in ("BitAnd", "Rem") for n in nodes(e)):
                    ok = True
    check("K7|forked-odd-guard", ok, gm.loc(), "the FORKED arm is not guarded by an odd-parameter-count check", "FORKED RX(a,b,c) 1 0 splits three parameters")

    # R4 constructors
    guard = False
    for bb, s in aggregates(gf):
        if s["rv"]["a"].get("variant") == "ForkedParameterLength":
            for sb, tgt in gf.control_deps(bb, transitive=False):
                tt = gf.blocks[sb]["t"]
                if tt["k"] == "switch":
                    e = fn_expr_operand(gf, tt["d"])
                    taken = [int(v) for v, x in tt["ts"] if x == tgt]
                    truthy = (taken != [0]) if taken else True
                    if e[0] == "bin" and ((e[1] == "Ne" and truthy) or (e[1] == "Eq" and not truthy)) and all(x[0] == "call" and x[1].endswith("::len") for x in (e[2], e[3])):
                        guard = True
    ext = calls_named(gf, "extend")
    ok = guard and len(ext) == 1 and field_of(ext[0][2][0], "parameters") and ext[0][2][1][0] == "param"
    check("K5|forked-constructor", ok, gf.loc(), "Gate::forked is not guarded by `alt_params.len() != parameters.len()` or does not append the alternative parameters after the existing ones", "forked(q, [b]) on RX(a) yields parameters in the wrong halves")
    # the constructors always add their modifier (and qubit): the inserts are unconditional (forked: only behind its length
    # guard) and nothing is removed from the modifier list
    for f_, nm, n_ins in ((gd, "dagger", 1), (gc, "controlled", 2), (gf, "forked", 2)):
        key = "K7|constructor-unconditional|%s" % nm
        ins = calls_named(f_, "insert")
        removes = sorted({c.get("name") for bb, t, c in f_.calls() if c and c.get("name") in ("retain", "remove", "pop", "clear", "truncate", "drain", "dedup", "swap_remove")})
        conds = []
        for bb, t, a in ins:
            for sb, tgt in f_.control_deps(bb, transitive=False):
                tt = f_.blocks[sb]["t"]
                e = fn_expr_operand(f_, tt["d"]) if tt["k"] == "switch" else ("x",)
                if nm == "forked" and e[0] == "bin" and e[1] in ("Ne", "Eq"):
                    continue
                conds.append(str(e[:2])[:60])
        ok = len(ins) == n_ins and not removes and not conds
        res.site(key, True, {"inserts": len(ins), "removing_calls": removes, "conditions": conds, "verdict": "ok" if ok else "VIOLATION"})
        if not ok:
            res.find(key, f_.loc(), "Gate::%s does not always add its modifier%s (inserts: %d, conditions: %s, removing calls: %s)" % (nm, "" if nm == "dagger" else " and qubit", len(ins), conds, removes), "`DAGGER DAGGER S 0`.dagger() comes back without any DAGGER")
    # R5 program folds
    dots = calls_named(pu, "dot")
    ok = False
    detail = {}
    if len(dots) == 1:
        recv, arg = dots[0][2]
        recv_is_gate = any(c[1].endswith("Gate::to_unitary") for c in expr_calls(recv))
        arg_is_acc = any(n[0] == "call" and n[1].endswith("::eye") for n in nodes(arg)) or arg[0] in ("phi", "cycle")
        arg_has_gate = any(c[1].endswith("Gate::to_unitary") for c in expr_calls(arg) ) and not any(n[0] in ("phi", "cycle") for n in nodes(arg))
        eye = calls_named(pu, "eye")
        eye_ok = len(eye) == 1 and any(n[0] == "call" and n[1].endswith("::pow") and n[2][0][0] == "const" and n[2][0][1] == 2 for n in nodes(eye[0][2][0]))
        nxt = calls_named(pu, "next")
        order = len(nxt) == 1 and field_of(nxt[0][2][0], "instructions") and not ({c.get("name") for bb, t, c in pu.calls() if c} & {"rev", "next_back", "rfold", "try_rfold"})
        detail = {"receiver_is_gate_unitary": recv_is_gate, "argument_is_accumulator": arg_is_acc and not arg_has_gate, "starts_from_eye(2^n)": eye_ok, "body_in_order": order}
        ok = all(detail.values())
    check("K5|program-unitary-fold", ok, pu.loc(), "Program::to_unitary is not acc <- U(gate).dot(acc) over the body in order starting from eye(2^n): %s" % detail, "`X 0; H 0` yields X.H instead of H.X", detail)
    fold = calls_named(pd, "try_rfold") + calls_named(pd, "rfold")
    ok = False
    if len(fold) == 1:
        clo = [n for n in nodes(fold[0][2][-1]) if n[0] == "closure"]
        h = db.by_path.get(clo[0][1], [None])[0] if clo else None
        if h:
            dg = [(bb, t) for bb, t, c in h.calls() if c and callee_path(c) == gd.path]
            ai = [(bb, t, [fn_expr_operand(h, a) for a in t["args"]]) for bb, t, c in h.calls() if c and c.get("name") == "add_instruction"]
            ok = len(dg) == 1 and len(ai) == 1 and any(c[1] == gd.path for c in expr_calls(ai[0][2][1]))
    else:
        names = {c.get("name") for bb, t, c in pd.calls() if c}
        ok = False
    check("K5|program-dagger-fold", ok, pd.loc(), "Program::dagger does not fold the instruction list from the right applying Gate::dagger to each gate", "the dagger of `X 0; H 0` keeps the original order")
    e = fn_expr_local(lg, 0)
    ok = e[0] == "call" and e[1].endswith("::dot") and any(n[0] == "call" and n[1].endswith("::mapv") for n in nodes(e[2][0])) and any(n[0] == "call" and n[1].endswith("::t") for n in nodes(e[2][0])) and e[2][1][0] == "call" and e[2][1][1].endswith("::dot") \
        and any(c[1].endswith("qubit_adjacent_lifted_gate") for c in expr_calls(e[2][1][2][0])) and any(c[1].endswith("permutation_arbitrary") for c in expr_calls(e[2][1][2][1]))
    check("K5|lifting-conjugation", ok, lg.loc(), "lifted_gate_matrix is not P^dagger . (V . P)", "a two-qubit gate on non-adjacent qubits is lifted without undoing the permutation")
    res.count("sites", res.sites, floor=10)
    res.explanation = "Composition skeleton of gate_matrix / constructors / program folds from MIR origin expressions; the projector statics' initialisers are read from their MIR; constructor/consumer end agreement on `modifiers` and `qubits`."
    res.assumptions = ["ndarray kron/dot/t/mapv semantics", "tables of constant and parameterised gate matrices"]
    return res
