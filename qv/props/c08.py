"""C08 Serialization is deterministic and keeps definition order.

Decides (necessary conditions, for all programs):
  R1 (K6)  no iteration over a hash-ordered container (HashMap/HashSet) can feed serialized
           output: in every function reachable from Program::{to,into}_instructions and every
           Quil::write, each hash-iteration call must end in an order-insensitive consumer;
  R2 (K10) every Program store that the listings emit has a hash-free (insertion-ordered) type;
  R3 (K10/K7) redefinition replaces in place: add_instruction and the store insert helpers use no
           order-disturbing container call, and CalibrationSet::replace overwrites at the found
           index without changing the length.
Trusted: IndexMap::insert keeps the position of an existing key; Vec/IndexMap iterate in insertion order."""
import re

from qv.engine import callee_of, callee_path, fn_expr_operand, fn_expr_local
from qv.props import c09
from qv.props.common import require_fn
from qv.report import Result

PROGRAM = "quil_rs::program::Program"
HASH_TY = re.compile(r"std::collections::(HashMap|HashSet|hash_map|hash_set)|hashbrown::")
ITER_METHODS = {"iter", "iter_mut", "keys", "values", "values_mut", "into_keys", "into_values", "drain", "into_iter", "extract_if", "retain"}
ADAPTORS = {"map", "filter", "filter_map", "cloned", "copied", "flat_map", "flatten", "inspect", "chain", "zip", "enumerate", "peekable", "by_ref", "into_iter", "rev", "skip", "take", "map_while", "take_while", "skip_while", "fuse"}
INSENSITIVE = {"any", "all", "count", "sum", "product", "max", "min", "max_by", "min_by", "max_by_key", "min_by_key", "len", "is_empty", "contains", "eq", "is_subset", "is_superset", "is_disjoint"}
ORDER_DISTURBING = re.compile(
    r"^(indexmap::(IndexMap|IndexSet)::<.*>::(swap_remove|swap_remove_entry|swap_remove_full|swap_remove_index|shift_remove|shift_remove_entry|shift_remove_full|shift_remove_index|shift_insert|insert_before|insert_sorted|move_index|swap_indices|reverse|sort_.*|sort|retain|pop|remove|drain|truncate|split_off)"
    r"|std::vec::Vec::<T, A>::(remove|swap_remove|insert|retain|retain_mut|dedup.*|drain|truncate|split_off|pop|clear|reverse)"
    r"|core::slice::<impl \[T\]>::(sort.*|reverse|swap|rotate_left|rotate_right|select_nth_unstable.*))$"
)
UNORDERED_TY = re.compile(r"^std::collections::(HashMap|HashSet|BTreeMap|BTreeSet|BinaryHeap)$")


def is_hash_iteration(db, c):
    if c is None:
        return False
    name = c.get("name")
    if name not in ITER_METHODS:
        return False
    tgt = c.get("res") or c
    st = db.ty_s(c["impl_self"]) if "impl_self" in c else ""
    args = " ".join(db.ty_s(a) for a in c.get("args", [])[:1])
    if c.get("trait") == "std::iter::IntoIterator":
        return bool(HASH_TY.search(args))
    return bool(HASH_TY.search(st) or (HASH_TY.search(tgt["path"]) and name in ITER_METHODS))


def consumer_chain(db, fn, bb, term):
    """follow the iterator value produced by `term` through adaptor calls to its terminal consumer.
    returns (verdict, description)"""
    cur = term["dest"]["l"]
    seen = set()
    for _ in range(20):
        # find the unique call that takes `cur` (by move/copy or via a &mut borrow) as first argument
        users = []
        aliases = {cur}
        for i, j, s in fn.stmts():
            if s["k"] == "assign" and not s["p"]["pr"]:
                rv = s["rv"]
                if rv["k"] in ("ref", "use", "copyderef"):
                    p = rv.get("p") or (rv.get("o", {}).get("m") or rv.get("o", {}).get("c"))
                    if p and p["l"] in aliases:
                        aliases.add(s["p"]["l"])
        for b2, t2, c2 in fn.calls():
            for k, a in enumerate(t2["args"]):
                p = a.get("m") or a.get("c")
                if p and p["l"] in aliases and (b2, k) not in seen:
                    users.append((b2, t2, c2, k))
        if not users:
            return ("unknown", "iterator value escapes (returned or stored)")
        if len(users) > 1:
            # a `for` loop: into_iter then repeated next(); order-sensitive unless proven otherwise
            names = sorted({(u[2] or {}).get("name", "?") for u in users})
            if set(names) <= {"next", "into_iter", "size_hint"}:
                return ("sensitive", "consumed by a loop (`next`): body sees elements in hash order")
            return ("unknown", "several consumers: %s" % names)
        b2, t2, c2, k = users[0]
        seen.add((b2, k))
        name = (c2 or {}).get("name", "?")
        if name in INSENSITIVE:
            return ("insensitive", name)
        if name in ("collect", "from_iter", "extend"):
            # target container type
            if name == "extend":
                tty = db.ty_s(c2["args"][0]) if c2 and c2.get("args") else ""
            else:
                tty = fn.local_ty(t2["dest"]["l"])["s"]
            if HASH_TY.search(tty) or re.match(r"std::collections::(BTreeMap|BTreeSet)", tty):
                return ("insensitive", "%s into %s" % (name, tty[:60]))
            return ("sensitive", "%s into ordered container %s" % (name, tty[:80]))
        if name in ADAPTORS:
            if k != 0 and name not in ("chain", "zip"):
                return ("unknown", "passed as argument %d of %s" % (k, name))
            cur = t2["dest"]["l"]
            continue
        if name == "next":
            return ("sensitive", "elements taken one by one (`next`)")
        return ("unknown", "consumed by %s" % callee_path(c2))
    return ("unknown", "chain too long")


def hash_free(db, ti):
    return not db.ty_contains(ti, _unordered_pred)


def _unordered_pred(t):
    return t["k"] == "adt" and bool(UNORDERED_TY.match(t["path"]))


def run(ctx):
    res = Result("C08")
    db = ctx.db("quil_rs")
    mono = ctx.mono("quil_rs")
    res.rules += [
        "R1 (K6) hash-container iteration on serialization paths must end in an order-insensitive consumer",
        "R2 (K10) every listed Program store has a hash-free, insertion-ordered type",
        "R3 (K10/K7) redefinition is in place: no order-disturbing container call under add_instruction; CalibrationSet::replace overwrites at the found index",
    ]
    to_i = require_fn(db, res, PROGRAM + "::to_instructions")
    into_i = require_fn(db, res, PROGRAM + "::into_instructions")
    add_i = require_fn(db, res, PROGRAM + "::add_instruction")
    writers = [f for f in db.fns if f.raw.get("impl_trait") == "quil_rs::quil::Quil" and f.name == "write"]
    res.count("quil_write_impls", len(writers), floor=60)
    if not (to_i and into_i and add_i):
        return res
    entries = writers + [to_i, into_i]
    # generic default methods of the Quil trait (to_quil, to_quil_or_debug): every instance
    for n in ("to_quil", "to_quil_or_debug"):
        entries += [f for f in db.fns if f.raw.get("in_trait") == "quil_rs::quil::Quil" and f.name == n]
    parent = mono.reach(mono.roots([e.dp for e in entries]))
    local = mono.local_dps(parent)
    res.count("serialization_reachable_functions", len(local), floor=150)

    # R1
    crate_sites = 0
    ser_sites = 0
    for f in db.fns:
        for bb, t, c in f.calls():
            if not is_hash_iteration(db, c):
                continue
            crate_sites += 1
            if f.dp not in local:
                continue
            ser_sites += 1
            verdict, why = consumer_chain(db, f, bb, t)
            n = sum(1 for x in res.nontrivial if x.startswith("K6|hash-iteration|%s|" % f.path))
            key = "K6|hash-iteration|%s|%s#%d" % (f.path, (c or {}).get("name"), n)
            res.site(key, True, {"site": key, "loc": f.loc(t["sp"]), "consumer": why, "verdict": "ok" if verdict == "insensitive" else "VIOLATION"})
            if verdict != "insensitive":
                res.find(key, f.loc(t["sp"]), "iteration over a hash-ordered container on a serialization path (%s): output order depends on the per-process hash seed; reached via %s" % (why, " > ".join(x.replace("quil_rs::", "") for x in mono.chain_to_dp(parent, f.dp)[-3:])), "two distinct DEFFRAMEs serialize in different orders in two Program values")
    res.count("hash_iteration_sites_in_crate (positive control)", crate_sites, floor=5)
    res.count("hash_iteration_sites_on_serialization_paths", ser_sites)

    # R2
    adt = db.adts.get(PROGRAM)
    if not adt:
        res.missing_anchor(PROGRAM)
        return res
    listed = {x for s in c09.sections(to_i) for x in s[0]}
    nstores = 0
    for fld in adt["variants"][0]["fields"]:
        if fld["n"] not in listed:
            continue
        nstores += 1
        key = "K10|store-type|Program.%s" % fld["n"]
        ok = hash_free(db, fld["t"])
        res.site(key, True, {"field": fld["n"], "type": db.ty_s(fld["t"])[:120], "verdict": "ok" if ok else "VIOLATION"})
        if not ok:
            res.find(key, to_i.loc(), "store Program.%s (type %s) transitively contains a hash-ordered or sorted container but its content is serialized in iteration order" % (fld["n"], db.ty_s(fld["t"])[:100]), "definitions of this kind serialize in an order that is not the definition order")
    res.count("listed_stores", nstores, floor=8)

    # R2b: between a store and the listing output only order-preserving, loss-free adaptors (shared with C09)
    for lst in (to_i, into_i):
        for (callee, sp, flds) in c09.pipeline_violations(db, lst):
            key = "K10|pipeline|%s|%s" % (lst.path, callee.rsplit("::", 1)[-1])
            res.site(key, True)
            res.find(key, lst.loc(sp), "%s passes store `%s` through `%s`, which can reorder or drop elements: serialized definitions no longer follow the order in which they were first added" % (lst.path, ".".join(flds), callee), "a `DECLARE ... SHARING ...` added before a plain DECLARE is serialized after it")
        res.site("K10|pipeline|%s" % lst.path, True, {"fn": lst.path, "verdict": "order-preserving adaptors only"})

    # R3a: order-disturbing calls under add_instruction
    aparent = mono.reach(mono.roots([add_i.dp]))
    alocal = mono.local_dps(aparent)
    ninsert = 0
    for dp in sorted(alocal):
        f = db.by_dp.get(dp)
        if f is None:
            continue
        # only the storage layer: functions that take &mut self of a store/Program
        for bb, t, c in f.calls():
            if not c:
                continue
            p = callee_path(c)
            if re.match(r"^indexmap::IndexMap::<.*>::insert$", p) or p.endswith("Vec::<T, A>::push") or p == "std::mem::replace":
                ninsert += 1
            if ORDER_DISTURBING.match(p):
                recv = fn_expr_operand(f, t["args"][0]) if t["args"] else ("x",)
                flds = c09.self_fields(recv)
                if not flds:
                    continue  # not a store of self
                key = "K10|order-disturbing|%s|%s" % (f.path, p.rsplit("::", 1)[-1])
                res.site(key, True)
                res.find(key, f.loc(t["sp"]), "order-disturbing container call %s on store `%s` reachable from add_instruction: a redefinition no longer keeps its original position" % (p, ".".join(flds)), "redefine the first of three definitions: it moves")
    res.count("insert/push/replace sites under add_instruction (positive control)", ninsert, floor=5)

    # R3b: CalibrationSet::replace
    in_place_replace_rule(db, res)
    # R4 (K10) the definition stores are also *built* in order: in the program modules (everything that constructs, merges,
    #    filters or rebuilds a Program and its stores) (a) no call that scrambles the order of the remaining elements is
    #    applied to an insertion-ordered container, and (b) the elements put into an insertion-ordered container never come
    #    out of an iteration over a hash-ordered one
    SCRAMBLING = re.compile(r"::(swap_remove|swap_remove_entry|swap_remove_full|swap_remove_index|swap_take|sort|sort_by|sort_by_key|sort_by_cached_key|sort_unstable|sort_unstable_by|sort_unstable_by_key|sort_keys|sort_unstable_keys|sorted_by|sorted_unstable_by|reverse|swap_indices|move_index|rotate_left|rotate_right|swap)$")
    ORDERED = re.compile(r"^(&mut |&)?(indexmap::(IndexMap|IndexSet)|std::vec::Vec)<")

    def in_scope(f):
        p_ = f.path
        if not (p_.startswith("quil_rs::program::") or p_.startswith("<quil_rs::program::") or "ExternPragmaMap" in p_ or "ExternSignatureMap" in p_):
            return False
        return not any(x in p_ for x in ("::scheduling::", "::analysis::", "::type_check::", "::source_map::"))

    scoped = [f for f in db.fns if in_scope(f)]
    res.count("store_building_functions", len(scoped), floor=150)
    nscr = 0
    for f in scoped:
        for bb, t, c in f.calls():
            if not (c and t["args"]):
                continue
            p_ = callee_path(c)
            a0 = t["args"][0]
            pl = a0.get("m") or a0.get("c")
            recv_ty = db.ty_s(f.locals[pl["l"]]["t"]) if pl else ""
            if SCRAMBLING.search(p_) and (ORDERED.search(recv_ty) or "indexmap::" in p_ or "std::vec::Vec" in p_ or "slice" in p_):
                nscr += 1
                key = "K10|order-scrambling|%s|%s" % (f.path, p_.rsplit("::", 1)[-1])
                res.site(key, True, {"receiver": recv_ty[:80], "verdict": "VIOLATION"})
                res.find(key, f.loc(t.get("sp")), "%s applies %s to an insertion-ordered container (%s): the remaining definitions change places" % (f.path.replace("quil_rs::", ""), p_.rsplit("::", 1)[-1], recv_ty[:60]), "definitions [hx, FOO, BAR, BAZ] with hx removed are listed as BAZ, FOO, BAR")
    res.site("K10|order-scrambling", True, {"sites": nscr})
    from qv.engine import walk_expr as _wx
    nfill = 0
    for f in scoped:
        for bb, t, c in f.calls():
            if not c or c.get("name") not in ("collect", "from_iter", "extend", "insert", "push", "insert_full", "append"):
                continue
            if c.get("name") in ("collect", "from_iter"):
                tty = db.ty_s(f.locals[t["dest"]["l"]]["t"])
                srcs = t["args"][:1]
            else:
                a0 = t["args"][0] if t["args"] else None
                pl = (a0.get("m") or a0.get("c")) if a0 else None
                tty = db.ty_s(f.locals[pl["l"]]["t"]) if pl else ""
                srcs = t["args"][1:]
            if not ORDERED.search(tty) and "FrameSet" not in tty and "CalibrationSet" not in tty and "Calibrations" not in tty:
                continue
            nfill += 1
            bad = []
            for a in srcs:
                e = fn_expr_operand(f, a)
                ns = []
                _wx(e, ns.append)
                for n in ns:
                    if n[0] == "call" and isinstance(n[3], int) and 0 <= n[3] < len(f.blocks):
                        c2 = callee_of(f.blocks[n[3]]["t"]) if f.blocks[n[3]]["t"]["k"] == "call" else None
                        if c2 and callee_path(c2) == n[1] and is_hash_iteration(db, c2):
                            bad.append(n[1].rsplit("::", 1)[-1])
            if bad:
                key = "K6|ordered-store-filled-in-hash-order|%s|%s" % (f.path, c.get("name"))
                res.site(key, True, {"target": tty[:80], "verdict": "VIOLATION"})
                res.find(key, f.loc(t.get("sp")), "%s fills an insertion-ordered container (%s) with elements obtained by iterating a hash-ordered one (%s): their order differs between runs" % (f.path.replace("quil_rs::", ""), tty[:60], sorted(set(bad))), "simplify() on a program with seven used frames lists the DEFFRAMEs as 4, 0, 5, 3, 1, 6, 2")
    res.count("ordered_container_fill_sites", nfill, floor=40)
    res.explanation = (
        "Effect confinement (K6) + container typing (K10): %d hash-iteration call sites exist in the crate, %d lie in the %d functions reachable from the "
        "serialization entry points (%d Quil::write impls, to_instructions, into_instructions); each must end in an order-insensitive consumer. "
        "All %d listed Program stores must have hash-free types; no order-disturbing container call may act on a store under add_instruction; "
        "CalibrationSet::replace must overwrite in place.  Decides independence from hash order and positional stability structurally; trusts IndexMap/Vec semantics."
        % (crate_sites, ser_sites, len(local), len(writers), nstores)
    )
    res.assumptions = ["IndexMap::insert keeps the position of an existing key", "Vec / IndexMap iterate in insertion order", "std HashMap/HashSet iteration order is unspecified"]
    return res


def in_place_replace_rule(db, res):
    """K7: CalibrationSet::replace overwrites the found element in place.  Shared by C08 and C16."""
    reps = [f for f in db.fns if f.path.endswith("calibration_set::CalibrationSet::<T>::replace")]
    if len(reps) != 1:
        res.missing_anchor("CalibrationSet::replace")
    else:
        f = reps[0]
        key = "K7|in-place-replace|" + f.path
        repl = [(bb, t) for bb, t, c in f.calls() if c and callee_path(c) == "std::mem::replace"]
        idxmut = [(bb, t) for bb, t, c in f.calls() if c and "IndexMut" in callee_path(c)]
        pushes = [(bb, t) for bb, t, c in f.calls() if c and callee_path(c).endswith("Vec::<T, A>::push")]
        bad = [(bb, callee_path(c)) for bb, t, c in f.calls() if c and ORDER_DISTURBING.match(callee_path(c))]
        ok = len(repl) == 1 and len(idxmut) >= 1 and not bad
        why = ""
        if ok:
            # the replaced slot is data[index] with index = Some payload of the position lookup
            slot = fn_expr_operand(f, repl[0][1]["args"][0])
            ok = slot[0] == "call" and "IndexMut" in slot[1]
            if ok:
                from qv.rules.guards import root

                ix = slot[2][1] if len(slot[2]) > 1 else ("x",)
                r, pth = root(ix)
                ok = r[0] == "call" and pth == ("0",)
                why = "replaces data[index], index = Some payload of %s" % (r[1] if r[0] == "call" else "?")
            # push only when not found: push block not dominated by the Some arm
            if ok and pushes:
                dom_r = f.dominators().get(repl[0][0], set())
                dom_p = f.dominators().get(pushes[0][0], set())
                ok = repl[0][0] not in dom_p and pushes[0][0] not in dom_r
        res.site(key, True, {"site": key, "mem_replace": len(repl), "index_mut": len(idxmut), "push": len(pushes), "order_disturbing": bad, "detail": why, "verdict": "ok" if ok else "VIOLATION"})
        if not ok:
            res.find(key, f.loc(), "CalibrationSet::replace does not overwrite the found element in place (mem::replace at the found index with no length-changing call)", "redefining the first of two calibrations moves it behind the second")
