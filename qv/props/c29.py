"""C29 Gate depth equals the longest chain of qualifying gates (wiring and counting clauses only).

Decided (necessary conditions; the equality itself quantifies over run-time graphs and is not decided):
  R1 (K7/K5) QubitGraph::new wires chains per qubit: every accepted instruction gets exactly one node (add_node of the
          instruction itself, not skipped under any condition other than the role filter's error returns); for every
          qubit reported by get_qubits the per-qubit map is updated with that node, and an edge is added from the map's
          previous entry for that qubit to the node (source = what `insert` returned, target = the new node), in that
          direction, iff there was a previous entry;
  R2 (K9) the per-instruction step of gate_depth, enumerated over its paths: +1 exactly when the instruction is a Gate
          whose qubit count is >= the threshold, unchanged otherwise; the fold starts from 0, the result is the maximum
          over paths (0 for an empty graph);
  R3 (K5) path_fold starts from the nodes without incoming edges and extends along outgoing edges, emitting one value per
          maximal path (reported as undecided, not as a violation, if the traversal is restructured)."""
from qv.engine import callee_path, fn_expr_operand, fn_expr_local, walk_expr, expr_calls
from qv.report import Result
from qv.rules import pathsym
from qv.rules.guards import same_origin

QG = "quil_rs::program::analysis::qubit_graph::QubitGraph"


def nodes(e):
    out = []
    walk_expr(e, out.append)
    return out


def cn(f, name):
    return [(bb, t, [fn_expr_operand(f, a) for a in t["args"]]) for bb, t, c in f.calls() if c and c.get("name") == name]


def run(ctx):
    res = Result("C29")
    db = ctx.db("quil_rs")
    res.rules += ["R1 per-qubit chain wiring in QubitGraph::new", "R2 counting step and max in gate_depth", "R3 traversal endpoints in path_fold"]
    new = [f for f in db.fns if f.path.startswith(QG) and f.name == "new"]
    gd = [f for f in db.fns if f.path.startswith(QG) and f.name == "gate_depth"]
    pf = [f for f in db.fns if f.path.startswith(QG) and f.name == "path_fold"]
    if not (len(new) == 1 and len(gd) == 1 and len(pf) == 1):
        res.missing_anchor("QubitGraph::new / gate_depth / path_fold")
        return res
    new, gd, pf = new[0], gd[0], pf[0]

    def check(key, ok, loc, msg, manifest, detail=None):
        res.site(key, True, dict(detail or {}, verdict="ok" if ok else "VIOLATION"))
        if not ok:
            res.find(key, loc, msg, manifest)

    dom = new.dominators()
    an, ae, ins, gq = cn(new, "add_node"), cn(new, "add_edge"), cn(new, "insert"), cn(new, "get_qubits")
    ok = len(an) == 1 and len(ae) == 1 and len(ins) == 1 and len(gq) == 1
    check("K7|wiring|shape", ok, new.loc(), "QubitGraph::new: expected one add_node, one per-qubit map insert and one add_edge (%d/%d/%d)" % (len(an), len(ins), len(ae)), "-")
    if ok:
        instr = an[0][2][1]
        is_instr = any(n[0] == "call" and n[1].endswith("::next") for n in nodes(instr)) and not expr_calls(instr)[1:]
        # add_node is reached on every path through the role filter that does not return an error
        extra = []
        inside = new.reachable_blocks(an[0][0])
        for sb, tgt in new.control_deps(an[0][0], transitive=False):
            tt = new.blocks[sb]["t"]
            e = fn_expr_operand(new, tt["d"]) if tt["k"] == "switch" else ("x",)
            if e[0] == "discr":
                inner = e[1]
                if inner[0] == "call" and (inner[1].endswith("::next") or inner[1].endswith("::role")):
                    continue
                if any(n[0] == "call" and n[1].endswith("::next") for n in nodes(inner)) and not any(n[0] == "call" and not (n[1].endswith("::next")) for n in nodes(inner)):
                    continue  # a pattern test on the instruction itself inside the role filter (error returns)
            extra.append(str(e[:2])[:70])
        # the alternative side of every such test must be an error return, i.e. add_node post-dominates the filter's non-error exits:
        ret_err = [bb for bb, s in [(b, s) for b in range(len(new.blocks)) for s in new.blocks[b]["s"]] if s["k"] == "assign" and s["rv"]["k"] == "agg" and s["rv"]["a"].get("variant") == "Err"]
        check("K7|wiring|node-per-instruction", is_instr and not extra, new.loc(), "not every accepted instruction gets a node for itself (extra conditions: %s)" % extra, "an instruction on the critical chain is left out of the graph, so the reported depth is too small", {"error_returns": len(ret_err)})
        q = ins[0][2][1]
        from_gq = any(c[1].endswith("::get_qubits") for c in expr_calls(q)) and any(n[0] == "call" and n[1].endswith("::next") for n in nodes(q))
        val_is_node = ins[0][2][2][0] == "call" and ins[0][2][2][1].endswith("::add_node")
        check("K5|wiring|map-update", from_gq and val_is_node and not (set(c.get("name") for bb, t, c in new.calls() if c) & {"skip", "take", "rev", "filter", "step_by", "dedup"}), new.loc(), "the per-qubit map is not updated, for every qubit of the instruction, with the instruction's node", "two gates on the same qubit are not chained")
        src_e, tgt_e = ae[0][2][1], ae[0][2][2]
        src_ok = src_e[0] == "as" and src_e[2] == "Some" and src_e[1][0] == "call" and src_e[1][1].endswith("::insert") and src_e[1][3] == ins[0][0]
        if not src_ok:
            src_ok = any(n[0] == "call" and n[1].endswith("::insert") and n[3] == ins[0][0] for n in nodes(src_e)) and not any(n[0] == "call" and n[1].endswith("::add_node") for n in nodes(src_e) if n is not src_e and False)
            src_ok = src_ok and not (src_e[0] == "call" and src_e[1].endswith("::add_node"))
        tgt_ok = tgt_e[0] == "call" and tgt_e[1].endswith("::add_node")
        check("K5|wiring|edge-direction", src_ok and tgt_ok, new.loc(), "the chain edge is not (previous instruction on this qubit) -> (this instruction)", "edges point backwards: every instruction looks like a root and the depth collapses", {})
        conds = []
        for sb, tgt in new.control_deps(ae[0][0], transitive=False):
            tt = new.blocks[sb]["t"]
            if tt["k"] == "switch":
                conds.append(fn_expr_operand(new, tt["d"]))
        only_some = len(conds) == 1 and conds[0][0] == "discr" and conds[0][1][0] == "call" and conds[0][1][1].endswith("::insert")
        check("K7|wiring|edge-iff-previous", only_some, new.loc(), "the chain edge is not added exactly when the qubit already had an instruction", "the second gate on a qubit is sometimes not chained to the first", {"conditions": len(conds)})
    # R2
    clo = db.closures_of(gd)
    verdict, detail = "undecided", {}
    if len(clo) == 1:
        h = clo[0]
        try:
            ps = pathsym.paths(h)
            rows = []
            inst = "quil_rs::instruction::Instruction"
            gate_i = [v["i"] for v in db.adts[inst]["variants"] if v["n"] == "Gate"][0]
            bad = []
            for conds, env, blocks in ps:
                r = env.get(0, ("undef", 0))
                while r[0] == "field" and r[2] == "0" and r[1][0] == "bin":
                    r = r[1]
                plus = r[0] == "bin" and r[1].startswith("Add") and r[3][0] == "const" and r[3][1] == 1 and r[2][0] == "param"
                same = r[0] == "param"
                is_gate = None
                ge = None
                for e, op, vals in conds:
                    if e[0] == "discr" and e[1][0] == "param":
                        is_gate = (gate_i in vals) if op == "in" else (gate_i not in vals and False)
                        if op == "notin":
                            is_gate = False if gate_i in vals else None
                    if e[0] == "bin" and e[1] in ("Ge", "Gt", "Le", "Lt"):
                        l_is_len = e[2][0] == "call" and e[2][1].endswith("::len") and any(n[0] == "field" and n[2] == "qubits" for n in nodes(e[2]))
                        r_is_k = any(n[0] == "field" and "gate_minimum_qubit_count" in str(n[3] or n[2]) for n in nodes(e[3])) or e[3][0] == "field"
                        tv = pathsym.truth_of((e, op, vals))
                        if l_is_len and r_is_k and tv is not None:
                            ge = tv if e[1] == "Ge" else ("wrong-op:" + e[1])
                rows.append({"is_gate": is_gate, "qubits>=k": ge, "result": "+1" if plus else "same" if same else "?"})
                want_plus = is_gate is True and ge is True
                if isinstance(ge, str) or (plus != want_plus) or not (plus or same):
                    bad.append(rows[-1])
            detail = {"paths": rows}
            verdict = "ok" if not bad and any(r_["result"] == "+1" for r_ in rows) else "VIOLATION"
        except pathsym.TooComplex as ex:
            verdict = "undecided: %s" % ex
    res.site("K9|counting-step", True, dict(detail, verdict=verdict))
    if verdict == "VIOLATION":
        res.find("K9|counting-step", gd.loc(), "gate_depth's step does not add 1 exactly for a Gate with at least `gate_minimum_qubit_count` qubits: %s" % detail, "with threshold 2, a two-qubit gate is not counted (or a one-qubit gate is)")
    elif verdict != "ok":
        res.undecided.append("K9|counting-step " + verdict)
    e = fn_expr_local(gd, 0)
    names = [c[1].rsplit("::", 1)[-1] for c in expr_calls(e)]
    pfc = [c for c in expr_calls(e) if c[1] == pf.path]
    ok = "max" in names and bool(pfc) and pfc[0][2][1][0] == "const" and pfc[0][2][1][1] == 0 and ("unwrap_or_default" in names or "unwrap_or" in names)
    check("K5|max-over-paths", ok, gd.loc(), "gate_depth is not max over path_fold(0, step) with 0 for an empty graph (%s)" % names, "the depth of the first chain, not the longest, is reported")
    # R3
    ext = cn(pf, "externals")
    nb = cn(pf, "neighbors_directed")
    if len(ext) == 1 and len(nb) == 1:
        d_in = ext[0][2][1]
        d_out = nb[0][2][2]
        ok = d_in[0] == "agg" and d_in[2] == "Incoming" and d_out[0] == "agg" and d_out[2] == "Outgoing"
        check("K5|traversal-endpoints", ok, pf.loc(), "path_fold does not start at the nodes without incoming edges and follow outgoing edges", "chains are measured from their last instruction only")
        # every such node starts a walk: the start set is the `externals` iterator collected as it is (a node without any
        # edge is a chain of length one, e.g. a single gate alone on its qubits)
        cols = [a for bb, t, a in cn(pf, "collect") if a and any(c[1].endswith("::externals") for c in expr_calls(a[0]))]
        whole = len(cols) == 1 and cols[0][0][0] == "call" and cols[0][0][1].endswith("::externals")
        check("K5|every-source-starts-a-walk", whole, pf.loc(), "path_fold does not start a walk from every node without incoming edges (the externals iterator is filtered or otherwise adapted before it is collected)", "`X 0` alone has depth 0 instead of 1")
    else:
        res.site("K5|traversal-endpoints", False, {"verdict": "undecided: traversal restructured"})
        res.undecided.append("K5|traversal-endpoints")
    # R3b exhaustiveness of the enumeration: every node popped is extended along all its outgoing edges.  A traversal that
    #     skips some extensions (pruning / memoisation) may or may not preserve the maximum; that is not decidable here, so
    #     it is reported as undecided rather than as a violation.
    pushes = [(bb, t) for bb, t, c in pf.calls() if c and c.get("name") == "push" and any(c2[1].endswith("::call_mut") or c2[1].endswith("::call") for c2 in expr_calls(fn_expr_operand(pf, t["args"][1])))]
    if len(pushes) == 1:
        extra = []
        inside = pf.reachable_blocks(pushes[0][0])

        def is_next(a):
            tt = pf.blocks[a]["t"]
            de = fn_expr_operand(pf, tt["d"]) if tt["k"] == "switch" else ("x",)
            return de[0] == "discr" and de[1][0] == "call" and (de[1][1].endswith("::next") or de[1][1].endswith("::pop"))

        for sb, tgt in pf.control_deps(pushes[0][0], transitive=False):
            if not is_next(sb):
                tt = pf.blocks[sb]["t"]
                extra.append(str(fn_expr_operand(pf, tt["d"])[:2])[:60] if tt["k"] == "switch" else tt["k"])
        res.site("K7|exhaustive-extension", not extra, {"extra_conditions": extra, "verdict": "ok" if not extra else "undecided: paths are pruned under %s" % extra})
        if extra:
            res.undecided.append("K7|exhaustive-extension: path_fold skips extending some paths (%s); whether the maximum is preserved is not decided" % extra)
    else:
        res.undecided.append("K7|exhaustive-extension: traversal restructured")
    res.count("sites", res.sites, floor=7)
    res.explanation = "Wiring of per-qubit chains (provenance of the add_edge endpoints, control dependence of add_node / add_edge), path enumeration of the counting closure, and the shape of the fold."
    res.assumptions = ["petgraph DiGraph add_node/add_edge/externals/neighbors_directed as documented", "Instruction::get_qubits reports the instruction's qubits (C10)"]
    return res
