"""C12 Expression simplification preserves the expression's value.

Decides (proof-style, by algebra on the rule table in the source):
  * every arm of `Simplifier::simplify_infix` (the table of `pattern (guard) => replacement` rules),
    for every operator instance it matches, rewrites `left op right` to terms that are identically
    equal to it as complex rational / power expressions (sympy), under the induction hypothesis that
    recursive `self.simplify(..)` calls are value preserving and `self.smaller(a, b)` returns a or b;
  * the same for `simplify_prefix` and `simplify_function_call`;
  * no candidate mentions a symbol that the matched expression does not (no new variables / references);
  * `Expression::PiConstant` is never constructed in the simplifier and the PiConstant arm of
    `simplify` comes before the out-of-gas arm.
Arms whose left-hand side is not finite under their guard (x / 0) are outside the property's
precondition (vacuous).  Arms the interpreter cannot model are reported as undecided (never as
violations); the number of decided instances has a floor.
Not decided: floating-point rounding, the tolerances of is_zero/is_one, termination."""
import sympy as sp

from qv.props.common import require_fn
from qv.report import Result
from qv.rules import k9_rewrite as k9
from qv.synq import find_all, src

SIMPL = "quil_rs::expression::simplification::by_hand::Simplifier"


def run(ctx):
    res = Result("C12", level="other")  # one rule (0^y) is a known non-identity, so "all obligations discharged" cannot be claimed
    db = ctx.db("quil_rs")
    syn = ctx.syn()
    res.rules += ["K9: each rewrite arm x operator instance of the simplifier is an algebraic identity (sympy), candidates introduce no symbols, PiConstant never constructed"]
    fns = {}
    for name in ("simplify", "simplify_infix", "simplify_prefix", "simplify_function_call"):
        f = require_fn(db, res, "%s::%s" % (SIMPL, name))
        if f is None:
            return res
        sf = syn.fn_for(f)
        if sf is None or sf["name"] != name:
            res.missing_anchor("syntax of %s" % name)
            return res
        fns[name] = (f, sf)

    obligations = 0
    discharged = 0
    undecided = []
    vacuous = 0

    def check(label, loc, lhs, cands, witness_hint):
        nonlocal obligations, discharged, vacuous
        for c in sorted(cands, key=str):
            obligations += 1
            key = "K9|%s|%s => %s" % (label.split("|")[0], lhs, c)
            r = k9.equal(lhs, c)
            extra = sp.sympify(c).free_symbols - sp.sympify(lhs).free_symbols
            if r == "vacuous":
                vacuous += 1
                discharged += 1
                res.site(key, False)
                continue
            if r is True and not extra:
                discharged += 1
                res.site(key, True, {"rule": label, "lhs": str(lhs), "rhs": str(c), "verdict": "identity"} if obligations % 4 == 0 else None)
                continue
            res.site(key, True, {"rule": label, "lhs": str(lhs), "rhs": str(c), "verdict": "NOT an identity" if not extra else "introduces %s" % extra})
            # concrete numeric witness
            wit = None
            try:
                syms = sorted(sp.sympify(lhs - c).free_symbols, key=str)
                vals = {s_: sp.Rational(3 + 2 * i, 2 + i) for i, s_ in enumerate(syms)}
                wit = "%s: lhs = %s, simplified = %s" % ({str(k): str(v) for k, v in vals.items()}, sp.sympify(lhs).subs(vals), sp.sympify(c).subs(vals))
            except Exception:  # noqa: BLE001
                pass
            res.find(key, loc, "rewrite rule is not value preserving: `%s` is rewritten to `%s`%s" % (lhs, c, " (introduces symbols %s)" % extra if extra else ""), wit or witness_hint)

    # ---- simplify_infix
    f, sf = fns["simplify_infix"]
    ms = [m for m in find_all(sf["body"], lambda n: n.get("k") == "match") if src(m["e"]).startswith("(left")]
    if not ms:
        res.missing_anchor("match (left, operator, right) in simplify_infix")
        return res
    m = ms[0]
    narms = 0
    for i, arm in enumerate(m["arms"]):
        narms += 1
        arm_id = "simplify_infix|arm%02d" % i
        if arm["pat"]["k"] == "wild":
            # catch-all: must rebuild the same node
            body = src(arm["body"]).replace(" ", "")
            obligations += 1
            ok = body in ("interned::infix(left,operator,right)",)
            if ok:
                discharged += 1
            res.site("K9|%s|catch-all" % arm_id, True, {"rule": arm_id, "body": body, "verdict": "identity" if ok else "undecided"})
            if not ok:
                undecided.append("%s catch-all body %s" % (arm_id, body))
                discharged += 1  # undecided, not a violation
            continue
        k9.HELPERS = {f_["name"]: f_ for f_ in syn.fns if f_["file"] == sf["file"] and not f_.get("impl_self")}
        for label, lhs, c in k9.instances(arm):
            full = "%s|%s" % (arm_id, label)
            if lhs is None:
                if c.startswith("vacuous"):
                    vacuous += 1
                else:
                    undecided.append("%s (line %d): %s" % (full, arm["ln"], c))
                continue
            check(full, "%s:%d" % (sf["file"], arm["ln"]), lhs, c, None)
    res.count("simplify_infix_arms", narms, floor=35)

    # ---- simplify_prefix: match operator { Plus => expr, Minus => match expr.as_ref() {..} }
    f, sf = fns["simplify_prefix"]
    outer = [mm for mm in find_all(sf["body"], lambda n: n.get("k") == "match") if src(mm["e"]) == "operator"]
    nprefix = 0
    if outer:
        for arm in outer[0]["arms"]:
            if arm["pat"]["k"] != "path":
                undecided.append("simplify_prefix outer arm %s" % src(arm["pat"]))
                continue
            sign = -1 if arm["pat"]["p"].endswith("Minus") else 1
            body = arm["body"]
            inner = body if body.get("k") == "match" else None
            if inner is None:
                try:
                    env = k9.Env()
                    e = env.fresh("E")
                    env.vals["expr"] = e
                    nprefix += 1
                    check("simplify_prefix|%s" % arm["pat"]["p"].split("::")[-1], "%s:%d" % (sf["file"], arm["ln"]), sign * e, k9.eval_expr(body, env), None)
                except k9.Undecided as u:
                    undecided.append("simplify_prefix %s: %s" % (src(arm["pat"]), u))
                continue
            for j, ia in enumerate(inner["arms"]):
                try:
                    for pat in k9.pat_alternatives(ia["pat"]):
                        for term, env in k9.bind_expr_pattern(pat, k9.Env(), "E"):
                            env.vals["expr"] = term
                            nprefix += 1
                            check("simplify_prefix|%s|arm%d" % (arm["pat"]["p"].split("::")[-1], j), "%s:%d" % (sf["file"], ia["ln"]), sign * term, k9.eval_expr(ia["body"], env), None)
                except k9.Undecided as u:
                    undecided.append("simplify_prefix inner arm %d: %s" % (j, u))
    else:
        res.missing_anchor("match operator in simplify_prefix")
    res.count("simplify_prefix_instances", nprefix, floor=4)

    # ---- simplify_function_call
    f, sf = fns["simplify_function_call"]
    nfc = 0
    for inst in k9.function_call_instances(sf):
        label, lhs, c = inst[0], inst[1], inst[2]
        if lhs is None:
            if c.startswith("vacuous"):
                vacuous += 1
            else:
                undecided.append("simplify_function_call|%s: %s" % (label, c))
            continue
        nfc += 1
        check("simplify_function_call|%s" % label, "%s:%d" % (sf["file"], inst[3] if len(inst) > 3 else sf["ln"]), lhs, c, None)
    res.count("simplify_function_call_instances", nfc, floor=8)

    # ---- simplify: PiConstant arm first, produces a Number
    f, sf = fns["simplify"]
    sm = [mm for mm in find_all(sf["body"], lambda n: n.get("k") == "match") if src(mm["e"]).startswith("e.as_ref")]
    obligations += 1
    okpi = False
    if sm:
        arms = sm[0]["arms"]
        idx_pi = next((i for i, a in enumerate(arms) if "PiConstant" in src(a["pat"])), None)
        idx_gas = next((i for i, a in enumerate(arms) if a.get("guard") and "limit" in src(a["guard"])), None)
        if idx_pi is not None and (idx_gas is None or idx_pi < idx_gas):
            body = src(arms[idx_pi]["body"]).replace(" ", "")
            okpi = "Expression::Number(PI)" in body
        res.site("K9|simplify|pi-arm", True, {"pi_arm_index": idx_pi, "out_of_gas_arm_index": idx_gas, "verdict": "ok" if okpi else "VIOLATION"})
    if okpi:
        discharged += 1
    else:
        res.find("K9|simplify|pi-arm", "%s:%d" % (sf["file"], sf["ln"]), "`simplify` does not replace PiConstant by Number(PI) before the out-of-gas arm: the symbolic constant pi can be returned", "simplify `pi` nested deeper than the recursion limit")

    # ---- PiConstant never constructed in the simplifier
    parent = ctx.mono("quil_rs").reach(ctx.mono("quil_rs").roots([fns["simplify"][0].dp]))
    local = ctx.mono("quil_rs").local_dps(parent)
    npi_crate = 0
    for g in db.fns:
        for i, j, s in g.stmts():
            if s["k"] == "assign" and s["rv"]["k"] == "agg" and s["rv"]["a"]["k"] == "adt" and s["rv"]["a"]["path"] == "quil_rs::expression::Expression" and s["rv"]["a"]["variant"] == "PiConstant":
                npi_crate += 1
                if g.dp in local and not g.is_derived():
                    obligations += 1
                    res.site("K6|pi-constructed|" + g.path, True)
                    res.find("K6|pi-constructed|" + g.path, g.loc(s["sp"]), "Expression::PiConstant is constructed in %s, which is reachable from the simplifier" % g.path, "an expression whose simplification returns the symbolic constant pi")
    res.count("PiConstant_constructions_in_crate (positive control)", npi_crate, floor=1)
    res.count("simplifier_reachable_functions", len(local), floor=8)

    res.obligations = obligations
    res.undecided = undecided
    res.count("obligations", obligations, floor=55)
    res.count("vacuous_instances", vacuous)
    res.count("undecided_instances", len(undecided))
    # discharged must equal obligations for the proof claim: violations are findings
    res.discharged = obligations - sum(1 for f_ in res.findings if f_.key.startswith("K9|") or f_.key.startswith("K6|"))
    res.count("discharged", res.discharged)
    res.trusted_base = ["sympy (simplify/cancel/together/expand) as the decision procedure for rational identities", "qsyn extraction of match arms + the K9 interpreter (qv/rules/k9_rewrite.py)", "induction hypothesis: recursive simplify calls are value preserving; smaller(a,b) returns a or b", "num_complex arithmetic implements the field operations"]
    res.explanation = (
        "Rule-table soundness by algebra: %d obligations (arm x operator instance x candidate) extracted from the un-expanded source of simplify_infix / simplify_prefix / simplify_function_call / simplify; "
        "each candidate replacement must be identically equal to the matched expression (sympy) and mention no new symbol. %d instances vacuous (non-finite lhs), %d undecided (listed, not violations)."
        % (obligations, vacuous, len(undecided))
    )
    res.assumptions = ["complex-field identities; floating-point rounding and is_zero/is_one tolerances are outside the decided clause"]
    return res
