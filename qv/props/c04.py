"""C04 Programs built through the API serialize to text that parses back (placeholder-error discipline).

  R1 (K6) who may fail: ToQuilError::UnresolvedQubitPlaceholder / UnresolvedLabelPlaceholder are constructed only in the
          Quil writers of Qubit and Target, each under (variant is Placeholder) and (fall_back_to_debug is false); the
          placeholder arm writes something on the other side;
  R2 (K5) pass-through: every call, made from a Quil::write implementation or from a helper that takes a
          fall_back_to_debug flag, to another such function passes its own flag (argument provenance = the caller's
          parameter); writers do not call to_quil()/to_quil_or_debug() on values whose type can contain a Qubit or a
          Target (that would turn a placeholder into a hard failure under the debug serializer, or hide it under the
          strict one);
  R3 (K2) no writer formats a value whose type can contain a Qubit or a Target through Debug/Display (outside the two
          placeholder writers): every placeholder goes through the writer that reports it;
  R4 (K5) to_quil passes the constant false and propagates the error; to_quil_or_debug passes the constant true.
Together: to_quil fails with an unresolved-placeholder error only through a Placeholder value that was reached, and
to_quil_or_debug can never return an error other than a formatter error.  Shares C02 (field coverage, literal rule)
and C07 (quoting) for the text/parse side.  Not decided: DELAY integer-duration disambiguation, CALL immediates,
equivalence of the parsed program."""
from qv.engine import callee_path, fn_expr_operand, walk_expr
from qv.props.common import aggregates
from qv.report import Result

QUBIT = "quil_rs::instruction::qubit::Qubit"
TARGET = "quil_rs::instruction::control_flow::Target"
ERR = "quil_rs::quil::ToQuilError"


def nodes(e):
    out = []
    walk_expr(e, out.append)
    return out


def flag_param(f):
    """index of the parameter named fall_back_to_debug (bool), or None"""
    for i in range(1, f.argc + 1):
        if (f.local_name(i) or "").lstrip("_") == "fall_back_to_debug":
            return i
    return None


def run(ctx):
    res = Result("C04")
    db = ctx.db("quil_rs")
    res.rules += ["R1 (K6) placeholder errors only in the Qubit/Target writers under !fall_back_to_debug", "R2 (K5) flag pass-through", "R3 (K2) no Debug/Display formatting of placeholder-carrying values in writers", "R4 (K5) entry points pass constants"]
    def is_generic(ti):
        """a type parameter or associated-type projection (through references): the writer cannot know what is underneath,
        so a Qubit or Target may be"""
        t = db.types[ti]
        while t["k"] in ("ref", "ptr"):
            t = db.types[t["t"]]
        return t["k"] in ("param", "alias")

    holds_ph = lambda ti: db.ty_contains(ti, db.adt_pred(QUBIT)) or db.ty_contains(ti, db.adt_pred(TARGET)) or is_generic(ti)
    writers = [f for f in db.fns if f.name == "write" and f.path.endswith("as quil_rs::quil::Quil>::write")]
    res.count("quil_writers", len(writers), floor=60)
    helpers = [f for f in db.fns if f.kind in ("Fn", "AssocFn") and f not in writers and flag_param(f) is not None]
    res.count("flag_helpers", len(helpers), floor=2)
    scope = []
    for f in writers + helpers:
        scope.append((f, f))
        for g in db.closures_of(f):
            scope.append((g, f))
            for h in db.closures_of(g):
                scope.append((h, f))
    # R1
    sites = []
    for f in db.fns:
        for bb, s in aggregates(f, ERR):
            v = s["rv"]["a"]["variant"]
            if v in ("UnresolvedQubitPlaceholder", "UnresolvedLabelPlaceholder"):
                sites.append((f, bb, v))
    res.count("placeholder_error_sites", len(sites), floor=2)
    allowed = {"UnresolvedQubitPlaceholder": "<%s as quil_rs::quil::Quil>::write" % QUBIT, "UnresolvedLabelPlaceholder": "<%s as quil_rs::quil::Quil>::write" % TARGET}
    for f, bb, v in sites:
        key = "K6|placeholder-error|%s|%s" % (v, f.path)
        ok = f.path == allowed[v]
        detail = {"in": f.path}
        if ok:
            conds = []
            for sb, tgt in f.control_deps(bb):
                tt = f.blocks[sb]["t"]
                if tt["k"] == "switch":
                    e = fn_expr_operand(f, tt["d"])
                    taken = [int(x) for x, y in tt["ts"] if y == tgt]
                    conds.append((e, taken))
            flag = [c for c in conds if c[0][0] == "param" and c[0][2] == "fall_back_to_debug"]
            variant = [c for c in conds if c[0][0] == "discr" and c[0][1][0] == "param"]
            detail.update({"under_flag_false": bool(flag) and flag[0][1] == [0], "under_variant_switch": bool(variant), "conditions": len(conds)})
            ok = bool(flag) and flag[0][1] == [0] and bool(variant) and len(conds) == 2
        res.site(key, True, dict(detail, verdict="ok" if ok else "VIOLATION"))
        if not ok:
            res.find(key, f.loc(), "ToQuilError::%s is constructed in %s %s; it may only be produced by the %s writer for a Placeholder when fall_back_to_debug is false" % (v, f.path, detail, "Qubit" if "Qubit" in v else "Target"),
                     "to_quil_or_debug() fails, or to_quil() fails on a program without placeholders")
    for v, path in allowed.items():
        if not any(f.path == path and vv == v for f, bb, vv in sites):
            res.find("K6|placeholder-error-missing|" + v, "-", "%s never produces %s: a placeholder would be serialized by to_quil() instead of being reported" % (path, v), "a program with an unresolved placeholder serializes to text that does not parse")
    # R2
    flagged = {f.path: (flag_param(f) or 3) for f in writers + helpers}
    ncalls = 0
    for g, owner in scope:
        own = flag_param(owner)
        for bb, t, c in g.calls():
            if not c:
                continue
            path = callee_path(c)
            pos = None
            if path in flagged:
                pos = flagged[path] - 1
            elif c.get("trait") == "quil_rs::quil::Quil" and c.get("name") == "write":
                pos = 2
            elif path.endswith("quil::Quil>::write"):
                pos = 2
            if pos is not None and pos < len(t["args"]):
                ncalls += 1
                e = fn_expr_operand(g, t["args"][pos])
                ok = (e[0] == "param" and e[2] == "fall_back_to_debug") or (e[0] == "field" and str(e[2]).startswith("cap") and "fall_back_to_debug" in str(e[3] or "")) or (g is not owner and any(n[0] == "field" and "fall_back_to_debug" in str(n[3] or "") for n in nodes(e)))
                if not ok:
                    key = "K5|flag-pass-through|%s|%s" % (owner.path, path.rsplit("::", 2)[-2] if "::" in path else path)
                    res.site(key, True, {"passes": str(e[:3])[:80], "verdict": "VIOLATION"})
                    res.find(key, g.loc(t.get("sp")), "%s calls %s with %s instead of its own fall_back_to_debug flag" % (owner.path, path, str(e[:3])[:80]), "to_quil_or_debug() returns a truncated string (or to_quil() prints a debug rendering) for a value nested under this writer")
            elif c.get("name") in ("to_quil", "to_quil_or_debug") and (c.get("trait") == "quil_rs::quil::Quil" or "quil::Quil" in path):
                # the receiver's type decides whether a placeholder can be underneath
                a0 = t["args"][0]
                pl = a0.get("m") or a0.get("c")
                ti = g.locals[pl["l"]]["t"] if pl else None
                # accepted idiom: `match fall_back_to_debug { true => x.to_quil_or_debug(), false => x.to_quil()? }`
                selected_by_flag = False
                for sb, tgt in g.control_deps(bb, transitive=False):
                    tt = g.blocks[sb]["t"]
                    if tt["k"] == "switch":
                        e = fn_expr_operand(g, tt["d"])
                        if e[0] == "param" and (e[2] or "").lstrip("_") == "fall_back_to_debug":
                            taken = [int(x) for x, y in tt["ts"] if y == tgt]
                            truthy = (taken != [0]) if taken else ([int(x) for x, y in tt["ts"]] == [0])
                            selected_by_flag = truthy == (c.get("name") == "to_quil_or_debug")
                if selected_by_flag:
                    ncalls += 1
                    res.exceptions.append(("K5|flag-pass-through|%s|%s" % (owner.path, c.get("name")), "entry point selected by the caller's own flag"))
                    continue
                if ti is not None and holds_ph(ti):
                    key = "K5|flag-pass-through|%s|%s" % (owner.path, c.get("name"))
                    res.site(key, True, {"verdict": "VIOLATION"})
                    res.find(key, g.loc(t.get("sp")), "%s serializes a nested value that can hold a Qubit/Target with %s() instead of write(.., fall_back_to_debug)" % (owner.path, c.get("name")), "a placeholder under this writer is silently debug-printed by to_quil(), or makes to_quil_or_debug() fail")
    res.count("flag_call_sites", ncalls, floor=100)
    res.site("K5|flag-pass-through", True, {"call_sites": ncalls})
    # R3
    ph_writers = set(allowed.values())
    nfmt = 0
    for g, owner in scope:
        if owner.path in ph_writers:
            continue
        for bb, t, c in g.calls():
            if c and c.get("name") in ("new_debug", "new_display", "new_lower_hex", "new_upper_hex") and "fmt::rt::Argument" in callee_path(c):
                nfmt += 1
                for ti in c.get("args", []):
                    if holds_ph(ti):
                        key = "K2|formatted-not-written|%s" % owner.path
                        res.site(key, True, {"type": db.ty_s(ti)[:80], "verdict": "VIOLATION"})
                        res.find(key, g.loc(t.get("sp")), "%s formats a value of type %s (which can hold a Qubit/Target placeholder) through %s instead of its Quil writer" % (owner.path, db.ty_s(ti)[:80], c.get("name")[4:]), "to_quil() succeeds on a program with an unresolved placeholder and emits text that does not parse")
    res.count("format_arguments_in_writers", nfmt, floor=50)
    res.site("K2|formatted-not-written", True, {"format_arguments": nfmt})
    # shared with C02: literal operands must re-lex as the same kind of literal
    from qv.props.c02 import real_literal_rule
    real_literal_rule(db, res, [w for w in writers if hasattr(w, "impl_self_path")])
    # R5 (K8) positions printed with format_complex: its output can start with `-` and can be a two-part sum `a+bi`.
    #    Outside of Expression (whose own writer/parser pair is decided under C03) the parser of that position must accept a
    #    sign, and must accept a sum (or the writer must not produce one).
    fc = [f for f in db.fns if f.path == "quil_rs::expression::format_complex"]
    piv = [f for f in db.fns if f.path == "quil_rs::parser::expression::parse_immediate_value"]
    if len(fc) == 1 and len(piv) == 1:
        users = [w for w in writers if any(c and callee_path(c) == fc[0].path for g in [w] + db.closures_of(w) for bb, t, c in g.calls())]
        res.count("format_complex_writers", len(users), floor=2)
        # does parse_immediate_value look at operator tokens at all (sign / sum)?
        OPER = "quil_rs::parser::lexer::Operator"
        mentions_operator = False
        for g in [piv[0]] + db.closures_of(piv[0]):
            for sp_, pl in __import__("qv.rules.k2_coverage", fromlist=["places_in"]).places_in(g):
                for pr in pl["pr"]:
                    if isinstance(pr, dict) and pr.get("dc") == "Operator":
                        mentions_operator = True
        for w in users:
            tname = w.impl_self_path()
            if tname == "quil_rs::expression::Expression":
                continue
            # the parser of this position: a parser function that refers to a constructor of this type and, directly or through
            # parser helpers, to parse_immediate_value (e.g. `map(parse_immediate_value, UnresolvedCallArgument::Immediate)`)
            short = tname.rsplit("::", 1)[-1]

            def refs(f):
                out = set()
                for g in [f] + db.closures_of(f):
                    for bb, t, c in g.calls():
                        if c:
                            out.add(callee_path(c))
                        for a_ in t["args"]:
                            for n in nodes(fn_expr_operand(g, a_)):
                                if n[0] == "fnconst":
                                    out.add(n[1])
                return out

            def mentions_op(f):
                for g in [f] + db.closures_of(f):
                    for sp_, pl in __import__("qv.rules.k2_coverage", fromlist=["places_in"]).places_in(g):
                        for pr in pl["pr"]:
                            if isinstance(pr, dict) and pr.get("dc") == "Operator":
                                return True
                    if any(c and c.get("name") in ("signed_real", "signed_integer", "invalid_sign") for bb, t, c in g.calls()):
                        return True
                    # a match on an Option<Operator> / Operator value
                    for b_ in g.blocks:
                        for s_ in b_["s"]:
                            if s_["k"] == "assign" and s_["rv"]["k"] == "discr":
                                prs = [x for x in s_["rv"]["p"]["pr"] if isinstance(x, dict) and "t" in x]
                                ti = prs[-1]["t"] if prs else g.locals[s_["rv"]["p"]["l"]]["t"]
                                if db.ty_s(ti).endswith("lexer::Operator"):
                                    return True
                return False

            parser_fns = {f.path: f for f in db.fns if f.path.startswith("quil_rs::parser::") and f.kind in ("Fn", "AssocFn")}
            makers, chain = [], []
            for f in parser_fns.values():
                r = refs(f)
                if not any(("::%s::" % short) in c_ or c_.endswith("::" + short) for c_ in r):
                    continue
                # helpers referenced by f that reach parse_immediate_value
                seen, work, hit = set(), [x for x in r if x in parser_fns], []
                while work:
                    x = work.pop()
                    if x in seen:
                        continue
                    seen.add(x)
                    if x == piv[0].path:
                        hit.append(x)
                        continue
                    work += [y for y in refs(parser_fns[x]) if y in parser_fns and y != f.path]
                if hit:
                    makers.append(f)
                    # the helpers on the way (those that themselves reach piv)
                    for x in seen:
                        if x != piv[0].path and x in parser_fns and (piv[0].path in refs(parser_fns[x])):
                            chain.append(parser_fns[x])
            uses_raw_immediate = bool(makers)
            mentions_operator = mentions_op(piv[0])
            signed = mentions_operator or any(mentions_op(f) for f in makers + chain)
            sums = mentions_operator or any(any(y.endswith("::parse_expression") or y.endswith("::parse_infix") for y in refs(f)) for f in chain)
            for clause, okv, what, wit in (
                ("sign", (not uses_raw_immediate) or signed, "a value whose text starts with `-`", "Call with Immediate(-1.5) prints `CALL f -1.5`, which does not parse"),
                ("sum", (not uses_raw_immediate) or sums, "a value with both a real and an imaginary part (`1+2.0i`)", "Call with Immediate(1+2i) prints `CALL f 1+2.0i`, which does not parse"),
            ):
                key = "K8|complex-literal-position|%s|%s" % (tname.rsplit("::", 1)[-1], clause)
                res.site(key, True, {"writer": tname, "parsed_by": [f.path.rsplit("::", 1)[-1] for f in makers], "verdict": "ok" if okv else "VIOLATION"})
                if not okv:
                    res.find(key, w.loc(), "%s is printed with format_complex, which can produce %s, but its position is parsed with parse_immediate_value (an unsigned single-part literal)" % (tname.replace("quil_rs::", ""), what), wit)
    else:
        res.missing_anchor("format_complex / parse_immediate_value")
    # R6 (K8) an expression printed directly after a whitespace-separated list of qubits, with only optional lists in
    #    between, is read back as further qubits unless it is grouped: parsers of the shape
    #    many0(parse_qubit) many0(..)* parse_expression need a writer that parenthesises the expression (at least when the
    #    optional lists are empty)
    try:
        syn = ctx.syn()
        from qv.synq import find_all as _fa, src as _src
        from qv.props.c03 import emissions as _em
        for pf in syn.fns:
            if "parser/" not in pf["file"]:
                continue
            calls = [(_n["ln"], _n.get("col", 0), _src(_n)) for _n in _fa(pf["body"], lambda n: n.get("k") == "call")]
            calls.sort()
            seq = [c_[2] for c_ in calls]
            qi = [k_ for k_, c_ in enumerate(seq) if c_.startswith("many0(parse_qubit)")]
            ei_ = [k_ for k_, c_ in enumerate(seq) if c_.startswith("parse_expression(")]
            if not qi or not ei_ or ei_[0] < qi[0]:
                continue
            between = [c_ for c_ in seq[qi[0] + 1:ei_[0]] if not c_.startswith("many0(") and not c_.startswith("String(")]
            if between:
                continue  # a mandatory token separates the list from the expression
            # the type built by this parser
            built = [_src(n_) for n_ in _fa(pf["body"], lambda n: n.get("k") == "struct" and isinstance(n.get("path"), str))]
            for ty in sorted({b_.split(" ")[0].rsplit("::", 1)[-1] for b_ in built}):
                ws = [f_ for f_ in syn.fns if f_["name"] == "write" and f_.get("impl_self") == ty and str(f_.get("impl_trait", "")).endswith("Quil")]
                if len(ws) != 1:
                    continue
                em = _em(ws[0]["body"])
                grouped = ("lit", "(") in em or any(e_[0] == "lit" and e_[1].endswith("(") for e_ in em)
                key = "K8|ungrouped-expression-after-qubit-list|%s" % ty
                res.site(key, True, {"parser": pf["name"], "writer_groups_the_expression": grouped, "verdict": "ok" if grouped else "VIOLATION"})
                if not grouped:
                    res.find(key, "%s:%d" % (ws[0]["file"], ws[0]["ln"]), "%s parses `qubit* (optional lists) expression` with nothing mandatory between the qubits and the expression, and the %s writer prints the expression ungrouped: an expression whose text starts with an integer or an identifier is read back as more qubits" % (pf["name"], ty),
                             "Delay{qubits: [0], frame_names: [], duration: 1+2} prints `DELAY 0 1+2`, which does not parse; likewise a duration `theta[0]` or `pi`")
                # which expression kinds are grouped: the first token of the printed duration decides whether
                # many0(parse_qubit) swallows it (qubits are Integer | Identifier | %Variable tokens).  First tokens per
                # kind, read off the Expression writer: Address `name[`, FunctionCall `name(`, PiConstant `pi`, Variable
                # `%name` -> swallowed; Infix starts with its left operand -> anything; Prefix starts with its operator,
                # and `+` prints nothing -> the operand; Number: digits / sign (an integral real is recovered by the
                # parser's integer fallback, a two-part literal is the writer's own business: K8|complex-literal-position)
                MUST_GROUP = {"Address", "FunctionCall", "Infix", "PiConstant", "Variable"}
                _lit = lambda x: x.lower() if x in ("True", "False") else x
                if grouped:
                    key = "K8|grouped-expression-kinds|%s" % ty
                    tables = []
                    for m_ in _fa(ws[0]["body"], lambda n: n.get("k") == "match"):
                        t_ = {}
                        for a_ in m_["arms"]:
                            for p_ in (a_["pat"]["ps"] if a_["pat"].get("k") == "or" else [a_["pat"]]):
                                nm = _src(p_).split("(")[0].split("{")[0].strip()
                                if nm.startswith("Expression::"):
                                    t_[nm.rsplit("::", 1)[-1]] = (_lit(_src(a_["body"]).strip()), bool(a_.get("guard")))
                                elif nm == "_":
                                    t_["_"] = (_lit(_src(a_["body"]).strip()), bool(a_.get("guard")))
                        if t_:
                            tables.append(t_)
                    unconditional = not _fa(ws[0]["body"], lambda n: n.get("k") in ("if", "match"))
                    if unconditional:
                        res.site(key, True, {"grouping": "unconditional", "verdict": "ok"})
                    elif len(tables) != 1:
                        res.site(key, False, {"verdict": "undecided: the grouping decision is not a single match on the expression kind"})
                        res.undecided.append("grouped-expression-kinds|%s: decision shape not recognised" % ty)
                    else:
                        t_ = tables[0]
                        bad_ = []
                        for v_ in sorted(MUST_GROUP):
                            body_, guard_ = t_.get(v_, t_.get("_", ("<missing>", False)))
                            if body_ != "true" or guard_:
                                bad_.append("%s => %s" % (v_, body_[:40]))
                        body_, guard_ = t_.get("Prefix", t_.get("_", ("<missing>", False)))
                        if body_ == "false" or not (body_ == "true" or "Plus" in body_ or "operator" in body_):
                            bad_.append("Prefix => %s (a prefix `+` prints nothing, so its operand comes first)" % body_[:40])
                        ok_ = not bad_
                        res.site(key, True, {"table": {k_: v_[0][:50] for k_, v_ in t_.items()}, "ungrouped_kinds_that_read_as_qubits": bad_, "verdict": "ok" if ok_ else "VIOLATION"})
                        if not ok_:
                            res.find(key, "%s:%d" % (ws[0]["file"], ws[0]["ln"]), "the %s writer leaves these expression kinds ungrouped although their text starts with a token that %s reads as a qubit: %s" % (ty, pf["name"], bad_),
                                     "Delay{qubits: [0], frame_names: [], duration: %theta} prints `DELAY 0 %theta`, which does not parse; a duration cis(2) comes back as qubits [0, cis] and duration 2")
    except RuntimeError:
        res.undecided.append("K8|ungrouped-expression-after-qubit-list (no syn facts)")
    # R4
    for name, const in (("to_quil", 0), ("to_quil_or_debug", 1)):
        fs = [f for f in db.fns if f.path == "quil_rs::quil::Quil::" + name]
        key = "K5|entry-constant|" + name
        ok = False
        if len(fs) == 1:
            f = fs[0]
            ws = [(bb, t) for bb, t, c in f.calls() if c and c.get("name") == "write" and (c.get("trait") == "quil_rs::quil::Quil" or "quil::Quil" in callee_path(c))]
            if len(ws) == 1:
                e = fn_expr_operand(f, ws[0][1]["args"][2])
                ok = e[0] == "const" and (e[1] in (const, "true" if const else "false"))
                if ok and name == "to_quil":
                    # the error is propagated: the result of write decides the return
                    ok = any(tt["t"]["k"] == "switch" and any(n[0] == "call" and n[1].endswith("::write") for n in nodes(fn_expr_operand(f, tt["t"]["d"]))) for tt in f.blocks)
        else:
            res.missing_anchor("Quil::" + name)
        res.site(key, True, {"verdict": "ok" if ok else "VIOLATION"})
        if not ok:
            res.find(key, "-", "Quil::%s does not call write with fall_back_to_debug = %s%s" % (name, bool(const), " and propagate its error" if name == "to_quil" else ""), "to_quil() debug-prints placeholders / to_quil_or_debug() fails on them")
    res.explanation = "Who-may-construct rule for the two placeholder errors with their controlling conditions; provenance of the fall_back_to_debug argument at every writer-to-writer call; type-directed check that nothing that can hold a placeholder is formatted through Debug/Display or serialized through the flag-less entry points inside a writer."
    res.assumptions = ["text/parse agreement clauses are decided under C02 and C07"]
    return res
