"""C05 Numeric literals are parsed to their exact value or rejected.

Decides (necessary conditions, for all inputs at once):
  R1  no value-changing numeric cast (narrowing / sign-changing int cast, float->int,
      f64->f32) exists in any function reachable from the parse entry points;
  R2  no unchecked integer arithmetic (undischarged MIR Overflow assert) there either;
  R3  every construction of Token::Float is dominated by the finite side of an
      `is_finite` test on the same value;
  R4  the lexer maps lexical's Overflow/Underflow errors to a hard nom Failure, so an
      out-of-range literal cannot backtrack into another token kind.
Does not decide the digit->value computation inside `lexical` (trusted)."""
import re

from qv.engine import callee_of, callee_path, fn_expr_operand
from qv.props.common import aggregates, in_span, parse_reach
from qv.report import Result
from qv.rules import guards
from qv.rules.k1_panic import sites_in

INT_BITS = {"i8": 8, "i16": 16, "i32": 32, "i64": 64, "i128": 128, "isize": 64, "u8": 8, "u16": 16, "u32": 32, "u64": 64, "u128": 128, "usize": 64}


def lossy(ck, ft, tt):
    if ck == "IntToInt" and ft in INT_BITS and tt in INT_BITS:
        fs, ts = ft[0] == "i", tt[0] == "i"
        fb, tb = INT_BITS[ft], INT_BITS[tt]
        if tb < fb:
            return "narrowing"
        if fs != ts and not (not fs and ts and tb > fb):
            # same width sign change, or signed -> unsigned of any width
            return "sign-changing"
        return None
    if ck == "FloatToInt":
        return "float-to-int"
    if ck == "FloatToFloat" and ft == "f64" and tt == "f32":
        return "narrowing float"
    return None


def run(ctx):
    res = Result("C05")
    db = ctx.db("quil_rs")
    mono = ctx.mono("quil_rs")
    entries, parent, local = parse_reach(ctx, res)
    res.rules += [
        "R1 (K6) no value-changing numeric cast in parse-reachable functions",
        "R2 (K1a) no undischarged integer-overflow assert in parse-reachable functions",
        "R3 (K7) Token::Float construction dominated by the finite side of is_finite on the same value",
        "R4 (K8) lexical Overflow/Underflow -> nom::Err::Failure",
        "R5 (K6) lexical ParseFloatOptions must not enable `lossy`",
    ]
    ncasts = 0
    for dp in sorted(local):
        f = db.by_dp.get(dp)
        if f is None:
            continue
        ords = {}
        for i, j, s in f.stmts():
            if s["k"] != "assign" or s["rv"]["k"] != "cast":
                continue
            rv = s["rv"]
            if not ("Int" in rv["ck"] or "Float" in rv["ck"]) or rv["ck"].startswith("PointerCoercion") or "Ptr" in rv["ck"]:
                continue
            ft, tt = db.ty_s(rv["ft"]), db.ty_s(rv["t"])
            if s.get("exp") and any(m.startswith("::") or m in ("derive", "Debug", "Clone", "Hash", "PartialEq") for m in s.get("mac", [])):
                continue  # derive-generated discriminant casts
            ncasts += 1
            why = lossy(rv["ck"], ft, tt)
            base = "K6|lossy-cast|%s|%s->%s" % (f.path, ft, tt)
            n = ords.get(base, 0)
            ords[base] = n + 1
            key = base if n == 0 else "%s#%d" % (base, n)
            res.site(key, True, {"cast": "%s %s->%s" % (rv["ck"], ft, tt), "fn": f.path, "loc": f.loc(s["sp"]), "verdict": why or "value-preserving / rounding"})
            if why:
                res.find(key, f.loc(s["sp"]), "%s cast `%s as %s` on a path reachable from parsing: a literal outside the target range is silently changed" % (why, ft, tt), "e.g. `MOVE ro 18446744073709551615` when a u64 literal is cast to i64")
        # R2
        for st in sites_in(f):
            if st.kind == "assert" and st.detail.startswith("Overflow"):
                why = guards.discharge_add_small(db, f, st) or guards.discharge_sum_of_lens(db, f, st)
                res.site(st.key, True, {"site": st.key, "loc": st.loc, "verdict": "discharged: " + why if why else "VIOLATION"})
                if not why:
                    res.find(st.key, st.loc, "unchecked integer arithmetic `%s` reachable from parsing" % st.detail, "`MOVE ro -9223372036854775808`")

    # R3: Token::Float constructions
    nfloat = 0
    token_adt = "quil_rs::parser::token::Token"
    if token_adt not in db.adts:
        res.missing_anchor(token_adt)
    for f in db.fns:
        if f.is_derived():
            continue  # derive(Clone) rebuilds an existing token
        for bb, s in aggregates(f, token_adt, "Float"):
            nfloat += 1
            x = fn_expr_operand(f, s["rv"]["ops"][0])
            key = "K7|float-finite|%s" % f.path
            ok = False
            dom = f.dominators().get(bb, set())
            for d in dom:
                t = f.blocks[d]["t"]
                if t["k"] != "switch":
                    continue
                e = fn_expr_operand(f, t["d"])
                if e[0] == "call" and e[1].endswith("::is_finite") and e[2] and guards.same_origin(e[2][0], x):
                    zero = [b for v, b in t["ts"] if v == "0"]
                    nonfinite_side = zero[0] if zero else None
                    finite_side = t["else"] if zero else None
                    for v, b in t["ts"]:
                        if v == "1":
                            finite_side = b
                    if finite_side is not None and (finite_side in dom or finite_side == bb) and nonfinite_side not in dom and nonfinite_side != bb:
                        ok = True
            res.site(key, True, {"site": key, "loc": f.loc(s["sp"]), "verdict": "guarded by is_finite" if ok else "VIOLATION"})
            if not ok:
                res.find(key, f.loc(s["sp"]), "Token::Float is constructed without a dominating is_finite check on the same value: `1e999` would become an infinite literal", "`RX(1e999) 0`")
    # Token::Float as a function item (map(.., Token::Float)) bypasses any check
    for f in db.fns:
        for i, b in enumerate(f.blocks):
            t = b["t"]
            ops = list(t.get("args", [])) if t["k"] == "call" else []
            for s in b["s"]:
                if s["k"] == "assign":
                    ops += f.rvalue_operands(s["rv"])
            for op in ops:
                k = op.get("k")
                if k and "fn" in k and k["fn"]["path"].endswith("parser::token::Token::Float"):
                    key = "K7|float-ctor-as-fn|%s" % f.path
                    res.site(key, True)
                    res.find(key, f.loc(t["sp"]), "Token::Float used as a function value (unchecked construction)")

    # R4: lexical error mapping
    nmap = 0
    for m in db.matches:
        if m["k"] != "match" or db.ty_s(m["scrut_t"]) not in ("lexical::Error", "&lexical::Error"):
            continue
        owner = db.by_path.get(m["owner"], [None])[0]
        if owner is None:
            continue
        for arm in m["arms"]:
            pats = arm["pat"]["ps"] if arm["pat"]["k"] == "or" else [arm["pat"]]
            names = {p["c"]["variant"] for p in pats if p["k"] == "ctor" and p.get("c")}
            for v in sorted(names & {"Overflow", "Underflow"}):
                nmap += 1
                key = "K8|lex-overflow-is-failure|%s|%s" % (owner.path, v)
                kinds = set()
                for bb, s in aggregates(owner, "nom::Err"):
                    if in_span(s["sp"], arm["body_sp"]):
                        kinds.add(s["rv"]["a"]["variant"])
                ok = kinds == {"Failure"}
                res.site(key, True, {"site": key, "constructs": sorted(kinds), "verdict": "ok" if ok else "VIOLATION"})
                if not ok:
                    res.find(key, owner.loc(arm["sp"]), "lexical::Error::%s is mapped to %s instead of nom::Err::Failure: an out-of-range literal can backtrack and be re-lexed as something else" % (v, sorted(kinds) or "nothing"))
    # R5: the lexical parse options used by the lexer must not enable lossy (fast-path only) float parsing
    nopt = 0
    for f in db.fns:
        for bb, t, c in f.calls():
            p = callee_path(c) if c else ""
            if re.match(r"^lexical.*::Parse(Float|Integer)Options(Builder)?::", p):
                nopt += 1
                if p.endswith("::lossy") and len(t["args"]) > 1:
                    v = fn_expr_operand(f, t["args"][1])
                    key = "K6|lossy-float-option|%s" % f.path
                    ok = v[0] == "const" and v[1] in (0, "false")
                    res.site(key, True, {"site": key, "arg": str(v)[:60], "verdict": "ok" if ok else "VIOLATION"})
                    if not ok:
                        res.find(key, f.loc(t["sp"]), "lexical float parsing is configured `lossy`: literals with more than 19 significant digits are no longer rounded to nearest", "`1.000000000000000111022302462515654042363166809082031251` lexes to 1.0 instead of 1.0000000000000002")
    res.count("lexical_parse_option_calls", nopt, floor=3)
    res.count("numeric_casts_seen", ncasts, floor=3)
    res.count("token_float_constructions", nfloat, floor=1)
    res.count("lexical_overflow_arms", nmap, floor=2)
    res.count("reachable_local_functions", len(local), floor=300)
    res.analysed = {"entries": [e.path for e in entries]}
    # R5 sign interpretation: a numeric value is negated only under a test of the sign token being Operator::Minus
    OPER = "quil_rs::parser::lexer::Operator"
    minus_i = [v["i"] for v in db.adts[OPER]["variants"] if v["n"] == "Minus"] if OPER in db.adts else []
    nneg = 0
    for f in db.fns:
        if not f.path.startswith("quil_rs::parser"):
            continue
        sites = [(i_, "neg") for i_, j_, s_ in f.stmts() if s_["k"] == "assign" and s_["rv"]["k"] == "un" and s_["rv"]["op"] == "Neg"]
        sites += [(bb, c.get("name")) for bb, t, c in f.calls() if c and c.get("name") in ("neg", "checked_neg", "wrapping_neg", "overflowing_neg")]
        for bb, what in sites:
            nneg += 1
            key = "K7|negation-under-minus|%s" % f.path
            ok = False
            seen_conds = []
            for sb, tgt in f.control_deps(bb):
                tt = f.blocks[sb]["t"]
                if tt["k"] != "switch":
                    continue
                op = tt["d"]
                pl = op.get("m") or op.get("c")
                if not pl:
                    continue
                # the switch operand is `discriminant(place)`: find the place's type
                for d_ in f.defs().get(pl["l"], []):
                    if d_[0] == "s" and d_[3]["rv"]["k"] == "discr":
                        p2 = d_[3]["rv"]["p"]
                        prs = [x for x in p2["pr"] if isinstance(x, dict) and "t" in x]
                        ti = prs[-1]["t"] if prs else f.locals[p2["l"]]["t"]
                        ty = db.types[ti]
                        while ty["k"] == "ref":
                            ty = db.types[ty["t"]]
                        taken = [int(v) for v, x in tt["ts"] if x == tgt]
                        seen_conds.append((ty.get("path", ty["s"]), taken))
                        if ty.get("path") == OPER and minus_i and taken == minus_i:
                            ok = True
            res.site(key, True, {"site": what, "controlling_enum_tests": [(a.rsplit("::", 1)[-1], b) for a, b in seen_conds][:4], "verdict": "ok" if ok else "VIOLATION"})
            if not ok:
                res.find(key, f.loc(), "%s negates a numeric literal without testing that the sign token is Operator::Minus (controlling tests: %s)" % (f.path.replace("quil_rs::", ""), [(a.rsplit("::", 1)[-1], b) for a, b in seen_conds][:4]), "`CALL foo +2` is accepted and the literal silently becomes -2")
    res.count("negation_sites", nneg, floor=1)
    # R6 the identity of float literals is exact: the Eq/Hash helpers used for Expression numbers (and hence for interning
    #    of sub-expressions) compare exactly - no ordering comparison, no arithmetic, no tolerance constant
    fpe = [f for f in db.fns if f.path.startswith("quil_rs::floating_point_eq::")]
    res.count("floating_point_eq_functions", len(fpe), floor=2)
    for f in fpe:
        key = "K6|float-identity-exact|%s" % f.path
        bad = []
        for i_, j_, s_ in f.stmts():
            if s_["k"] == "assign" and s_["rv"]["k"] == "bin":
                opn = s_["rv"]["op"]
                tys = []
                for side in ("a", "b"):
                    o = s_["rv"][side]
                    if o.get("k") is not None:
                        tys.append(db.types[o["k"]["t"]]["s"])
                        if db.types[o["k"]["t"]]["s"] in ("f64", "f32") and opn in ("Eq", "Ne") and str(o["k"].get("float", o["k"].get("s"))) not in ("0.0", "-0.0", "0", "0f64", "0.0f64"):
                            bad.append("comparison with the constant %s" % o["k"].get("s"))
                    else:
                        pl = o.get("m") or o.get("c")
                        tys.append(db.ty_s(f.locals[pl["l"]]["t"]) if not pl["pr"] else "?")
                if any(t_ in ("f64", "f32") for t_ in tys) and opn not in ("Eq", "Ne", "BitAnd", "BitOr"):
                    bad.append("float %s" % opn)
        for bb, t, c in f.calls():
            if c and re.search(r"f64>?::(abs|round|floor|ceil|trunc|signum|max|min|clamp|mul_add|powi|powf|sqrt)$|::(abs_sub|total_cmp|partial_cmp)$", callee_path(c)):
                bad.append(callee_path(c).rsplit("::", 1)[-1] + "()")
        res.site(key, True, {"inexact_operations": bad, "verdict": "ok" if not bad else "VIOLATION"})
        if bad:
            res.find(key, f.loc(), "%s is not an exact identity on floats (%s): Expression numbers equal under it are merged by interning, so a literal can be replaced by a different one" % (f.path.replace("quil_rs::", ""), sorted(set(bad))), "`RX(2*1e-17) 0` then `RX(2*1e-30) 1`: the second gate's parameter comes back as 2*1e-17")
    # radix prefixes: 0b.. is base 2, 0o.. base 8, 0x.. base 16, no prefix base 10 (read from the instantiations of the
    # lexer's radix macro, whatever the generated functions are called)
    key = "K8|radix-prefix-table"
    try:
        syn_ = ctx.syn()
        inst = [m_ for m_ in syn_.item_macros if m_.get("module", "").startswith("quil_rs::parser::lexer") and len(m_.get("args", [])) in (2, 3) and m_["args"][1].get("k") == "lit" and m_["args"][1].get("t") == "int" and (len(m_["args"]) == 2 or m_["args"][2].get("t") == "byte")]
        table = {}
        for m_ in inst:
            pre = chr(m_["args"][2]["v"]) if len(m_["args"]) == 3 else None
            table.setdefault(pre, set()).add(int(m_["args"][1]["v"]))
        want = {"b": {2}, "o": {8}, "x": {16}, None: {10}}
        if not inst:
            res.site(key, False, {"verdict": "undecided: no radix macro instantiations found in the lexer"})
            res.undecided.append(key)
        else:
            ok = table == want
            res.site(key, True, {"table": {str(k_): sorted(v_) for k_, v_ in table.items()}, "verdict": "ok" if ok else "VIOLATION"})
            if not ok:
                res.find(key, "%s:%d" % (inst[0]["file"], inst[0]["ln"]), "the lexer's radix table is %s; expected 0b -> 2, 0o -> 8, 0x -> 16, no prefix -> 10" % {str(k_): sorted(v_) for k_, v_ in table.items()}, "`MOVE x 0o17` stores 23 instead of 15")
    except RuntimeError:
        res.undecided.append(key + " (no syn facts)")
    # after the digits of an integer, the bytes that make the literal a real one must include the decimal point and BOTH
    # spellings of the exponent marker (the float parser accepts `e` and `E`); otherwise `2E3` is lexed as the integer 2
    # followed by an identifier and a program is accepted with a different value
    key = "K8|float-continuation-bytes"
    ldn = [f_ for f_ in db.fns if f_.path.startswith("quil_rs::parser::lexer::lex_decimal_number")]
    sets = []
    shape = None
    for f_ in ldn:
        for bb, t, c in f_.calls():
            if c and c.get("name") == "contains" and "slice" in callee_path(c) and t["args"]:
                e = fn_expr_operand(f_, t["args"][0])
                while e[0] == "cast":
                    e = e[2]
                if e[0] == "const" and isinstance(e[1], str) and e[1].startswith('b"'):
                    import ast as _ast

                    try:
                        sets.append(set(_ast.literal_eval(e[1])))
                        shape = "byte string"
                    except (ValueError, SyntaxError):
                        pass
                elif e[0] == "field" and str(e[2]).startswith("cap"):
                    # a set captured from the enclosing function: an array with n elements holds at most n bytes
                    parent = next((g_ for g_ in ldn if g_.path == f_.path.rsplit("::{closure", 1)[0]), None)
                    if parent is not None:
                        for i_, j_, st_ in parent.stmts():
                            if st_["k"] == "assign" and st_["rv"]["k"] == "agg" and st_["rv"]["a"]["k"] == "array":
                                ops_ = [fn_expr_operand(parent, o_) for o_ in st_["rv"]["ops"]]
                                vals = {int(o_[1]) for o_ in ops_ if o_[0] == "const" and str(o_[1]).lstrip("-").isdigit()}
                                if len(ops_) < 3 or len(vals) == len(ops_):
                                    sets.append(vals if len(vals) == len(ops_) else set(["?"] * 0) | set(range(0)) | {-k_ for k_ in range(1, len(ops_) + 1)})
                                    shape = "array of %d elements" % len(ops_)
        for bi_, b_ in enumerate(f_.blocks):
            t_ = b_["t"]
            if t_["k"] == "switch" and f_.local_ty((t_["d"].get("m") or t_["d"].get("c") or {"l": 0})["l"])["s"] == "u8":
                vals = {int(v_) for v_, x_ in t_["ts"]}
                if vals & {46, 101, 69}:
                    sets.append(vals)
                    shape = "match on the byte"
    need = {46, 101, 69}
    if not ldn:
        res.missing_anchor("lex_decimal_number")
    elif not sets:
        res.site(key, False, {"verdict": "undecided: the test for a real literal after integer digits is not a recognised byte-set membership"})
        res.undecided.append(key)
    else:
        best = max(sets, key=lambda x: len(x & need))
        ok = need <= best
        res.site(key, True, {"shape": shape, "bytes": sorted(chr(x) if isinstance(x, int) and 32 <= x < 127 else str(x) for x in best), "verdict": "ok" if ok else "VIOLATION"})
        if not ok:
            res.find(key, ldn[0].loc(), "after integer digits only %s continue the literal as a real number; '.', 'e' and 'E' all must (the float parser accepts both exponent spellings)" % sorted(chr(x) if isinstance(x, int) and 32 <= x < 127 else "<non-constant>" for x in best), "`MOVE x 2E3` is read as `MOVE x 2` followed by a gate named E3")
    res.explanation = (
        "Static rules over the parse-reachable set (%d functions): %d numeric casts classified (none may be value-changing), overflow asserts "
        "must be discharged, %d Token::Float construction(s) must be dominated by is_finite, %d lexical overflow arms must build nom::Err::Failure. "
        "Decides that no literal-derived integer passes through a wrapping/truncating conversion or unchecked arithmetic and that non-finite reals are rejected; "
        "does not decide the digit-to-value computation inside the `lexical` crate." % (len(local), ncasts, nfloat, nmap)
    )
    res.assumptions = ["lexical parses digits exactly and reports Overflow/Underflow for out-of-range literals", "u64 -> f64 conversion rounds to nearest (IEEE)"]
    return res
