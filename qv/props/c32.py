"""C32 Built-in waveforms sample to the right length and respond linearly.

This property is about floating-point sample values; the numbers themselves are out of reach of a static argument
(DESIGN.md section 6).  What IS visible in the shape of the code, and is decided here, are the necessary structural
conditions below.  Breaking any of them changes the sample count or drops a factor from some sample; none of them says
anything about the numeric envelope of a waveform.

  R1 (K4) sample-count-rounded: CommonBuiltinParameters::raw_resolve_with_sample_rate computes the count as
          round(duration * sample_rate) -- exactly one rounding call, on exactly that product, no ceil/floor/trunc -- and
          both outcomes (explicit parameters, partial value) carry that count.
  R2 (K6) length-from-resolved-count: every length in the module (IqSamples::Flat.sample_count, vec![x; n], repeat_n, the
          time-step range) is, after substituting closure captures and closure arguments at every call site, the sum of
          exactly {resolved count} -- or exactly {ceil(pad_left*rate), resolved count, ceil(pad_right*rate)} inside the two
          padded waveforms.  The sample-producing closures only map / chain (no filter, skip, take, step_by ...), and the
          padded ones chain  left zeros . samples . right zeros  in that order.
  R3 (K7) scale-phase-every-sample: build_samples_and_adjust_for_builtin_parameters rewrites every element of the sample
          vector, unconditionally inside its loop, with apply_phase_and_detuning_at_index(scale * sample, phase, detuning,
          sample_rate, index); apply_phase_and_detuning does the same for slices; the helpers have the shape
          iq * cis(2*pi*(detuning*index/rate + phase)); Flat and BoxcarKernel feed scale and phase into their samples in
          both the flat and the detuned branch.
  R4 (K7) zero-scale-all-zero: where a zero-scale fast path exists it is taken exactly under `eval_real(scale) == Ok(0.0)`,
          in the partial and in the total branch, and yields IqSamples::Flat { iq: 0+0i } (its length is covered by R2).
  R5 (K3) partial-and-total-same-source: for each of the waveform kinds the concrete and the partial trait method call the
          same generic raw_iq_values_at_sample_rate with their arguments unchanged; the enum dispatches cover every
          variant; IqSamples::sample_count reads the stored count / the vector length.
"""
import math
import re

from qv.engine import callee_path, fn_expr_operand, fn_expr_rvalue, walk_expr
from qv.props.common import require_fn
from qv.report import Result

B = "quil_rs::waveform::builtin::"
RESOLVERS = ("raw_resolve_with_sample_rate", "concretize_and_resolve", "resolve_for_flat_unless_detuned")
PADDED = ("ErfSquare", "RaisedCosine")
LENGTH_CHANGING = ("filter", "filter_map", "skip", "skip_while", "take", "take_while", "step_by", "flat_map", "flatten", "zip", "dedup", "rev_skip", "cycle", "peekable_skip", "truncate", "pop", "remove", "drain", "retain", "push", "insert", "extend", "resize")


def _strip(e):
    """drop casts, `.0` of checked additions, Try/branch wrappers that do not change the number"""
    while True:
        if e[0] == "cast":
            e = e[2]
        elif e[0] == "field" and e[2] == "0" and e[1][0] == "bin" and e[1][1].endswith("WithOverflow"):
            e = ("bin", e[1][1][: -len("WithOverflow")], e[1][2], e[1][3])
        elif e[0] == "call" and e[1].endswith("::into") and len(e[2]) == 1:
            e = e[2][0]
        elif e[0] == "call" and e[1].endswith("::from") and len(e[2]) == 1 and "convert::From" in e[1] and "units" not in e[1]:
            e = e[2][0]
        else:
            return e


def _terms(e):
    e = _strip(e)
    if e[0] == "bin" and e[1] == "Add":
        return _terms(e[2]) + _terms(e[3])
    return [e]


def _is_field(e, name):
    return e[0] == "field" and e[2] == name


def _root_call(e):
    """innermost call at the root of a projection chain (through Try::branch)"""
    while True:
        if e[0] in ("field", "as"):
            e = e[1]
        elif e[0] == "call" and e[1].endswith("Try>::branch") and e[2]:
            e = e[2][0]
        else:
            return e


def _proj_names(e):
    out = []
    while e[0] in ("field", "as"):
        out.append(str(e[2]))
        e = e[1]
    return out


class Lengths:
    """classifies additive terms of a length, resolving closure captures / closure parameters through the parent"""

    def __init__(self, db, res):
        self.db = db
        self.res = res
        self.by_path = {}
        for f in db.fns:
            self.by_path.setdefault(f.path, f)

    def parent_of(self, f):
        p = f.path.rsplit("::{closure#", 1)
        return self.by_path.get(p[0]) if len(p) == 2 else None

    def closure_constructions(self, parent, path):
        out = []
        for i, j, s in parent.stmts():
            if s["k"] == "assign" and s["rv"]["k"] == "agg" and s["rv"]["a"]["k"] == "closure" and s["rv"]["a"]["path"] == path:
                out.append(fn_expr_rvalue(parent, s["rv"]))
        return out

    def closure_calls(self, parent, path):
        """argument tuples of direct calls parent -> closure"""
        out = []
        for bb, t, c in parent.calls():
            if c and callee_path(c) == path and len(t["args"]) >= 2:
                tup = fn_expr_operand(parent, t["args"][1])
                out.append((bb, tup))
        return out

    def classify(self, f, e, depth=0):
        """-> list of alternatives; each alternative is a sorted list of term classes"""
        alts = [[]]
        for t in _terms(e):
            ts = self.classify_term(f, t, depth)
            alts = [a + [x] if not isinstance(x, list) else a + x for a in alts for x in ts]
        return [sorted(a) for a in alts]

    def classify_term(self, f, t, depth):
        t = _strip(t)
        if depth > 6:
            return ["?deep"]
        if t[0] == "phi":
            out = []
            for x in t[1]:
                out += self.classify_term(f, x, depth + 1)
            return out
        # the rounded count inside the resolver itself
        if t[0] == "call" and t[1].endswith("f64>::round") or (t[0] == "call" and re.search(r"impl f64>::round$", t[1])):
            a = _strip(t[2][0])
            if a[0] == "bin" and a[1] == "Mul" and {self._leafname(a[2]), self._leafname(a[3])} == {"self.duration", "sample_rate"}:
                return ["COUNT"]
            return ["?round-of-other"]
        if t[0] == "call" and re.search(r"impl f64>::ceil$", t[1]):
            a = _strip(t[2][0])
            if a[0] == "bin" and a[1] == "Mul":
                names = {self._leafname(a[2]), self._leafname(a[3])}
                if names == {"self.pad_left", "sample_rate"}:
                    return ["PADL"]
                if names == {"self.pad_right", "sample_rate"}:
                    return ["PADR"]
            return ["?ceil-of-other"]
        if t[0] in ("field", "as"):
            root = _root_call(t)
            names = _proj_names(t)
            if root[0] == "call" and root[1].rsplit("::", 1)[-1] in RESOLVERS:
                # `.sample_count` of the explicit parameters, or the payload (`.1`) of the Partial value
                if names and (names[0] == "sample_count" or (names[0] == "1" and "Partial" in names)):
                    return ["COUNT"]
                return ["?resolver-projection:" + ".".join(reversed(names))]
            if root[0] == "param":
                # a projection of a parameter: `common.sample_count` (explicit parameters handed in by the caller), or a
                # closure capture
                if names and names[-1].startswith("cap") and f.path.rsplit("::", 1)[-1].startswith("{closure#"):
                    return self._capture(f, int(names[-1][3:]), names[:-1], depth)
                if names == ["sample_count"]:
                    tyname = f.local_ty(root[1])["s"]
                    if "ExplicitCommonBuiltinParameters" in tyname:
                        return ["COUNT"]
                return ["?param-projection:" + ".".join(reversed(names))]
            return ["?projection"]
        if t[0] == "param":
            if f.path.rsplit("::", 1)[-1].startswith("{closure#"):
                return self._closure_param(f, t[1], depth)
            return ["?param:" + str(t[2])]
        if t[0] == "const":
            return ["CONST:%s" % (t[1],)]
        if t[0] == "call" and t[1].startswith(B) and t[1].rsplit("::", 1)[-1] not in RESOLVERS and "{closure" not in t[1]:
            # a small local helper (e.g. `fn padding_samples(pad, rate) -> usize`): substitute the arguments into its
            # returned expression and classify that in the caller's context
            h = self.by_path.get(t[1])
            if h is not None and len(h.blocks) <= 6 and h.argc == len(t[2]):
                body = fn_expr_operand(h, {"m": {"l": 0, "pr": []}})
                args = t[2]

                def sub(n):
                    if n[0] == "param" and 1 <= n[1] <= len(args):
                        return args[n[1] - 1]
                    return None

                inl = _map_expr(body, sub)
                alts = self.classify(f, inl, depth + 1)
                if len(alts) == 1 and len(alts[0]) == 1:
                    return [alts[0][0]]
                return [a for a in alts]
            return ["?helper:" + t[1].rsplit("::", 1)[-1]]
        return ["?" + t[0]]

    def _leafname(self, e):
        e = _strip(e)
        if e[0] == "param":
            return str(e[2])
        if e[0] == "field" and e[1][0] == "param":
            return "%s.%s" % (e[1][2], e[2])
        return "?"

    def _capture(self, f, idx, rest, depth):
        parent = self.parent_of(f)
        if parent is None:
            return ["?no-parent"]
        cons = self.closure_constructions(parent, f.path)
        if not cons:
            return ["?closure-not-constructed"]
        out = []
        for c in cons:
            caps = c[2]
            if idx >= len(caps):
                return ["?capture-index"]
            e = caps[idx]
            if rest:
                return ["?capture-projection"]
            out += self.classify_term(parent, e, depth + 1)
        return out

    def _closure_param(self, f, pidx, depth):
        parent = self.parent_of(f)
        if parent is None:
            return ["?no-parent"]
        calls = self.closure_calls(parent, f.path)
        if not calls:
            return ["?closure-never-called-directly"]
        out = []
        for bb, tup in calls:
            if tup[0] != "tuple" or pidx - 2 >= len(tup[1]) or pidx < 2:
                return ["?closure-call-shape"]
            out += self.classify_term(parent, tup[1][pidx - 2], depth + 1)
        return out


def _consts_product(e):
    """(sorted non-constant factor descriptions, product of the constant factors) of a product tree"""
    e = _strip(e)
    if e[0] == "bin" and e[1] == "Mul":
        a, x = _consts_product(e[2])
        b, y = _consts_product(e[3])
        return sorted(a + b), x * y
    if e[0] == "const":
        try:
            return [], float(e[1])
        except (TypeError, ValueError):
            return [str(e[1])], 1.0
    if e[0] == "field" and e[1][0] == "param":
        return ["%s.%s" % (e[1][2], e[2])], 1.0
    if e[0] == "param":
        return [str(e[2])], 1.0
    return ["?" + e[0]], 1.0


def _mul_operands(e):
    """operands of a product written as `a * b` (bin Mul) or through an ops::Mul impl"""
    e = _strip(e)
    if e[0] == "bin" and e[1] == "Mul":
        return [e[2], e[3]]
    if e[0] == "call" and e[1].endswith("::mul") and len(e[2]) == 2:
        return list(e[2])
    return None


def _map_expr(e, fn):
    """rebuild an origin expression, replacing every node for which fn returns a value"""
    r = fn(e)
    if r is not None:
        return r
    tag = e[0]
    m = lambda x: _map_expr(x, fn)
    if tag == "call":
        return (tag, e[1], [m(x) for x in e[2]]) + tuple(e[3:])
    if tag == "callv":
        return (tag, m(e[1]), [m(x) for x in e[2]]) + tuple(e[3:])
    if tag == "bin":
        return (tag, e[1], m(e[2]), m(e[3]))
    if tag in ("un", "cast"):
        return (tag, e[1], m(e[2])) + tuple(e[3:])
    if tag == "agg":
        return (tag, e[1], e[2], {k: m(v) for k, v in e[3].items()})
    if tag in ("tuple", "array", "phi"):
        return (tag, [m(x) for x in e[1]])
    if tag == "closure":
        return (tag, e[1], [m(x) for x in e[2]])
    if tag in ("field", "as", "discr", "cindex", "proj", "repeat"):
        return (tag, m(e[1])) + tuple(e[2:])
    if tag == "index":
        return (tag, m(e[1]), m(e[2]))
    return e


def _has(e, pred):
    hit = []
    walk_expr(e, lambda n: hit.append(n) if pred(n) else None)
    return bool(hit)


def _call_named(f, name):
    return [(bb, t, c) for bb, t, c in f.calls() if c and c.get("name") == name]


def run(ctx):
    res = Result("C32")
    db = ctx.db("quil_rs")
    res.rules += [
        "R1 (K4) sample count = round(duration * sample_rate), single source",
        "R2 (K6) every length is the resolved count (+ ceil paddings in the padded waveforms)",
        "R3 (K7) scale and phase applied to every sample",
        "R4 (K7) zero-scale fast path guarded by scale == 0 and all-zero",
        "R5 (K3) partial and total sampling share one implementation; dispatch covers every waveform",
    ]
    L = Lengths(db, res)
    fns = [f for f in db.fns if f.path.startswith(B) and "::tests::" not in f.path and "::quilpy::" not in f.path and "_serde" not in f.path]
    raw_resolve = [f for f in fns if f.path.endswith("::raw_resolve_with_sample_rate")]
    if len(raw_resolve) != 1:
        res.missing_anchor("CommonBuiltinParameters::raw_resolve_with_sample_rate")
        return res
    rr = raw_resolve[0]
    rr_family = [f for f in fns if f.path.startswith(rr.path)]

    # ---------------------------------------------------------------- R1
    key = "K4|sample-count-rounded"
    roundings = []
    for f in rr_family:
        for bb, t, c in f.calls():
            if c and c.get("name") in ("round", "ceil", "floor", "trunc", "round_ties_even", "rint"):
                roundings.append((f, bb, t, c))
    ok_round = False
    if len(roundings) == 1 and roundings[0][3].get("name") == "round" and roundings[0][0] is rr:
        _, rbb, rt, rc = roundings[0]
        ok_round = L.classify_term(rr, ("call", callee_path(rc), [fn_expr_operand(rr, rt["args"][0])], rbb), 0) == ["COUNT"]
    # what the two outcomes carry
    carried = []
    for f in rr_family:
        for i, j, s in f.stmts():
            if s["k"] == "assign" and s["rv"]["k"] == "agg" and s["rv"]["a"]["k"] == "adt":
                e = fn_expr_rvalue(f, s["rv"])
                if e[1].endswith("ExplicitCommonBuiltinParameters") and "sample_count" in e[3]:
                    carried.append(("explicit", L.classify(f, e[3]["sample_count"])))
                elif e[1].endswith("partiality::Value") and e[2] == "Partial":
                    carried.append(("partial", L.classify(f, e[3]["1"])))
    ok_carry = {k for k, v in carried} == {"explicit", "partial"} and all(v == [["COUNT"]] for k, v in carried)
    ok = ok_round and ok_carry
    res.site(key, True, {"rounding_calls": [c.get("name") for _, _, _, c in roundings], "carried": [[k, v] for k, v in carried], "verdict": "ok" if ok else "VIOLATION"})
    if not ok:
        res.find(key, rr.loc(), "the sample count is not round(duration * sample_rate) carried unchanged into both outcomes (rounding calls %s, carried %s)" % ([c.get("name") for _, _, _, c in roundings], carried), "duration 1.0000004e-6 s at 1 GHz is within tolerance of 1000 samples but yields a different count")

    # ---------------------------------------------------------------- R2
    nsites = 0
    for f in fns:
        if f.path.startswith(rr.path):
            continue
        short = f.path[len(B):]
        padded = any(short.startswith(p + "::") for p in PADDED)
        want_full = ["COUNT", "PADL", "PADR"] if padded else ["COUNT"]
        sites = []
        for i, j, s in f.stmts():
            if s["k"] == "assign" and s["rv"]["k"] == "agg" and s["rv"]["a"]["k"] == "adt":
                e = fn_expr_rvalue(f, s["rv"])
                if e[1].endswith("sampling::IqSamples") and e[2] == "Flat":
                    sites.append(("Flat.sample_count", e[3]["sample_count"], want_full))
                elif e[1].endswith("partiality::Value") and e[2] == "Partial":
                    payload = e[3]["1"]
                    alts_ = payload[1] if payload[0] == "phi" else [payload]
                    if not all(x[0] == "agg" and x[1].endswith("sampling::IqSamples") for x in alts_):
                        # a bare count, or a placeholder handed on from a resolver
                        sites.append(("Partial payload", payload, ["COUNT"]))
                elif e[1].endswith("ExplicitCommonBuiltinParameters") and "sample_count" in e[3]:
                    sites.append(("explicit parameters rebuilt", e[3]["sample_count"], ["COUNT"]))
                elif e[1].endswith("partiality::Value") and e[2] == "Total" and f.path in (B + "concretize_and_resolve", B + "resolve_for_flat_unless_detuned"):
                    tup = e[3]["0"]
                    elems = tup[1] if tup[0] == "tuple" else [tup]
                    passed = [x for x in elems if x[0] in ("field", "as") and _root_call(x)[0] == "call" and _root_call(x)[1].endswith("::raw_resolve_with_sample_rate") and "Total" in _proj_names(x)]
                    sites.append(("explicit parameters passed on unchanged", ("const", 0, "usize") if len(passed) == 1 else ("other", "explicit parameters not passed on"), ["CONST:0"]))
        for bb, t, c in f.calls():
            if not c:
                continue
            p = callee_path(c)
            if p.endswith("vec::from_elem") and len(t["args"]) == 2:
                sites.append(("vec![_; n]", fn_expr_operand(f, t["args"][1]), want_full))
            elif p.endswith("iter::repeat_n") and len(t["args"]) == 2:
                sites.append(("repeat_n", fn_expr_operand(f, t["args"][1]), None))
            elif p.endswith("::range") and "ndarray" in p and len(t["args"]) == 3:
                a0, a2 = fn_expr_operand(f, t["args"][0]), fn_expr_operand(f, t["args"][2])
                unit = a0[0] == "const" and float(a0[1]) == 0.0 and a2[0] == "const" and float(a2[1]) == 1.0
                sites.append(("time-step range", fn_expr_operand(f, t["args"][1]) if unit else ("other", "range not 0..n step 1"), ["COUNT"]))
            elif c.get("name") in LENGTH_CHANGING and not p.startswith("std::option") and not p.startswith("std::result") and "Option" not in p and "Result" not in p:
                sites.append(("length-changing adaptor " + c.get("name"), None, None))
        for what, e, want in sites:
            nsites += 1
            key = "K6|length-from-resolved-count|%s|%s" % (short, what)
            if e is None:
                res.site(key, True, {"verdict": "VIOLATION"})
                res.find(key, f.loc(), "%s uses `%s`, which changes the number of samples produced from the time steps" % (short, what.rsplit(" ", 1)[-1]), "a Gaussian of 10 samples comes back with 9")
                continue
            alts = L.classify(f, e)
            if want is None:  # repeat_n: one of the paddings
                ok = all(a in (["PADL"], ["PADR"]) for a in alts) and bool(alts)
            else:
                ok = bool(alts) and all(a == want for a in alts)
            res.site(key, True, {"terms": alts, "expected": want or "PADL | PADR", "verdict": "ok" if ok else "VIOLATION"})
            if not ok:
                res.find(key, f.loc(), "%s: the length at `%s` is made of %s; expected exactly %s (resolved count = round(duration*rate)%s)" % (short, what, alts, want or "one padding", ", paddings = ceil(pad*rate)" if padded else ""), "an ErfSquare with pad_left = 1.5 samples gets 1 instead of 2 padding samples, or a placeholder is shorter than the samples it stands for")
    res.count("length_sites", nsites, floor=22)

    # padded waveforms: left zeros . samples . right zeros
    for p in PADDED:
        raw = [f for f in fns if f.path == B + p + "::<T>::raw_iq_values_at_sample_rate"]
        key = "K6|padding-order|%s" % p
        if len(raw) != 1:
            res.missing_anchor(p + "::raw_iq_values_at_sample_rate")
            continue
        clos = [f for f in fns if f.path.startswith(raw[0].path + "::{closure#") and f.path.count("{closure#") == 1 and _call_named(f, "chain")]
        ok = False
        detail = "no sample-building closure with chain()"
        if len(clos) == 1:
            g = clos[0]
            chains = _call_named(g, "chain")
            if len(chains) == 2:
                outer = max(chains, key=lambda x: x[0])
                oe = ("call", "chain", [fn_expr_operand(g, a) for a in outer[1]["args"]], outer[0])
                inner = oe[2][0]
                right = oe[2][1]
                if inner[0] == "call" and inner[1].endswith("::chain"):
                    left, mid = inner[2]

                    def pad_of(x):
                        if x[0] == "call" and x[1].endswith("repeat_n"):
                            zero = x[2][0]
                            z_ok = zero[0] == "call" and all(a[0] == "const" and float(a[1]) == 0.0 for a in zero[2]) and len(zero[2]) == 2
                            return (L.classify(g, x[2][1]), z_ok)
                        return (None, False)

                    lp, rp = pad_of(left), pad_of(right)
                    mid_ok = mid[0] == "call" and mid[1].endswith("::map") and _has(mid, lambda n: n[0] in ("param", "field") and "time_steps" in str(n))
                    ok = lp == ([["PADL"]], True) and rp == ([["PADR"]], True) and mid_ok
                    detail = {"left": lp, "right": rp, "middle_is_map_over_time_steps": mid_ok}
            # the chained iterator is what the closure returns
            ret_ok = False
            for rb in g.return_blocks():
                e = fn_expr_operand(g, {"m": {"l": 0, "pr": []}})
                ret_ok = e[0] == "call" and e[1].endswith("::chain")
            ok = ok and ret_ok
        res.site(key, True, {"detail": str(detail)[:300], "verdict": "ok" if ok else "VIOLATION"})
        if not ok:
            res.find(key, raw[0].loc(), "%s does not produce  ceil(pad_left*rate) zeros . samples . ceil(pad_right*rate) zeros  (%s)" % (p, detail), "pad_left = 2 samples, pad_right = 0: the zeros appear after the pulse")

    # ---------------------------------------------------------------- R3
    bsa = require_fn(db, res, B + "build_samples_and_adjust_for_builtin_parameters")
    apd = require_fn(db, res, B + "apply_phase_and_detuning")
    apdi = require_fn(db, res, B + "apply_phase_and_detuning_at_index")
    ap = require_fn(db, res, B + "apply_phase")
    p2r = require_fn(db, res, B + "polar_to_rectangular")
    if not all((bsa, apd, apdi, ap, p2r)):
        return res

    def per_element_rule(f, key, with_scale):
        """the element-wise rewrite, written as a `for` loop over iter_mut().enumerate() or as `.for_each(|(index, x)| ..)`"""
        host, via, caps = f, "loop", None
        calls = [(bb, t, c) for bb, t, c in f.calls() if c and callee_path(c) == apdi.path]
        if not calls:
            for bb, t, c in f.calls():
                if c and c.get("name") == "for_each" and len(t["args"]) == 2:
                    recv, clo = fn_expr_operand(f, t["args"][0]), fn_expr_operand(f, t["args"][1])
                    whole = _has(recv, lambda n: n[0] == "call" and n[1].endswith("::enumerate")) and _has(recv, lambda n: n[0] == "call" and n[1].endswith("::iter_mut"))
                    g = L.by_path.get(clo[1]) if clo[0] == "closure" else None
                    if g is not None and whole and not f.control_deps(bb, transitive=True):
                        gc = [(b2, t2, c2) for b2, t2, c2 in g.calls() if c2 and callee_path(c2) == apdi.path]
                        if gc:
                            host, via, caps, calls = g, "for_each", clo[2], gc
        ok = False
        detail = {"calls": len(calls), "form": via}
        if len(calls) == 1:
            bb, t, c = calls[0]

            def lift(e):
                """captures of the for_each closure are read in the enclosing function"""
                if caps is None:
                    return e

                def sub(n):
                    if n[0] == "field" and str(n[2]).startswith("cap") and n[1][0] == "param" and n[1][1] == 1:
                        return caps[int(n[2][3:])]
                    return None

                return _map_expr(e, sub)

            args = [lift(fn_expr_operand(host, a)) for a in t["args"]]
            if via == "loop":
                elem_ok = lambda x: _has(x, lambda n: n[0] == "call" and n[1].endswith("Iterator>::next"))
            else:
                elem_ok = lambda x: _has(x, lambda n: n[0] == "param" and n[1] == 2)
            if with_scale:
                ops = _mul_operands(args[0])
                a0 = bool(ops) and any(_is_field(_strip(o), "scale") for o in ops) and any(elem_ok(o) for o in ops)
            else:
                a0 = elem_ok(args[0]) and _mul_operands(args[0]) is None
            names = [L._leafname(a) for a in args[1:4]]
            want = ["common.phase", "common.detuning", "sample_rate"] if with_scale else ["phase", "detuning", "sample_rate"]
            idx_ok = elem_ok(args[4]) and not _has(args[4], lambda n: n[0] == "bin")
            # same element read and written: destination is a deref of the element taken from the same `next`
            # (the call result is a temporary that is then stored through the element reference)
            dest = t["dest"]
            stores = []
            for i, j, s_ in host.stmts():
                if s_["k"] == "assign" and "*" in s_["p"]["pr"] and s_["rv"]["k"] == "use" and (s_["rv"]["o"].get("m") or s_["rv"]["o"].get("c") or {}).get("l") == dest["l"]:
                    stores.append((i, s_))
            if "*" in dest["pr"]:
                dest_ok = elem_ok(fn_expr_operand(host, {"c": {"l": dest["l"], "pr": []}}))
            else:
                dest_ok = len(stores) == 1 and elem_ok(fn_expr_operand(host, {"c": {"l": stores[0][1]["p"]["l"], "pr": []}})) and stores[0][0] == t["t"]
            # unconditional inside the loop: only the loop's own `next() is Some` test controls it
            deps = host.control_deps(bb, transitive=False)
            conds = []
            for sb, tgt in deps:
                tt = host.blocks[sb]["t"]
                e = fn_expr_operand(host, tt["d"]) if tt["k"] == "switch" else ("x",)
                if via == "loop" and e[0] == "discr" and elem_ok(e):
                    continue
                conds.append(str(e)[:80])
            no_skip = not [1 for bb2, t2, c2 in f.calls() if c2 and c2.get("name") in LENGTH_CHANGING]
            ok = a0 and names == want and idx_ok and dest_ok and not conds and no_skip
            detail = {"form": via, "scaled_element": a0, "args": names, "index_from_enumerate": idx_ok, "stored_to_same_element": dest_ok, "conditions": conds, "no_length_changing_adaptor": no_skip}
        res.site(key, True, dict(detail, verdict="ok" if ok else "VIOLATION"))
        if not ok:
            res.find(key, f.loc(), "%s does not rewrite every sample with apply_phase_and_detuning_at_index(%ssample, phase, detuning, sample_rate, index) unconditionally (%s)" % (f.path[len(B):], "scale * " if with_scale else "", detail), "a Gaussian with scale 0.5 keeps some samples unscaled, or the phase is applied to every other sample only")

    per_element_rule(bsa, "K7|scale-phase-every-sample|build_samples", True)
    per_element_rule(apd, "K7|scale-phase-every-sample|apply_phase_and_detuning", False)

    # helper shapes
    key = "K5|phase-helper-shape|apply_phase_and_detuning_at_index"
    calls = [(bb, t, c) for bb, t, c in apdi.calls() if c and callee_path(c) == ap.path]
    ok = False
    if len(calls) == 1 and len(list(apdi.calls())) == 1:
        a = [fn_expr_operand(apdi, x) for x in calls[0][1]["args"]]
        ph = a[1]
        if ph[0] == "agg" and ph[1].endswith("Cycles"):
            inner = _strip(ph[3]["0"])
            if inner[0] == "bin" and inner[1] == "Add":
                parts = [_strip(inner[2]), _strip(inner[3])]
                phase_part = [x for x in parts if x[0] == "field" and x[1][0] == "param" and x[1][2] == "phase"]
                det_part = [x for x in parts if x[0] == "bin" and x[1] == "Div"]
                if len(phase_part) == 1 and len(det_part) == 1:
                    num, den = _strip(det_part[0][2]), _strip(det_part[0][3])
                    fac, k = _consts_product(num)
                    ok = a[0][0] == "param" and a[0][2] == "iq_value" and fac == ["detuning", "index"] and k == 1.0 and den[0] == "param" and den[2] == "sample_rate"
    res.site(key, True, {"verdict": "ok" if ok else "VIOLATION"})
    if not ok:
        res.find(key, apdi.loc(), "apply_phase_and_detuning_at_index is not apply_phase(iq, Cycles(detuning * index / sample_rate + phase))", "a phase of 0.25 cycles no longer multiplies every sample by i")

    key = "K5|phase-helper-shape|apply_phase"
    ok = False
    e = fn_expr_operand(ap, {"m": {"l": 0, "pr": []}})
    ops = _mul_operands(e)
    if ops and len(list(ap.calls())) == 3:
        o_iq = [o for o in ops if o[0] == "param" and o[2] == "iq_value"]
        o_cis = [o for o in ops if o[0] == "call" and o[1].endswith("::cis")]
        if len(o_iq) == 1 and len(o_cis) == 1:
            arg = _strip(o_cis[0][2][0])
            ok = arg[0] == "field" and arg[2] == "0" and arg[1][0] == "call" and "Radians" in arg[1][1] and arg[1][1].endswith("::from") and arg[1][2][0][0] == "param" and arg[1][2][0][2] == "phase"
    res.site(key, True, {"verdict": "ok" if ok else "VIOLATION"})
    if not ok:
        res.find(key, ap.loc(), "apply_phase is not iq_value * cis(Radians::from(phase))", "phase 0.5 cycles does not negate the samples")

    key = "K5|phase-helper-shape|polar_to_rectangular"
    ok = False
    e = fn_expr_operand(p2r, {"m": {"l": 0, "pr": []}})
    if e[0] == "call" and e[1].endswith("::from_polar") and len(e[2]) == 2 and len(list(p2r.calls())) == 2:
        arg = _strip(e[2][1])
        ok = e[2][0][0] == "param" and e[2][0][2] == "magnitude" and arg[0] == "field" and arg[2] == "0" and arg[1][0] == "call" and "Radians" in arg[1][1] and arg[1][2][0][0] == "param" and arg[1][2][0][2] == "angle"
    res.site(key, True, {"verdict": "ok" if ok else "VIOLATION"})
    if not ok:
        res.find(key, p2r.loc(), "polar_to_rectangular is not from_polar(magnitude, Radians::from(angle))", "a boxcar kernel with phase 0.5 is not negated")

    key = "K5|phase-helper-shape|cycles-to-radians"
    conv = [f for f in db.fns if f.path == "<quil_rs::units::Radians<f64> as std::convert::From<quil_rs::units::Cycles<f64>>>::from"]
    if len(conv) != 1:
        res.missing_anchor("Radians<f64>: From<Cycles<f64>>")
    else:
        e = fn_expr_operand(conv[0], {"m": {"l": 0, "pr": []}})
        ok = False
        if e[0] == "agg" and e[1].endswith("Radians"):
            fac, k = _consts_product(e[3]["0"])
            ok = fac == ["cycles.0"] and abs(k - 2 * math.pi) < 1e-12 and not list(conv[0].calls())
        res.site(key, True, {"verdict": "ok" if ok else "VIOLATION"})
        if not ok:
            res.find(key, conv[0].loc(), "Radians::from(Cycles(c)) is not c * 2 * pi", "phase p multiplies the samples by something other than exp(2*pi*i*p)")

    # Flat / BoxcarKernel: scale and phase reach the samples in both branches
    for wname, generic in (("Flat", "::<T>"), ("BoxcarKernel", "")):
        f = [g for g in fns if g.path == B + wname + generic + "::raw_iq_values_at_sample_rate"]
        key = "K7|scale-phase-every-sample|%s" % wname
        if len(f) != 1:
            res.missing_anchor(wname + "::raw_iq_values_at_sample_rate")
            continue
        f = f[0]
        flat = []
        samples = []
        for i, j, s in f.stmts():
            if s["k"] == "assign" and s["rv"]["k"] == "agg" and s["rv"]["a"]["k"] == "adt":
                e = fn_expr_rvalue(f, s["rv"])
                if e[1].endswith("sampling::IqSamples"):
                    (flat if e[2] == "Flat" else samples).append((i, e))
        from_resolved = lambda x, name: _is_field(_strip(x), name) and _root_call(_strip(x))[0] == "call" and _root_call(_strip(x))[1].endswith("resolve_for_flat_unless_detuned")
        ok = False
        detail = {"flat_sites": len(flat), "samples_sites": len(samples)}
        if len(flat) == 1 and len(samples) == 1:
            fbb, fe = flat[0]
            sbb, se = samples[0]
            # the two constructions are the two sides of `detuning == 0.0`
            sw = [(sb, tgt) for sb, tgt in f.control_deps(fbb, transitive=False)]
            sw2 = [(sb, tgt) for sb, tgt in f.control_deps(sbb, transitive=False)]
            cond_ok = False
            if len(sw) == 1 and len(sw2) == 1 and sw[0][0] == sw2[0][0] and sw[0][1] != sw2[0][1]:
                tt = f.blocks[sw[0][0]]["t"]
                d = fn_expr_operand(f, tt["d"])
                d = _strip(d)
                # the flat construction sits on the `detuning == 0.0` side (true side of Eq, false side of Ne)
                false_targets = [target for v, target in tt["ts"] if int(v) == 0]
                flat_on_true = bool(false_targets) and sw[0][1] not in false_targets
                cond_ok = d[0] == "bin" and d[1] in ("Eq", "Ne") and (flat_on_true == (d[1] == "Eq")) and any(from_resolved(x, "detuning") for x in (d[2], d[3])) and any(x[0] == "const" and float(x[1]) == 0.0 for x in (d[2], d[3]))
            if wname == "Flat":
                iq = fe[3]["iq"]
                f_ok = iq[0] == "call" and iq[1] == ap.path and from_resolved(iq[2][1], "phase")
                ops = _mul_operands(iq[2][0]) if f_ok else None
                scaled = lambda ops_: bool(ops_) and any(from_resolved(o, "scale") for o in ops_) and any(_is_field(_strip(o), "iq") for o in ops_)
                f_ok = f_ok and scaled(ops)
                v = se[3]["0"]
                s_ok = v[0] == "call" and v[1].endswith("from_elem") and scaled(_mul_operands(v[2][0]))
                through = [(bb, t, c) for bb, t, c in f.calls() if c and callee_path(c) == apd.path]
                t_ok = False
                if len(through) == 1:
                    bb, t, c = through[0]
                    a = [fn_expr_operand(f, x) for x in t["args"]]
                    t_ok = _has(a[0], lambda n: n[0] == "call" and n[1].endswith("from_elem")) and from_resolved(a[1], "phase") and from_resolved(a[2], "detuning") and a[3][0] == "param" and a[3][2] == "sample_rate" and bb in f.dominators().get(sbb, set()) and not [x for x in f.control_deps(bb, transitive=False) if x[0] != sw2[0][0]] if sw2 else False
                ok = cond_ok and f_ok and s_ok and t_ok
                detail.update({"flat_branch_condition": cond_ok, "flat_iq_scaled_and_phased": f_ok, "samples_scaled": s_ok, "samples_phase_and_detuning_applied": t_ok})
            else:
                iq = fe[3]["iq"]
                mag_ok = lambda m: (lambda mm: mm[0] == "bin" and mm[1] == "Div" and from_resolved(mm[2], "scale") and L.classify(f, mm[3]) == [["COUNT"]])(_strip(m))
                f_ok = iq[0] == "call" and iq[1] == p2r.path and mag_ok(iq[2][0]) and from_resolved(iq[2][1], "phase")
                # the detuned branch maps a closure over 0..count
                v = se[3]["0"]
                clo = []
                rng = []

                def _maps(n):
                    if n[0] == "call" and n[1].endswith("::map") and len(n[2]) == 2 and n[2][1][0] == "closure":
                        clo.append(n[2][1])
                        if n[2][0][0] == "agg" and n[2][0][1].endswith("Range"):
                            rng.append(n[2][0])
                        return False

                walk_expr(v, _maps)
                s_ok = False
                if len(clo) == 1 and len(rng) == 1:
                    g = L.by_path.get(clo[0][1])
                    r_ok = rng[0][3]["start"][0] == "const" and int(rng[0][3]["start"][1]) == 0 and L.classify(f, rng[0][3]["end"]) == [["COUNT"]]
                    caps = clo[0][2]
                    if g is not None and r_ok:
                        ge = fn_expr_operand(g, {"m": {"l": 0, "pr": []}})
                        if ge[0] == "call" and ge[1] == p2r.path:
                            # magnitude: cap(scale) / cap(count); angle: Cycles(detuning * index / rate) + phase
                            def cap_of(x):
                                x = _strip(x)
                                if x[0] == "field" and str(x[2]).startswith("cap") and x[1][0] == "param":
                                    return caps[int(x[2][3:])]
                                return None

                            m = _strip(ge[2][0])
                            m_ok = m[0] == "bin" and m[1] == "Div" and cap_of(m[2]) is not None and from_resolved(cap_of(m[2]), "scale") and cap_of(m[3]) is not None and L.classify(f, cap_of(m[3])) == [["COUNT"]]
                            ang = ge[2][1]
                            a_ok = False
                            if ang[0] == "call" and ang[1].endswith("::add") and len(ang[2]) == 2:
                                cyc = [x for x in ang[2] if x[0] == "agg" and x[1].endswith("Cycles")]
                                ph = [x for x in ang[2] if cap_of(x) is not None and from_resolved(cap_of(x), "phase")]
                                if len(cyc) == 1 and len(ph) == 1:
                                    q = _strip(cyc[0][3]["0"])
                                    if q[0] == "bin" and q[1] == "Div":
                                        num = _strip(q[2])
                                        den = cap_of(q[3])
                                        if num[0] == "bin" and num[1] == "Mul":
                                            xs = [_strip(num[2]), _strip(num[3])]
                                            det = [x for x in xs if cap_of(x) is not None and from_resolved(cap_of(x), "detuning")]
                                            idx = [x for x in xs if x[0] == "param" and x[2] == "index"]
                                            a_ok = len(det) == 1 and len(idx) == 1 and den is not None and den[0] == "param" and den[2] == "sample_rate"
                            s_ok = m_ok and a_ok
                adaptors = sorted({c.get("name") for bb, t, c in f.calls() if c and c.get("name") in LENGTH_CHANGING})
                ok = cond_ok and f_ok and s_ok and not adaptors
                detail.update({"flat_branch_condition": cond_ok, "flat_iq_is_polar(scale/count, phase)": f_ok, "detuned_samples_are_polar(scale/count, detuning*index/rate + phase)": s_ok, "length_changing_adaptors": adaptors})
        res.site(key, True, dict(detail, verdict="ok" if ok else "VIOLATION"))
        if not ok:
            res.find(key, f.loc(), "%s does not feed scale and phase into its samples in both the flat and the detuned branch (%s)" % (wname, detail), "%s with scale 2 and phase 0.5 is not -2 times the unscaled waveform" % wname)

    # every sample-vector waveform goes through build_samples_and_adjust_for_builtin_parameters with the resolved
    # explicit parameters
    bsc = require_fn(db, res, B + "build_samples_and_adjust_for_common_parameters")
    bspt = require_fn(db, res, B + "build_sample_per_time_step_and_adjust_for_common_parameters")
    car = require_fn(db, res, B + "concretize_and_resolve")
    rff = require_fn(db, res, B + "resolve_for_flat_unless_detuned")
    if not all((bsc, bspt, car, rff)):
        return res
    nroutes = 0
    routes = (
        (bsc, bsa.path, 1, lambda f, a: a[0] == "param" and a[2] == "common"),
        (bspt, bsc.path, 1, lambda f, a: _is_field(_strip(a), "0") and _root_call(a)[0] == "call" and _root_call(a)[1] == car.path),
    )
    for p in ("Gaussian", "DragGaussian", "HermiteGaussian"):
        g = [f for f in fns if f.path == B + p + "::<T>::raw_iq_values_at_sample_rate"]
        if len(g) != 1:
            res.missing_anchor(p + "::raw_iq_values_at_sample_rate")
            continue
        routes += ((g[0], bspt.path, 1, lambda f, a: a[0] == "param" and a[2] == "common"),)
    for p, target in (("ErfSquare", bsc.path), ("RaisedCosine", bsa.path)):
        g = [f for f in fns if f.path == B + p + "::<T>::raw_iq_values_at_sample_rate"]
        if len(g) != 1:
            continue
        routes += ((g[0], target, 1, lambda f, a: _is_field(_strip(a), "0") and _root_call(a)[0] == "call" and _root_call(a)[1] == car.path),)
    for f, target, argi, pred in routes:
        key = "K6|samples-through-common-adjustment|%s" % f.path[len(B):]
        calls = [(bb, t, c) for bb, t, c in f.calls() if c and callee_path(c) == target]
        ok = len(calls) == 1 and pred(f, fn_expr_operand(f, calls[0][1]["args"][argi]))
        # ... and every IqSamples::Samples with complex content built here comes from that call
        nroutes += 1
        res.site(key, True, {"calls": len(calls), "verdict": "ok" if ok else "VIOLATION"})
        if not ok:
            res.find(key, f.loc(), "%s does not hand its samples and the resolved common parameters to %s exactly once" % (f.path[len(B):], target[len(B):]), "scale / phase / detuning are ignored for this waveform")
    res.count("adjustment_routes", nroutes, floor=7)

    # resolvers call raw_resolve first and unconditionally
    for f in (car, rff):
        key = "K6|count-single-source|%s" % f.path[len(B):]
        calls = [(bb, t, c) for bb, t, c in f.calls() if c and callee_path(c) == rr.path]
        ok = len(calls) == 1 and not f.control_deps(calls[0][0], transitive=True) and [L._leafname(fn_expr_operand(f, a)) for a in calls[0][1]["args"]] == ["common", "sample_rate"]
        res.site(key, True, {"calls": len(calls), "verdict": "ok" if ok else "VIOLATION"})
        if not ok:
            res.find(key, f.loc(), "%s does not resolve the common parameters (count = round(duration*rate)) unconditionally with its own `common` and `sample_rate`" % f.path[len(B):], "the sample count is computed from another rate than the samples")

    # ---------------------------------------------------------------- R4
    nfast = 0
    for f in fns:
        if f.path.count("{closure#") != 0:
            continue
        isa = [(bb, t, c) for bb, t, c in f.calls() if c and c.get("name") == "is_some_and"]
        if not isa:
            continue
        short = f.path[len(B):]
        key = "K7|zero-scale-all-zero|%s" % short
        nfast += 1
        ok = False
        detail = {}
        if len(isa) == 1:
            bb0, t0, c0 = isa[0]
            a = [fn_expr_operand(f, x) for x in t0["args"]]
            recv_ok = _is_field(_strip(a[0]), "scale") and _strip(a[0])[1][0] == "param" and _strip(a[0])[1][2] == "common"
            clo = a[1]
            pred_ok = False
            if clo[0] == "closure":
                g = L.by_path.get(clo[1])
                if g is not None:
                    gc = [(bb, t, c) for bb, t, c in g.calls() if c]
                    names = [c.get("name") for bb, t, c in gc]
                    if names == ["eval_real", "eq"]:
                        ev = fn_expr_operand(g, gc[0][1]["args"][0])
                        eqa = [fn_expr_operand(g, x) for x in gc[1][1]["args"]]
                        prom = [h for h in db.fns if h.path.startswith(g.path + "::promoted")]
                        zero = False
                        for h in prom:
                            for i, j, s in h.stmts():
                                if s["k"] == "assign" and s["rv"]["k"] == "agg":
                                    pe = fn_expr_rvalue(h, s["rv"])
                                    if pe[0] == "agg" and pe[2] == "Ok" and pe[3].get("0", ("x",))[0] == "const" and float(pe[3]["0"][1]) == 0.0:
                                        zero = True
                        pred_ok = ev[0] == "param" and zero and any(x[0] == "call" and x[1].endswith("eval_real") for x in eqa) and len(g.blocks) == 3
            # the all-zero closure and where it is called
            az = []
            for g in fns:
                if g.path.startswith(f.path + "::{closure#") and g.path.count("{closure#") == 1:
                    for i, j, s in g.stmts():
                        if s["k"] == "assign" and s["rv"]["k"] == "agg" and s["rv"]["a"]["k"] == "adt":
                            e = fn_expr_rvalue(g, s["rv"])
                            if e[1].endswith("sampling::IqSamples") and e[2] == "Flat":
                                iq = e[3]["iq"]
                                z = iq[0] == "call" and len(iq[2]) == 2 and all(x[0] == "const" and float(x[1]) == 0.0 for x in iq[2])
                                az.append((g, z))
            calls_ok = False
            ncalls = 0
            if len(az) == 1 and az[0][1]:
                g = az[0][0]
                sites = [(bb, t, c) for bb, t, c in f.calls() if c and callee_path(c) == g.path]
                ncalls = len(sites)
                good = 0
                arms = set()
                for bb, t, c in sites:
                    deps = sorted(f.control_deps(bb, transitive=False))
                    if len(deps) == 1:
                        sb, tgt = deps[0]
                        tt = f.blocks[sb]["t"]
                        d = fn_expr_operand(f, tt["d"]) if tt["k"] == "switch" else ("x",)
                        # switch on the boolean returned by is_some_and, taken on the `true` side
                        if d[0] == "call" and d[1].endswith("is_some_and") and d[3] == bb0:
                            vals = [v for v, target in tt["ts"] if target == tgt]
                            else_side = tt["else"] == tgt
                            false_targets = [target for v, target in tt["ts"] if int(v) == 0]
                            if (else_side and false_targets and tgt not in false_targets) or (vals and all(int(v) != 0 for v in vals)):
                                good += 1
                                # which outcome of the resolver are we in?
                                for sb2, tgt2 in f.control_deps(sb, transitive=True):
                                    d2 = fn_expr_operand(f, f.blocks[sb2]["t"]["d"]) if f.blocks[sb2]["t"]["k"] == "switch" else ("x",)
                                    if d2[0] == "discr" and _root_call(d2[1])[0] == "call" and _root_call(d2[1])[1] == car.path and not _has(d2, lambda n: n[0] == "call" and n[1].endswith("Try>::branch") is False and False):
                                        arms.add((sb2, tgt2))
                calls_ok = ncalls == 2 and good == 2 and len(arms) >= 2
            ok = recv_ok and pred_ok and calls_ok
            detail = {"tests_common.scale": recv_ok, "predicate_is_eval_real(scale)==Ok(0.0)": pred_ok, "all_zero_closures": len(az), "iq_is_0+0i": bool(az) and az[0][1], "guarded_calls": ncalls, "in_partial_and_total_branch": calls_ok}
        res.site(key, True, dict(detail, verdict="ok" if ok else "VIOLATION"))
        if not ok:
            res.find(key, f.loc(), "%s: the zero-scale fast path is not `IqSamples::Flat { iq: 0 }` returned exactly when eval_real(common.scale) == Ok(0.0), in both the partial and the total branch (%s)" % (short, detail), "a waveform with a tiny non-zero scale, or with no scale given, comes back all zero; or zero scale with an unknown parameter yields a placeholder")
    res.count("zero_scale_fast_paths", nfast, floor=3)

    # ---------------------------------------------------------------- R5
    nw = 0
    kinds = sorted({m.group(1) for f in fns for m in [re.match(re.escape(B) + r"(\w+)(?:::<T>)?::raw_iq_values_at_sample_rate$", f.path)] if m})
    res.analysed["waveform_kinds"] = kinds
    for k in kinds:
        raws = [f for f in fns if re.match(re.escape(B) + k + r"(?:::<T>)?::raw_iq_values_at_sample_rate$", f.path)]
        conc = [f for f in db.fns if re.match(r"<" + re.escape(B) + k + r"(<.*>)? as " + re.escape(B) + r"BuiltinWaveformParameters>::iq_values_at_sample_rate$", f.path)]
        part = [f for f in db.fns if re.match(r"<" + re.escape(B) + k + r"(<.*>)? as " + re.escape(B) + r"PartialBuiltinWaveformParameters>::partial_iq_values_at_sample_rate$", f.path)]
        key = "K3|partial-and-total-same-source|%s" % k
        ok = False
        detail = {"raw": len(raws), "concrete_impls": len(conc), "partial_impls": len(part)}
        if len(raws) == 1 and len(conc) == 1 and len(part) == 1:
            oks = []
            for w, post in ((conc[0], "unwrap_total"), (part[0], "into_iq_samples_or_placeholder")):
                cs = [(bb, t, c) for bb, t, c in w.calls() if c]
                shape = len(cs) == 2 and callee_path(cs[0][2], resolved=False).split("::<")[0].replace("::<T>", "") is not None
                rawc = [x for x in cs if x[2].get("name") == "raw_iq_values_at_sample_rate"]
                mapc = [x for x in cs if x[2].get("name") == "map"]
                good = False
                if len(rawc) == 1 and len(mapc) == 1 and len(cs) == 2:
                    a = [fn_expr_operand(w, x) for x in rawc[0][1]["args"]]
                    unchanged = [x[0] == "param" and x[1] == i + 1 for i, x in enumerate(a)] == [True, True, True]
                    same_raw = (k + "::") in callee_path(rawc[0][2]) or (k + "<") in callee_path(rawc[0][2]) or callee_path(rawc[0][2]).startswith(B + k)
                    m = [fn_expr_operand(w, x) for x in mapc[0][1]["args"]]
                    good = unchanged and same_raw and m[0][0] == "call" and m[0][1].endswith("raw_iq_values_at_sample_rate") and m[1][0] == "fnconst" and m[1][1].endswith(post)
                    ret = fn_expr_operand(w, {"m": {"l": 0, "pr": []}})
                    good = good and ret[0] == "call" and ret[1].endswith("::map")
                oks.append(good)
            ok = all(oks)
            detail["wrappers_ok"] = oks
        nw += 1
        res.site(key, True, dict(detail, verdict="ok" if ok else "VIOLATION"))
        if not ok:
            res.find(key, (conc or part or raws or [rr])[0].loc(), "%s: iq_values_at_sample_rate and partial_iq_values_at_sample_rate are not both `self.raw_iq_values_at_sample_rate(common, sample_rate).map(..)` on the same generic implementation (%s)" % (k, detail), "a partially specified %s whose parameters become known samples differently from the concrete one" % k)
    res.count("waveform_kinds", nw, floor=7)

    # enum dispatch: each variant forwards to the variant's own method with unchanged arguments
    for trait, meth in (("BuiltinWaveformParameters", "iq_values_at_sample_rate"), ("PartialBuiltinWaveformParameters", "partial_iq_values_at_sample_rate")):
        fs = [f for f in db.fns if re.match(r"<" + re.escape(B) + r"BuiltinWaveform<.*> as " + re.escape(B) + trait + ">::" + meth + "$", f.path)]
        key = "K2|enum-dispatch|%s" % meth
        if len(fs) != 1:
            res.missing_anchor("BuiltinWaveform::" + meth)
            continue
        f = fs[0]
        cs = [(bb, t, c) for bb, t, c in f.calls() if c and c.get("name") == meth]
        seen = set()
        good = True
        for bb, t, c in cs:
            a = [fn_expr_operand(f, x) for x in t["args"]]
            recv = _strip(a[0])
            v = None
            n = recv
            while n[0] in ("field", "as"):
                if n[0] == "as":
                    v = n[2]
                n = n[1]
            if v is None or n[0] != "param" or n[1] != 1 or not (a[1][0] == "param" and a[1][1] == 2 and a[2][0] == "param" and a[2][1] == 3):
                good = False
            p = callee_path(c)
            if v is not None and (B + str(v)) not in p:
                good = False
            seen.add(str(v))
        ok = good and sorted(seen) == kinds
        res.site(key, True, {"variants_forwarded": sorted(seen), "verdict": "ok" if ok else "VIOLATION"})
        if not ok:
            res.find(key, f.loc(), "BuiltinWaveform::%s does not forward every variant %s to that variant's own implementation with unchanged arguments (forwarded: %s)" % (meth, kinds, sorted(seen)), "BuiltinWaveform::DragGaussian samples as a plain Gaussian")

    # IqSamples::sample_count
    sc = [f for f in db.fns if f.path == "quil_rs::waveform::sampling::IqSamples::<T>::sample_count"]
    key = "K5|sample-count-accessor"
    if len(sc) != 1:
        res.missing_anchor("IqSamples::sample_count")
    else:
        e = fn_expr_operand(sc[0], {"m": {"l": 0, "pr": []}})
        alts = e[1] if e[0] == "phi" else [e]
        a_flat = [x for x in alts if _is_field(_strip(x), "sample_count") and "Flat" in _proj_names(_strip(x))]
        a_len = [x for x in alts if x[0] == "call" and x[1].endswith("::len") and "Samples" in _proj_names(x[2][0])]
        ok = len(alts) == 2 and len(a_flat) == 1 and len(a_len) == 1
        res.site(key, True, {"verdict": "ok" if ok else "VIOLATION"})
        if not ok:
            res.find(key, sc[0].loc(), "IqSamples::sample_count is not `Flat.sample_count | Samples.len()`", "sample_count() of a flat waveform differs from the length of into_iq_values()")

    res.explanation = "Structural necessary conditions of C32 only: provenance of every sample count and vector length (%d sites) from round(duration*rate) and ceil(pad*rate), the per-sample scale/phase/detuning rewrite and the shape of its helpers, the zero-scale fast paths (%d), and the shared implementation behind the concrete and partial entry points of %d waveform kinds.  The numeric envelopes, the 1%% alignment tolerance and floating-point identities are NOT decided." % (nsites, nfast, nw)
    res.assumptions = ["f64::round / f64::ceil, Complex::cis / from_polar, vec![x; n], repeat_n, Iterator::map / chain, ndarray::Array::range as documented", "numerical content of the envelopes is outside this check"]
    return res
