"""./check <Cxx> [--tier quick|thorough] [--replay path] [--repo dir]"""
import argparse
import importlib
import os
import sys
import time

sys.path.insert(0, os.path.dirname(os.path.dirname(os.path.abspath(__file__))))

from qv import facts, report  # noqa: E402
from qv.engine import DB, MonoGraph  # noqa: E402


class Ctx:
    def __init__(self, tier, repo=None, config="default"):
        self.tier = tier
        self.config = config
        self.repo = repo or facts.REPO
        self._dbs = {}
        self._syn = {}
        self._dirs = {}

    def facts_dir(self, config=None):
        config = config or self.config
        if config not in self._dirs:
            self._dirs[config] = facts.ensure_facts(config, self.repo)
        return self._dirs[config]

    def db(self, crate="quil_rs", config=None):
        config = config or self.config
        key = (crate, config)
        if key not in self._dbs:
            raw = facts.load_raw(self.facts_dir(config), crate)
            if raw is None:
                raise facts.BuildError("no facts for crate " + crate)
            self._dbs[key] = DB(raw)
        return self._dbs[key]

    def mono(self, crate="quil_rs", config=None):
        config = config or self.config
        key = ("mono", crate, config)
        if key not in self._dbs:
            raw = facts.load_mono(self.facts_dir(config), crate)
            if raw is None:
                raise facts.BuildError("no mono graph for crate " + crate)
            self._dbs[key] = MonoGraph(raw, self.db(crate, config))
        return self._dbs[key]

    def syn(self, config=None):
        config = config or self.config
        if config not in self._syn:
            from qv.synq import Syn

            self._syn[config] = Syn(facts.load_syn(self.facts_dir(config)))
        return self._syn[config]


def main(argv=None):
    ap = argparse.ArgumentParser()
    ap.add_argument("prop")
    ap.add_argument("--tier", default=os.environ.get("VERIF_TIER", "quick"))
    ap.add_argument("--replay", default=None)
    ap.add_argument("--repo", default=None)
    a = ap.parse_args(argv)
    tier = a.tier if a.tier in ("quick", "thorough") else "quick"
    seed = int(os.environ.get("VERIF_SEED", "0") or 0)
    t0 = time.time()
    if a.repo:
        facts.REPO = a.repo
    mod = importlib.import_module("qv.props.%s" % a.prop.lower())
    # quick: the default feature set.  thorough: every feature configuration that builds offline is analysed and the
    # verdicts are merged (a violation in any configuration is a violation; counts are those of the default one).
    configs = ["default"] + (sorted(c for c in facts.CONFIGS if c != "default") if tier == "thorough" else [])
    res = None
    try:
        for cfg in configs:
            r = mod.run(Ctx(tier, a.repo, cfg))
            r.analysed.setdefault("configurations", []).append(cfg)
            if res is None:
                res = r
            else:
                res.analysed["configurations"].append(cfg)
                res.sites += r.sites
                for f in r.findings:
                    if not any(g.key == f.key for g in res.findings):
                        res.findings.append(f)
                res.undecided += [u for u in r.undecided if u not in res.undecided]
                for k, v in r.counts.items():
                    res.counts["%s@%s" % (k, cfg)] = v
                    if k in r.floors:
                        res.floors["%s@%s" % (k, cfg)] = r.floors[k]
    except facts.BuildError as e:
        print("INCONCLUSIVE: /repo does not build on the analysis toolchain; no facts, no verdict.\n%s" % e)
        return 2
    code = report.finish(res, tier, seed, t0)
    if code == 0:
        print("OK property=%s tier=%s sites=%d nontrivial=%d findings(known)=%d wall=%.1fs" % (a.prop, tier, res.sites, len(res.nontrivial), len(res.findings), time.time() - t0))
    return code


if __name__ == "__main__":
    sys.exit(main())
